//! B1/B3 for the sync group: deterministic authors and log chains, replica construction by
//! actually running ingest (+ prune), and the reference model of what each replica stores.

use std::collections::BTreeMap;
use std::ops::RangeInclusive;

use engine::proptest::prelude::*;
use p2panda_core::{Body, Hash, Header, Operation, SeqNum, SigningKey, VerifyingKey};
use p2panda_store::Transaction;
use p2panda_store::logs::LogStore;
use p2panda_store::operations::OperationStore;
use p2panda_store::topics::TopicStore;
use p2panda_stream::ingest::ingest_operation;
use serde::{Deserialize, Serialize};

pub type LogIdT = u64;
pub type TopicT = u64;

/// Topic every session of these checks is about; `OTHER_TOPIC` holds logs that must never be
/// touched by a session.
pub const SESSION_TOPIC: TopicT = 1;
pub const OTHER_TOPIC: TopicT = 2;

#[derive(Clone, Debug, PartialEq, Eq, Serialize, Deserialize)]
pub struct Ext {
    pub log: u64,
    pub prune: bool,
}

pub type Op = Operation<Ext>;

/// Everything the repository's sync protocols and ingest need from a store.
pub trait HStore:
    Transaction
    + OperationStore<Op, Hash>
    + LogStore<Op, VerifyingKey, LogIdT, SeqNum, Hash>
    + TopicStore<TopicT, VerifyingKey, LogIdT>
    + Clone
    + Send
    + 'static
{
}

impl<S> HStore for S where
    S: Transaction
        + OperationStore<Op, Hash>
        + LogStore<Op, VerifyingKey, LogIdT, SeqNum, Hash>
        + TopicStore<TopicT, VerifyingKey, LogIdT>
        + Clone
        + Send
        + 'static
{
}

// ---------------------------------------------------------------------------------------------
// Generated (plain data) description

#[derive(Clone, Debug, Serialize, Deserialize)]
pub struct OpSpec {
    pub prune: bool,
    /// 0 = no payload; 1..=200 = body present (length derived); 201..=255 = header claims a
    /// payload but the body is absent (allowed by `validate_operation`).
    pub body: u8,
}

#[derive(Clone, Debug, Serialize, Deserialize)]
pub struct Hold {
    pub present: bool,
    /// Which eligible start (seq 0 or a prune point) the replica received first.
    pub start: u16,
    /// How many operations from there it received (mapped onto 1..=remaining).
    pub len: u16,
}

#[derive(Clone, Debug, Serialize, Deserialize)]
pub struct LogSpec {
    /// Log belongs to `OTHER_TOPIC` (not part of the session).
    pub other_topic: bool,
    pub ops: Vec<OpSpec>,
    pub a: Hold,
    pub b: Hold,
}

#[derive(Clone, Debug, Serialize, Deserialize)]
pub struct AuthorSpec {
    pub logs: Vec<LogSpec>,
}

#[derive(Clone, Debug, Serialize, Deserialize)]
pub struct WorldSpec {
    pub authors: Vec<AuthorSpec>,
    /// 0 = replica A holds nothing, 1 = replica B holds nothing, otherwise as generated.
    pub empty_side: u8,
}

pub fn op_spec(prune_pct: u32) -> impl Strategy<Value = OpSpec> {
    (
        prop::bool::weighted(prune_pct as f64 / 100.0),
        prop_oneof![2 => Just(0u8), 6 => 1u8..=200, 1 => 201u8..=255],
    )
        .prop_map(|(prune, body)| OpSpec { prune, body })
}

pub fn hold() -> impl Strategy<Value = Hold> {
    (prop::bool::weighted(0.8), any::<u16>(), any::<u16>()).prop_map(|(present, start, len)| Hold { present, start, len })
}

pub fn world_spec(max_authors: usize, max_logs: usize, max_ops: usize, prune_pct: u32) -> impl Strategy<Value = WorldSpec> {
    let log = (
        prop::bool::weighted(0.12),
        prop::collection::vec(op_spec(prune_pct), 0..=max_ops),
        hold(),
        hold(),
    )
        .prop_map(|(other_topic, ops, a, b)| LogSpec { other_topic, ops, a, b });
    let author = prop::collection::vec(log, 1..=max_logs).prop_map(|logs| AuthorSpec { logs });
    (prop::collection::vec(author, 1..=max_authors), 0u8..16).prop_map(|(authors, empty_side)| WorldSpec { authors, empty_side })
}

// ---------------------------------------------------------------------------------------------
// Built world

pub struct Chain {
    pub author_idx: usize,
    pub log_idx: usize,
    pub author: VerifyingKey,
    pub log_id: LogIdT,
    pub topic: TopicT,
    pub ops: Vec<Op>,
    pub header_bytes: Vec<Vec<u8>>,
}

impl Chain {
    pub fn key(&self) -> (VerifyingKey, LogIdT) {
        (self.author, self.log_id)
    }

    pub fn in_session(&self) -> bool {
        self.topic == SESSION_TOPIC
    }
}

pub struct World {
    pub chains: Vec<Chain>,
    pub total_ops: usize,
}

pub fn signing_key(author_idx: usize) -> SigningKey {
    let mut seed = [0x5au8; 32];
    seed[0] = author_idx as u8;
    seed[31] = 0xc1 ^ (author_idx as u8).wrapping_mul(29);
    SigningKey::from_bytes(&seed)
}

pub fn body_bytes(author_idx: usize, log_idx: usize, seq: usize, len: usize) -> Vec<u8> {
    (0..len).map(|i| (i as u8).wrapping_mul(31) ^ (seq as u8) ^ ((author_idx * 7 + log_idx) as u8)).collect()
}

/// Builds the full chains of the world. `body_scale` multiplies body lengths (1..=200 bytes * scale).
pub fn build_world(spec: &WorldSpec, body_scale: usize) -> World {
    let mut chains = Vec::new();
    let mut total_ops = 0;
    for (ai, author) in spec.authors.iter().enumerate() {
        let sk = signing_key(ai);
        for (li, log) in author.logs.iter().enumerate() {
            // Log ids repeat across authors on purpose (a log is identified by (author, id)).
            let log_id = li as u64 * 1000 + 7;
            let mut ops = Vec::new();
            let mut header_bytes = Vec::new();
            let mut backlink: Option<Hash> = None;
            for (seq, os) in log.ops.iter().enumerate() {
                let payload: Option<Body> = match os.body {
                    0 => None,
                    n if n <= 200 => Some(Body::new(&body_bytes(ai, li, seq, n as usize * body_scale))),
                    n => Some(Body::new(&body_bytes(ai, li, seq, (n as usize - 200) * 3))),
                };
                let mut header = Header::<Ext> {
                    version: 1,
                    verifying_key: sk.verifying_key(),
                    signature: None,
                    payload_size: payload.as_ref().map(|b| b.size()).unwrap_or(0),
                    payload_hash: payload.as_ref().map(|b| b.hash()),
                    seq_num: seq as SeqNum,
                    backlink,
                    extensions: Ext {
                        log: log_id,
                        prune: os.prune,
                    },
                };
                header.sign(&sk);
                let hash = header.hash();
                backlink = Some(hash);
                header_bytes.push(header.to_bytes());
                ops.push(Operation {
                    hash,
                    header,
                    body: if os.body > 200 { None } else { payload },
                });
                total_ops += 1;
            }
            chains.push(Chain {
                author_idx: ai,
                log_idx: li,
                author: sk.verifying_key(),
                log_id,
                topic: if log.other_topic { OTHER_TOPIC } else { SESSION_TOPIC },
                ops,
                header_bytes,
            });
        }
    }
    World { chains, total_ops }
}

#[derive(Clone, Copy, Debug, PartialEq, Eq)]
pub enum Side {
    A,
    B,
}

impl Side {
    pub fn other(self) -> Side {
        match self {
            Side::A => Side::B,
            Side::B => Side::A,
        }
    }

    pub fn name(self) -> &'static str {
        match self {
            Side::A => "A",
            Side::B => "B",
        }
    }
}

/// What a replica received of one chain: the contiguous run `delivered` (starting at seq 0 or at a
/// prune point) and what is left of it after the prunes triggered on the way (`window`).
#[derive(Clone, Debug)]
pub struct Held {
    pub delivered: RangeInclusive<usize>,
    pub window: RangeInclusive<usize>,
}

impl Held {
    pub fn height(&self) -> SeqNum {
        *self.window.end() as SeqNum
    }
}

/// Reference model of a replica: chain index -> held window (absent = nothing of that log).
pub type ReplicaModel = BTreeMap<usize, Held>;

pub fn replica_model(spec: &WorldSpec, world: &World, side: Side) -> ReplicaModel {
    let mut model = BTreeMap::new();
    if (side == Side::A && spec.empty_side == 0) || (side == Side::B && spec.empty_side == 1) {
        return model;
    }
    for (ci, chain) in world.chains.iter().enumerate() {
        let log = &spec.authors[chain.author_idx].logs[chain.log_idx];
        let hold = match side {
            Side::A => &log.a,
            Side::B => &log.b,
        };
        let n = chain.ops.len();
        if !hold.present || n == 0 {
            continue;
        }
        let mut starts = vec![0usize];
        starts.extend((1..n).filter(|s| log.ops[*s].prune));
        let start = starts[engine::idx(hold.start, starts.len())];
        let count = 1 + engine::idx(hold.len, n - start);
        let end = start + count - 1;
        let lo = (start..=end).rev().find(|s| log.ops[*s].prune && *s > start).unwrap_or(start);
        model.insert(
            ci,
            Held {
                delivered: start..=end,
                window: lo..=end,
            },
        );
    }
    model
}

/// Feeds one operation through the repository's ingest and – like the node pipeline – prunes the
/// log below it when the operation carries the prune flag. Returns ingest's verdict.
pub async fn ingest_and_prune<S: HStore>(store: &S, chain: &Chain, op: &Op) -> Result<bool, String> {
    let prune = op.header.extensions.prune;
    let inserted = ingest_operation::<S, Op, LogIdT, Ext, TopicT>(store, op, &chain.log_id, &chain.topic, prune)
        .await
        .map_err(|e| format!("{e}"))?;
    if prune {
        <S as LogStore<Op, VerifyingKey, LogIdT, SeqNum, Hash>>::prune_entries(store, &chain.author, &chain.log_id, &op.header.seq_num)
            .await
            .map_err(|e| format!("prune_entries: {e}"))?;
    }
    Ok(inserted)
}

/// Builds a replica's store by running ingest (+ prune) over the delivered runs. Any rejection
/// here is a problem of the fixture (the runs are valid by construction), not of a sync property.
pub async fn build_replica<S: HStore>(store: &S, world: &World, model: &ReplicaModel) -> Result<(), String> {
    for (ci, held) in model {
        let chain = &world.chains[*ci];
        for seq in held.delivered.clone() {
            match ingest_and_prune(store, chain, &chain.ops[seq]).await {
                Ok(true) => {}
                Ok(false) => return Err(format!("fixture: operation {seq} of chain {ci} reported as already existing")),
                Err(e) => return Err(format!("fixture: ingest of operation {seq} of chain {ci} failed: {e}")),
            }
        }
    }
    // Independent of the log queries under test: every modelled operation is present, every pruned one is gone.
    for (ci, held) in model {
        let chain = &world.chains[*ci];
        for seq in held.delivered.clone() {
            let has = <S as OperationStore<Op, Hash>>::has_operation(store, &chain.ops[seq].hash)
                .await
                .map_err(|e| format!("has_operation: {e}"))?;
            if has != held.window.contains(&seq) {
                return Err(format!("fixture: store and model disagree on operation {seq} of chain {ci} (stored: {has})"));
            }
        }
    }
    Ok(())
}

/// The `logs` argument a caller passes to `LogSync`: the session topic's logs the replica holds
/// (what `TopicStore::resolve` returns after ingest), optionally also the topic's logs it does
/// not hold yet.
pub fn session_logs(world: &World, model: &ReplicaModel, include_unheld: bool) -> BTreeMap<VerifyingKey, Vec<LogIdT>> {
    let mut logs: BTreeMap<VerifyingKey, Vec<LogIdT>> = BTreeMap::new();
    for (ci, chain) in world.chains.iter().enumerate() {
        if !chain.in_session() {
            continue;
        }
        if model.contains_key(&ci) || (include_unheld && !chain.ops.is_empty()) {
            logs.entry(chain.author).or_default().push(chain.log_id);
        }
    }
    logs
}

/// Heights a replica announces: its session logs it holds something of.
pub fn expected_have(world: &World, model: &ReplicaModel) -> BTreeMap<(VerifyingKey, LogIdT), SeqNum> {
    model
        .iter()
        .filter(|(ci, _)| world.chains[**ci].in_session())
        .map(|(ci, held)| (world.chains[*ci].key(), held.height()))
        .collect()
}

/// Closed form of the property statement: what `receiver` must be handed by a completed session –
/// per chain the sender's stored operations above the receiver's height (all stored ones when the
/// receiver does not know the log), nothing for logs outside the session topic.
pub fn expected_delivery(world: &World, sender: &ReplicaModel, receiver: &ReplicaModel) -> BTreeMap<usize, Vec<usize>> {
    let mut out = BTreeMap::new();
    for (ci, held) in sender {
        if !world.chains[*ci].in_session() {
            continue;
        }
        let seqs: Vec<usize> = match receiver.get(ci) {
            None => held.window.clone().collect(),
            Some(r) => held.window.clone().filter(|s| *s > *r.window.end()).collect(),
        };
        if !seqs.is_empty() {
            out.insert(*ci, seqs);
        }
    }
    out
}
