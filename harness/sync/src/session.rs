//! Hand-driven pair of sync sessions (B5 + B7 + B9 glue).
//!
//! * `Tracked<S>` wraps a store: it counts the `LogStore` calls of one session, knows whether the
//!   session is currently inside a store call (so "Pending and not inside the store" means "blocked
//!   on the transport") and applies planned store mutations right before the k-th call – the only
//!   points at which a session can observe a concurrent change of its store (C20).
//! * `drive` polls the two session futures by hand with flag wakers. A state in which both are
//!   `Pending`, no waker has fired, neither is inside a store call and the harness has nothing left
//!   to release is final: with the in-memory store nothing else exists that could wake them, so it
//!   is an exact deadlock/stuck verdict, not a timeout.

use std::collections::BTreeMap;
use std::future::Future;
use std::pin::Pin;
use std::sync::atomic::{AtomicBool, AtomicUsize, Ordering};
use std::sync::{Arc, Mutex};
use std::task::{Context, Poll, Wake, Waker};

use futures_channel::mpsc;
use p2panda_core::{Hash, SeqNum, VerifyingKey};
use p2panda_store::Transaction;
use p2panda_store::logs::LogStore;
use p2panda_store::operations::OperationStore;
use p2panda_store::topics::TopicStore;
use p2panda_sync::ToSync;
use p2panda_sync::protocols::{LogSync, LogSyncEvent, LogSyncMessage, TopicLogSync, TopicLogSyncEvent, TopicLogSyncMessage};
use p2panda_sync::traits::Protocol;
use tokio::sync::broadcast;

use crate::pipe::{PipeCtl, Wire, WireMsg, pipe_gated};
use crate::world::{Ext, HStore, LogIdT, Op, ReplicaModel, SESSION_TOPIC, Side, TopicT, World, ingest_and_prune, session_logs};

// ---------------------------------------------------------------------------------------------
// Tracked store

/// A planned change of a replica's own store, resolved against the store's state when it runs.
#[derive(Clone, Debug)]
pub struct Mutation {
    /// Applied right before the session's `at_call`-th `LogStore` call (0-based).
    pub at_call: usize,
    pub chain: usize,
    pub kind: MutKind,
    pub amount: u16,
}

#[derive(Clone, Copy, Debug, PartialEq, Eq)]
pub enum MutKind {
    /// Ingest (+ prune) the next 1..=3 operations of the chain.
    IngestNext,
    /// Ingest (+ prune) the next prune-flagged operation above the current height, skipping the gap.
    IngestPrunePoint,
    /// `prune_entries(until)` with `until` in 0..=height+1 (height+1 removes the whole log).
    Prune,
    /// `delete_operation` of one stored operation.
    Delete,
}

/// One executed store mutation.
#[derive(Clone, Debug)]
pub struct Applied {
    /// Index of the session's `LogStore` call it ran in front of.
    pub call: usize,
    pub chain: usize,
    pub kind: MutKind,
    /// It removed stored entries of the chain.
    pub removed: bool,
    pub note: String,
}

#[derive(Default)]
pub struct Probe {
    in_store: AtomicUsize,
    calls: AtomicUsize,
    applied: Mutex<Vec<Applied>>,
}

impl Probe {
    pub fn calls(&self) -> usize {
        self.calls.load(Ordering::SeqCst)
    }

    pub fn in_store(&self) -> bool {
        self.in_store.load(Ordering::SeqCst) > 0
    }

    pub fn applied(&self) -> Vec<Applied> {
        self.applied.lock().unwrap().clone()
    }
}

struct InStore<'a>(&'a AtomicUsize);

impl<'a> InStore<'a> {
    fn enter(c: &'a AtomicUsize) -> Self {
        c.fetch_add(1, Ordering::SeqCst);
        InStore(c)
    }
}

impl Drop for InStore<'_> {
    fn drop(&mut self) {
        self.0.fetch_sub(1, Ordering::SeqCst);
    }
}

pub struct Tracked<S> {
    pub inner: S,
    pub probe: Arc<Probe>,
    world: Arc<World>,
    plan: Arc<Mutex<Vec<Mutation>>>,
}

impl<S: Clone> Clone for Tracked<S> {
    fn clone(&self) -> Self {
        Self {
            inner: self.inner.clone(),
            probe: self.probe.clone(),
            world: self.world.clone(),
            plan: self.plan.clone(),
        }
    }
}

impl<S: HStore> Tracked<S> {
    pub fn new(inner: S, world: Arc<World>, plan: Vec<Mutation>) -> Self {
        Self {
            inner,
            probe: Arc::new(Probe::default()),
            world,
            plan: Arc::new(Mutex::new(plan)),
        }
    }

    async fn height(&self, chain: usize) -> Result<Option<SeqNum>, String> {
        let c = &self.world.chains[chain];
        let latest = <S as LogStore<Op, VerifyingKey, LogIdT, SeqNum, Hash>>::get_latest_entry(&self.inner, &c.author, &c.log_id)
            .await
            .map_err(|e| format!("get_latest_entry: {e}"))?;
        Ok(latest.map(|op| op.header.seq_num))
    }

    async fn apply(&self, m: &Mutation) -> Result<(String, bool), String> {
        let c = &self.world.chains[m.chain];
        let n = c.ops.len();
        let height = self.height(m.chain).await?;
        let next = height.map(|h| h as usize + 1).unwrap_or(0);
        match m.kind {
            MutKind::IngestNext => {
                let count = 1 + engine::idx(m.amount, 3);
                let mut done = Vec::new();
                let mut removed = false;
                let mut rejected = None;
                for seq in next..(next + count).min(n) {
                    // A rejection (possible after an earlier delete left a gap) just ends the run.
                    if let Err(e) = ingest_and_prune(&self.inner, c, &c.ops[seq]).await {
                        rejected = Some(format!("seq {seq} rejected: {e}"));
                        break;
                    }
                    removed |= c.ops[seq].header.extensions.prune && seq > 0 && height.is_some();
                    done.push(seq);
                }
                Ok((format!("ingest chain {} seqs {:?} {:?}", m.chain, done, rejected), removed))
            }
            MutKind::IngestPrunePoint => {
                match (next..n).find(|s| c.ops[*s].header.extensions.prune) {
                    Some(seq) => match ingest_and_prune(&self.inner, c, &c.ops[seq]).await {
                        Ok(_) => Ok((format!("ingest prune point chain {} seq {}", m.chain, seq), height.is_some())),
                        Err(e) => Ok((format!("prune point chain {} seq {} rejected: {e}", m.chain, seq), false)),
                    },
                    None => Ok((format!("no prune point above {height:?} in chain {}", m.chain), false)),
                }
            }
            MutKind::Prune => {
                let Some(h) = height else {
                    return Ok((format!("prune: chain {} not stored", m.chain), false));
                };
                let until = engine::idx(m.amount, h as usize + 2) as SeqNum;
                let removed = <S as LogStore<Op, VerifyingKey, LogIdT, SeqNum, Hash>>::prune_entries(&self.inner, &c.author, &c.log_id, &until)
                    .await
                    .map_err(|e| format!("prune_entries: {e}"))?;
                Ok((format!("prune chain {} until {} (height {}, removed {})", m.chain, until, h, removed), removed > 0))
            }
            MutKind::Delete => {
                let Some(h) = height else {
                    return Ok((format!("delete: chain {} not stored", m.chain), false));
                };
                let seq = engine::idx(m.amount, h as usize + 1);
                let permit = self.inner.begin().await.map_err(|e| format!("begin: {e}"))?;
                let deleted = <S as OperationStore<Op, Hash>>::delete_operation(&self.inner, &c.ops[seq].hash)
                    .await
                    .map_err(|e| format!("delete_operation: {e}"))?;
                self.inner.commit(permit).await.map_err(|e| format!("commit: {e}"))?;
                Ok((format!("delete chain {} seq {} (deleted {})", m.chain, seq, deleted), deleted))
            }
        }
    }

    /// Called at the start of every `LogStore` call of the session.
    async fn before_call(&self) {
        let k = self.probe.calls.fetch_add(1, Ordering::SeqCst);
        let due: Vec<Mutation> = {
            let mut plan = self.plan.lock().unwrap();
            let (due, rest): (Vec<_>, Vec<_>) = plan.drain(..).partition(|m| m.at_call <= k);
            *plan = rest;
            due
        };
        for m in due {
            let (note, removed) = match self.apply(&m).await {
                Ok(s) => s,
                // A failing fixture mutation is a harness problem, never a verdict about sync.
                Err(e) => engine::harness_error(&format!("store mutation {m:?} failed: {e}")),
            };
            self.probe.applied.lock().unwrap().push(Applied {
                call: k,
                chain: m.chain,
                kind: m.kind,
                removed,
                note,
            });
        }
    }
}

impl<S: HStore> LogStore<Op, VerifyingKey, LogIdT, SeqNum, Hash> for Tracked<S> {
    type Error = <S as LogStore<Op, VerifyingKey, LogIdT, SeqNum, Hash>>::Error;

    async fn get_latest_entry(&self, author: &VerifyingKey, log_id: &LogIdT) -> Result<Option<Op>, Self::Error> {
        let _g = InStore::enter(&self.probe.in_store);
        self.before_call().await;
        <S as LogStore<Op, VerifyingKey, LogIdT, SeqNum, Hash>>::get_latest_entry(&self.inner, author, log_id).await
    }

    async fn get_latest_entry_tx(&self, author: &VerifyingKey, log_id: &LogIdT) -> Result<Option<Op>, Self::Error> {
        let _g = InStore::enter(&self.probe.in_store);
        self.before_call().await;
        <S as LogStore<Op, VerifyingKey, LogIdT, SeqNum, Hash>>::get_latest_entry_tx(&self.inner, author, log_id).await
    }

    async fn get_log_heights(&self, author: &VerifyingKey, logs: &[LogIdT]) -> Result<Option<BTreeMap<LogIdT, SeqNum>>, Self::Error> {
        let _g = InStore::enter(&self.probe.in_store);
        self.before_call().await;
        <S as LogStore<Op, VerifyingKey, LogIdT, SeqNum, Hash>>::get_log_heights(&self.inner, author, logs).await
    }

    async fn get_log_size(&self, author: &VerifyingKey, log_id: &LogIdT, after: Option<SeqNum>, until: Option<SeqNum>) -> Result<Option<(u32, u32)>, Self::Error> {
        let _g = InStore::enter(&self.probe.in_store);
        self.before_call().await;
        <S as LogStore<Op, VerifyingKey, LogIdT, SeqNum, Hash>>::get_log_size(&self.inner, author, log_id, after, until).await
    }

    async fn get_log_entries(&self, author: &VerifyingKey, log_id: &LogIdT, after: Option<SeqNum>, until: Option<SeqNum>) -> Result<Option<Vec<(Op, Vec<u8>)>>, Self::Error> {
        let _g = InStore::enter(&self.probe.in_store);
        self.before_call().await;
        <S as LogStore<Op, VerifyingKey, LogIdT, SeqNum, Hash>>::get_log_entries(&self.inner, author, log_id, after, until).await
    }

    async fn prune_entries(&self, author: &VerifyingKey, log_id: &LogIdT, until: &SeqNum) -> Result<u64, Self::Error> {
        let _g = InStore::enter(&self.probe.in_store);
        <S as LogStore<Op, VerifyingKey, LogIdT, SeqNum, Hash>>::prune_entries(&self.inner, author, log_id, until).await
    }
}

impl<S: HStore> TopicStore<TopicT, VerifyingKey, LogIdT> for Tracked<S> {
    type Error = <S as TopicStore<TopicT, VerifyingKey, LogIdT>>::Error;

    async fn associate(&self, topic: &TopicT, author: &VerifyingKey, data_id: &LogIdT) -> Result<bool, Self::Error> {
        let _g = InStore::enter(&self.probe.in_store);
        <S as TopicStore<TopicT, VerifyingKey, LogIdT>>::associate(&self.inner, topic, author, data_id).await
    }

    async fn remove(&self, topic: &TopicT, author: &VerifyingKey, data_id: &LogIdT) -> Result<bool, Self::Error> {
        let _g = InStore::enter(&self.probe.in_store);
        <S as TopicStore<TopicT, VerifyingKey, LogIdT>>::remove(&self.inner, topic, author, data_id).await
    }

    async fn resolve(&self, topic: &TopicT) -> Result<BTreeMap<VerifyingKey, Vec<LogIdT>>, Self::Error> {
        let _g = InStore::enter(&self.probe.in_store);
        <S as TopicStore<TopicT, VerifyingKey, LogIdT>>::resolve(&self.inner, topic).await
    }
}

// ---------------------------------------------------------------------------------------------
// Hand-driven tasks

struct Flag {
    woken: AtomicBool,
    outer: Mutex<Option<Waker>>,
}

impl Wake for Flag {
    fn wake(self: Arc<Self>) {
        self.wake_by_ref();
    }

    fn wake_by_ref(self: &Arc<Self>) {
        self.woken.store(true, Ordering::SeqCst);
        if let Some(w) = self.outer.lock().unwrap().take() {
            w.wake();
        }
    }
}

pub type BoxFut<'f> = Pin<Box<dyn Future<Output = Result<(), String>> + 'f>>;

struct Task<'f> {
    fut: Option<BoxFut<'f>>,
    flag: Arc<Flag>,
    waker: Waker,
    probe: Arc<Probe>,
    result: Option<Result<(), String>>,
    polls: u64,
}

impl<'f> Task<'f> {
    fn new(fut: BoxFut<'f>, probe: Arc<Probe>) -> Self {
        let flag = Arc::new(Flag {
            woken: AtomicBool::new(true), // first poll is due
            outer: Mutex::new(None),
        });
        Task {
            fut: Some(fut),
            waker: Waker::from(flag.clone()),
            flag,
            probe,
            result: None,
            polls: 0,
        }
    }

    fn done(&self) -> bool {
        self.fut.is_none()
    }

    /// Polls once if the task's waker fired since its last poll. Returns whether it polled.
    fn poll_if_woken(&mut self) -> bool {
        let Some(fut) = self.fut.as_mut() else {
            return false;
        };
        if !self.flag.woken.swap(false, Ordering::SeqCst) {
            return false;
        }
        self.polls += 1;
        let mut cx = Context::from_waker(&self.waker);
        if let Poll::Ready(r) = fut.as_mut().poll(&mut cx) {
            self.result = Some(r);
            self.fut = None;
        }
        true
    }
}

async fn wait_any_wake(tasks: &[Task<'_>]) {
    std::future::poll_fn(|cx| {
        for t in tasks {
            *t.flag.outer.lock().unwrap() = Some(cx.waker().clone());
        }
        if tasks.iter().any(|t| !t.done() && t.flag.woken.load(Ordering::SeqCst)) {
            Poll::Ready(())
        } else {
            Poll::Pending
        }
    })
    .await
}

/// Runs the tasks until each is finished or blocked on its transport with no wake-up pending.
async fn settle(tasks: &mut [Task<'_>], over: &dyn Fn() -> bool) {
    loop {
        if over() {
            return;
        }
        let mut progressed = false;
        for t in tasks.iter_mut() {
            if t.poll_if_woken() {
                progressed = true;
            }
        }
        if progressed {
            continue;
        }
        if tasks.iter().any(|t| !t.done() && t.probe.in_store()) {
            // Only reachable with the SQLite store (its worker thread completes the query).
            wait_any_wake(tasks).await;
            continue;
        }
        return;
    }
}

pub struct DriveOutcome {
    pub results: [Option<Result<(), String>>; 2],
    /// Final state reached with an unfinished session and nothing left that could wake it.
    pub stuck: bool,
    pub relay_steps: usize,
    pub polls: [u64; 2],
    /// Per side: inbound messages the harness handed to the side while the side's own sink held an
    /// accepted, not yet flushed message of the sync loop (its transcript already had >= 3 entries,
    /// i.e. `Have`, `PreSync` and an `Operation`/`Done`). Only counted in manual mode.
    pub inbound_while_flush_pending: [usize; 2],
    pub grant_steps: usize,
    /// Driving was abandoned because a side wrote more than `GateSchedule::max_wire` messages.
    pub wire_overflow: bool,
}

/// Harness decisions for gated pipes (`pipe_gated`); the default does nothing for ungated pipes.
#[derive(Clone, Debug, Default)]
pub struct GateSchedule {
    /// One raw value per decision in which a flush grant is among the possible actions.
    pub picks: Vec<u16>,
    /// Weight of a "release a message to its reader" action relative to a "grant a flush" action
    /// (weight 1); 0 is treated as 1.
    pub release_weight: usize,
    /// Stop driving (never a verdict by itself) once a side has written more messages than this;
    /// callers pass a bound no correct session can reach. Sessions that re-send under back-pressure
    /// can otherwise feed each other duplicates without end. `None`: no bound.
    pub max_wire: Option<usize>,
}

/// Drives session A (writes `ctl_ab`'s pipe) and session B (writes `ctl_ba`'s pipe).
pub async fn drive<'f, M>(
    fut_a: BoxFut<'f>,
    fut_b: BoxFut<'f>,
    probes: [Arc<Probe>; 2],
    ctl_ab: &PipeCtl<M>,
    ctl_ba: &PipeCtl<M>,
    manual: bool,
    schedule: &[bool],
    after_settle: impl FnMut(),
) -> DriveOutcome {
    drive_gated(fut_a, fut_b, probes, ctl_ab, ctl_ba, manual, schedule, &GateSchedule::default(), after_settle).await
}

#[derive(Clone, Copy, PartialEq, Eq)]
enum Act {
    ReleaseAb,
    ReleaseBa,
    GrantAb,
    GrantBa,
}

/// `drive` for pipes that may have a flush gate. While no flush grant is outstanding the decisions
/// are exactly those of `drive` (so ungated users are unaffected); otherwise the next action is
/// drawn from the possible releases and grants with `gate.picks`.
pub async fn drive_gated<'f, M>(
    fut_a: BoxFut<'f>,
    fut_b: BoxFut<'f>,
    probes: [Arc<Probe>; 2],
    ctl_ab: &PipeCtl<M>,
    ctl_ba: &PipeCtl<M>,
    manual: bool,
    schedule: &[bool],
    gate: &GateSchedule,
    mut after_settle: impl FnMut(),
) -> DriveOutcome {
    let [pa, pb] = probes;
    let mut tasks = [Task::new(fut_a, pa), Task::new(fut_b, pb)];
    let mut relay_steps = 0usize;
    let mut grant_steps = 0usize;
    let mut gate_decisions = 0usize;
    let mut inbound_while_flush_pending = [0usize; 2];
    let mut stuck = false;
    let mut wire_overflow = false;
    let over = || match gate.max_wire {
        Some(max) => ctl_ab.transcript_len() > max || ctl_ba.transcript_len() > max,
        None => false,
    };
    // A message handed to `reader` while the reader's own sink (`own`) holds an unflushed
    // sync-loop message.
    let note_release = |own: &PipeCtl<M>, slot: &mut usize| {
        if own.flush_pending() && own.transcript_len() >= 3 {
            *slot += 1;
        }
    };
    loop {
        settle(&mut tasks, &over).await;
        after_settle();
        if tasks.iter().all(|t| t.done()) {
            break;
        }
        if over() {
            wire_overflow = true;
            break;
        }
        let can_ab = manual && ctl_ab.unreleased() > 0;
        let can_ba = manual && ctl_ba.unreleased() > 0;
        let grants_ab = ctl_ab.pending_grants() > 0;
        let grants_ba = ctl_ba.pending_grants() > 0;
        let act = if grants_ab || grants_ba {
            let w = gate.release_weight.max(1);
            let mut acts: Vec<Act> = Vec::new();
            if can_ab {
                acts.extend(std::iter::repeat_n(Act::ReleaseAb, w));
            }
            if can_ba {
                acts.extend(std::iter::repeat_n(Act::ReleaseBa, w));
            }
            if grants_ab {
                acts.push(Act::GrantAb);
            }
            if grants_ba {
                acts.push(Act::GrantBa);
            }
            let i = match gate.picks.get(gate_decisions) {
                Some(raw) => engine::idx(*raw, acts.len()),
                None => gate_decisions % acts.len(),
            };
            gate_decisions += 1;
            acts[i]
        } else if manual {
            match (can_ab, can_ba) {
                (false, false) => {
                    stuck = true;
                    break;
                }
                (true, false) => Act::ReleaseAb,
                (false, true) => Act::ReleaseBa,
                (true, true) => {
                    if schedule.get(relay_steps).copied().unwrap_or(relay_steps % 2 == 0) {
                        Act::ReleaseAb
                    } else {
                        Act::ReleaseBa
                    }
                }
            }
        } else {
            stuck = true;
            break;
        };
        match act {
            Act::ReleaseAb => {
                note_release(ctl_ba, &mut inbound_while_flush_pending[1]);
                ctl_ab.release_one();
                relay_steps += 1;
            }
            Act::ReleaseBa => {
                note_release(ctl_ab, &mut inbound_while_flush_pending[0]);
                ctl_ba.release_one();
                relay_steps += 1;
            }
            Act::GrantAb => {
                ctl_ab.grant_one();
                grant_steps += 1;
            }
            Act::GrantBa => {
                ctl_ba.grant_one();
                grant_steps += 1;
            }
        }
    }
    let polls = [tasks[0].polls, tasks[1].polls];
    let [a, b] = tasks;
    DriveOutcome {
        results: [a.result, b.result],
        stuck,
        relay_steps,
        polls,
        inbound_while_flush_pending,
        grant_steps,
        wire_overflow,
    }
}

// ---------------------------------------------------------------------------------------------
// A pair of real sessions

#[derive(Clone, Copy, Debug, PartialEq, Eq)]
pub enum Proto {
    /// `LogSync` with the caller-supplied `logs` map.
    LogSync { include_unheld: bool },
    /// `TopicLogSync` (resolves the topic's logs itself); with `live`, both sides enter live mode
    /// and side `closer` has a `Close` queued.
    Topic { live: bool, closer: Side },
}

pub struct PairConfig {
    pub proto: Proto,
    pub buffer_ab: Option<usize>,
    pub buffer_ba: Option<usize>,
    pub manual: bool,
    pub schedule: Vec<bool>,
}

#[derive(Debug, Default)]
pub struct SideOutcome {
    /// `None`: the session never finished.
    pub result: Option<Result<(), String>>,
    /// Everything this side wrote to its sink, in order.
    pub transcript: Vec<Wire>,
    /// Operations handed to the application (`OperationReceived`), in order.
    pub received: Vec<Op>,
    /// `Failed` events.
    pub failed_events: Vec<String>,
    pub store_calls: usize,
    pub applied: Vec<Applied>,
    pub sink_closed: bool,
}

pub struct PairOutcome {
    pub a: SideOutcome,
    pub b: SideOutcome,
    pub stuck: bool,
    pub relay_steps: usize,
    pub max_in_flight: [usize; 2],
    /// See `DriveOutcome::inbound_while_flush_pending` (A, B).
    pub inbound_while_flush_pending: [usize; 2],
    pub grant_steps: usize,
    /// See `DriveOutcome::wire_overflow`.
    pub wire_overflow: bool,
}

/// Flush gates of the two directions (`pipe_gated`) and the harness' grant decisions.
#[derive(Clone, Debug, Default)]
pub struct GateConfig {
    pub gate_ab: Option<usize>,
    pub gate_ba: Option<usize>,
    pub schedule: GateSchedule,
}

impl PairOutcome {
    pub fn side(&self, s: Side) -> &SideOutcome {
        match s {
            Side::A => &self.a,
            Side::B => &self.b,
        }
    }

    pub fn both_ok(&self) -> bool {
        matches!(self.a.result, Some(Ok(()))) && matches!(self.b.result, Some(Ok(())))
    }
}

pub async fn run_pair<S: HStore>(
    store_a: Tracked<S>,
    store_b: Tracked<S>,
    world: &World,
    model_a: &ReplicaModel,
    model_b: &ReplicaModel,
    cfg: &PairConfig,
) -> PairOutcome {
    run_pair_gated(store_a, store_b, world, model_a, model_b, cfg, &GateConfig::default()).await
}

/// `run_pair` over pipes with optional flush gates (no gate = identical to `run_pair`).
pub async fn run_pair_gated<S: HStore>(
    store_a: Tracked<S>,
    store_b: Tracked<S>,
    world: &World,
    model_a: &ReplicaModel,
    model_b: &ReplicaModel,
    cfg: &PairConfig,
    gate: &GateConfig,
) -> PairOutcome {
    let event_capacity = (world.total_ops + 64).next_power_of_two();
    let probes = [store_a.probe.clone(), store_b.probe.clone()];
    let mut a = SideOutcome::default();
    let mut b = SideOutcome::default();
    let outcome;
    let max_in_flight;
    match cfg.proto {
        Proto::LogSync { include_unheld } => {
            type M = LogSyncMessage<LogIdT>;
            let (mut ab_tx, mut ab_rx, ctl_ab) = pipe_gated::<M>(cfg.buffer_ab, cfg.manual, gate.gate_ab);
            let (mut ba_tx, mut ba_rx, ctl_ba) = pipe_gated::<M>(cfg.buffer_ba, cfg.manual, gate.gate_ba);
            let (ev_a_tx, mut ev_a_rx) = broadcast::channel::<LogSyncEvent<Ext>>(event_capacity);
            let (ev_b_tx, mut ev_b_rx) = broadcast::channel::<LogSyncEvent<Ext>>(event_capacity);
            let sess_a: LogSync<LogIdT, Ext, Tracked<S>, LogSyncEvent<Ext>> =
                LogSync::new(store_a.clone(), session_logs(world, model_a, include_unheld), ev_a_tx);
            let sess_b: LogSync<LogIdT, Ext, Tracked<S>, LogSyncEvent<Ext>> =
                LogSync::new(store_b.clone(), session_logs(world, model_b, include_unheld), ev_b_tx);
            let fut_a: BoxFut = Box::pin(async { sess_a.run(&mut ab_tx, &mut ba_rx).await.map(|_| ()).map_err(|e| e.to_string()) });
            let fut_b: BoxFut = Box::pin(async { sess_b.run(&mut ba_tx, &mut ab_rx).await.map(|_| ()).map_err(|e| e.to_string()) });
            let (ra, rb) = (&mut a.received, &mut b.received);
            outcome = drive_gated(fut_a, fut_b, probes, &ctl_ab, &ctl_ba, cfg.manual, &cfg.schedule, &gate.schedule, || {
                while let Ok(ev) = ev_a_rx.try_recv() {
                    if let LogSyncEvent::OperationReceived { operation, .. } = ev {
                        ra.push(*operation);
                    }
                }
                while let Ok(ev) = ev_b_rx.try_recv() {
                    if let LogSyncEvent::OperationReceived { operation, .. } = ev {
                        rb.push(*operation);
                    }
                }
            })
            .await;
            a.transcript = ctl_ab.transcript();
            b.transcript = ctl_ba.transcript();
            a.sink_closed = ctl_ab.is_closed();
            b.sink_closed = ctl_ba.is_closed();
            max_in_flight = [ctl_ab.max_in_flight(), ctl_ba.max_in_flight()];
        }
        Proto::Topic { live, closer } => {
            type M = TopicLogSyncMessage<LogIdT, Ext>;
            let (mut ab_tx, mut ab_rx, ctl_ab) = pipe_gated::<M>(cfg.buffer_ab, cfg.manual, gate.gate_ab);
            let (mut ba_tx, mut ba_rx, ctl_ba) = pipe_gated::<M>(cfg.buffer_ba, cfg.manual, gate.gate_ba);
            let (ev_a_tx, mut ev_a_rx) = broadcast::channel::<TopicLogSyncEvent<Ext>>(event_capacity);
            let (ev_b_tx, mut ev_b_rx) = broadcast::channel::<TopicLogSyncEvent<Ext>>(event_capacity);
            let (mut live_a_tx, live_a_rx) = mpsc::channel::<ToSync<Op>>(8);
            let (mut live_b_tx, live_b_rx) = mpsc::channel::<ToSync<Op>>(8);
            if live {
                let tx = if closer == Side::A { &mut live_a_tx } else { &mut live_b_tx };
                tx.try_send(ToSync::Close).expect("fresh channel has room");
            }
            let sess_a: TopicLogSync<TopicT, Tracked<S>, LogIdT, Ext> =
                TopicLogSync::new(SESSION_TOPIC, store_a.clone(), if live { Some(live_a_rx) } else { None }, ev_a_tx);
            let sess_b: TopicLogSync<TopicT, Tracked<S>, LogIdT, Ext> =
                TopicLogSync::new(SESSION_TOPIC, store_b.clone(), if live { Some(live_b_rx) } else { None }, ev_b_tx);
            let fut_a: BoxFut = Box::pin(async { sess_a.run(&mut ab_tx, &mut ba_rx).await.map_err(|e| e.to_string()) });
            let fut_b: BoxFut = Box::pin(async { sess_b.run(&mut ba_tx, &mut ab_rx).await.map_err(|e| e.to_string()) });
            let (ra, rb) = (&mut a.received, &mut b.received);
            let (fa, fb) = (&mut a.failed_events, &mut b.failed_events);
            outcome = drive_gated(fut_a, fut_b, probes, &ctl_ab, &ctl_ba, cfg.manual, &cfg.schedule, &gate.schedule, || {
                while let Ok(ev) = ev_a_rx.try_recv() {
                    match ev {
                        TopicLogSyncEvent::OperationReceived { operation, .. } => ra.push(*operation),
                        TopicLogSyncEvent::Failed { error } => fa.push(error),
                        _ => {}
                    }
                }
                while let Ok(ev) = ev_b_rx.try_recv() {
                    match ev {
                        TopicLogSyncEvent::OperationReceived { operation, .. } => rb.push(*operation),
                        TopicLogSyncEvent::Failed { error } => fb.push(error),
                        _ => {}
                    }
                }
            })
            .await;
            // Keep the live-mode senders alive until the sessions are over.
            drop((live_a_tx, live_b_tx));
            a.transcript = ctl_ab.transcript();
            b.transcript = ctl_ba.transcript();
            a.sink_closed = ctl_ab.is_closed();
            b.sink_closed = ctl_ba.is_closed();
            max_in_flight = [ctl_ab.max_in_flight(), ctl_ba.max_in_flight()];
        }
    }
    let DriveOutcome {
        results: [res_a, res_b],
        stuck,
        relay_steps,
        inbound_while_flush_pending,
        grant_steps,
        wire_overflow,
        ..
    } = outcome;
    a.result = res_a;
    b.result = res_b;
    a.store_calls = store_a.probe.calls();
    b.store_calls = store_b.probe.calls();
    a.applied = store_a.probe.applied();
    b.applied = store_b.probe.applied();
    PairOutcome {
        a,
        b,
        stuck,
        relay_steps,
        max_in_flight,
        inbound_while_flush_pending,
        grant_steps,
        wire_overflow,
    }
}

static CASES_STARTED: std::sync::atomic::AtomicU64 = std::sync::atomic::AtomicU64::new(0);
static MONITOR: std::sync::Once = std::sync::Once::new();

/// Backstop only (never a verdict): a session future that spins inside a single `poll` without
/// touching the transport cannot be interrupted or observed from outside. If no case has started
/// for `STALL_LIMIT` the process reports INCONCLUSIVE and exits 2, like `engine::Watchdog`.
const STALL_LIMIT: std::time::Duration = std::time::Duration::from_secs(90);

fn start_monitor() {
    MONITOR.call_once(|| {
        std::thread::spawn(|| {
            let mut last = CASES_STARTED.load(Ordering::SeqCst);
            let mut since = std::time::Instant::now();
            loop {
                std::thread::sleep(std::time::Duration::from_millis(500));
                let now = CASES_STARTED.load(Ordering::SeqCst);
                if now != last {
                    last = now;
                    since = std::time::Instant::now();
                } else if since.elapsed() > STALL_LIMIT {
                    println!("INCONCLUSIVE: watchdog fired: no sync case finished or started for {STALL_LIMIT:?} (a session future spins inside poll)");
                    std::process::exit(2);
                }
            }
        });
    });
}

/// Runs `f` on a fresh current-thread runtime (one per case; nothing leaks between cases).
pub fn block_on<T>(f: impl Future<Output = T>) -> T {
    start_monitor();
    CASES_STARTED.fetch_add(1, Ordering::SeqCst);
    let rt = tokio::runtime::Builder::new_current_thread()
        .enable_all()
        .build()
        .unwrap_or_else(|e| engine::harness_error(&format!("cannot build runtime: {e}")));
    let out = rt.block_on(f);
    CASES_STARTED.fetch_add(1, Ordering::SeqCst);
    out
}

pub fn wire_tags(t: &[Wire]) -> Vec<&'static str> {
    t.iter().map(|w| w.tag()).collect()
}
