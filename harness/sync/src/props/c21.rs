//! C21 Sync sessions terminate for any data volume and transport buffer size.
//!
//! Two honest sessions on in-memory stores (no worker thread, every store future is ready at
//! once) over pipes whose capacity follows `futures_channel::mpsc` with one sender – the transport
//! of the repository's own sync tests: with buffer `b` a `send` completes only while at most `b`
//! messages wait to be read (`b = 0`: only once the reader took the message), `None` = unbounded.
//! Buffers are drawn per direction from {0, 1, 2, 4, 16, 512, unbounded}, data volumes from "none"
//! to 200 operations per log on one or both sides.
//!
//! Oracle: exact. Both session futures are polled by hand; a state in which both are `Pending`, no
//! waker has fired and nothing else exists that could fire one (no threads, no timers) is a
//! deadlock – a violation unless the configuration matches the signature of the open finding
//! K-C21. Any session error is a violation too (honest peers, reliable transport).
//!
//! K-C21 signature (derived from the send structure, not from runs): the two sides can block each
//! other only while both are inside a send that cannot complete –
//!   (a) both directions have buffer 0: each side waits for its `Have` to be taken, nobody reads;
//!   (b) both sides have operations to send, and on both sides operations + 1 (`Done`) exceed the
//!       direction's buffer: each side sends from one `select!` arm without reading.
//! Outside the signature a side either never sends more than fits or ends up only reading, so the
//! other side always drains; those cases are asserted. Inside it the outcome depends on the branch
//! order `select!` draws, so the cases are excluded (only while K-C21 is listed as open) and two
//! fixed probes whose deadlock does not depend on that order demonstrate the finding.

use std::sync::Arc;

use engine::proptest::prelude::*;
use engine::{CaseOk, CaseResult, Ctx, Part, ensure};
use serde::{Deserialize, Serialize};

use crate::memstore::MemStore;
use crate::session::{PairConfig, PairOutcome, Proto, Tracked, block_on, run_pair, wire_tags};
use crate::world::{AuthorSpec, Ext, Hold, LogSpec, OpSpec, Side, WorldSpec, build_replica, build_world, expected_delivery, replica_model};

const BUFFERS: [Option<usize>; 7] = [Some(0), Some(1), Some(2), Some(4), Some(16), Some(512), None];

#[derive(Clone, Debug, Serialize, Deserialize)]
struct Case {
    world: WorldSpec,
    /// indices into BUFFERS
    buffer_ab: u8,
    buffer_ba: u8,
    /// body length multiplier (bodies up to 200 * scale bytes)
    body_scale: u8,
    /// 0 LogSync, 1 TopicLogSync (no live mode)
    proto: u8,
}

fn exceeds(messages: usize, buffer: Option<usize>) -> bool {
    match buffer {
        None => false,
        Some(b) => messages > b,
    }
}

/// Signature predicate of the open finding K-C21 (see module doc).
fn k_c21_signature(ops_a: usize, ops_b: usize, buffer_ab: Option<usize>, buffer_ba: Option<usize>) -> bool {
    let handshake = buffer_ab == Some(0) && buffer_ba == Some(0);
    let send_loop = ops_a > 0 && ops_b > 0 && exceeds(ops_a + 1, buffer_ab) && exceeds(ops_b + 1, buffer_ba);
    handshake || send_loop
}

struct Run {
    out: PairOutcome,
    ops_a: usize,
    ops_b: usize,
}

fn run_config(world_spec: &WorldSpec, body_scale: usize, proto: u8, buffer_ab: Option<usize>, buffer_ba: Option<usize>, execute: bool) -> (usize, usize, Option<Run>) {
    let world = Arc::new(build_world(world_spec, body_scale));
    let ma = replica_model(world_spec, &world, Side::A);
    let mb = replica_model(world_spec, &world, Side::B);
    let ops_a: usize = expected_delivery(&world, &ma, &mb).values().map(|v| v.len()).sum();
    let ops_b: usize = expected_delivery(&world, &mb, &ma).values().map(|v| v.len()).sum();
    if !execute {
        return (ops_a, ops_b, None);
    }
    let out = block_on(async {
        let (sa, sb) = (MemStore::<Ext>::new(), MemStore::<Ext>::new());
        if let Err(e) = build_replica(&sa, &world, &ma).await {
            engine::harness_error(&e);
        }
        if let Err(e) = build_replica(&sb, &world, &mb).await {
            engine::harness_error(&e);
        }
        let cfg = PairConfig {
            proto: if proto == 0 {
                Proto::LogSync { include_unheld: false }
            } else {
                Proto::Topic {
                    live: false,
                    closer: Side::A,
                }
            },
            buffer_ab,
            buffer_ba,
            manual: false,
            schedule: vec![],
        };
        let ta = Tracked::new(sa, world.clone(), vec![]);
        let tb = Tracked::new(sb, world.clone(), vec![]);
        run_pair(ta, tb, &world, &ma, &mb, &cfg).await
    });
    (ops_a, ops_b, Some(Run { out, ops_a, ops_b }))
}

fn describe(r: &Run, buffer_ab: Option<usize>, buffer_ba: Option<usize>) -> String {
    let short = |t: Vec<&'static str>| {
        let ops = t.iter().filter(|x| **x == "operation").count();
        let rest: Vec<_> = t.into_iter().filter(|x| *x != "operation").collect();
        format!("{rest:?} + {ops} operations")
    };
    format!(
        "A must send {} operations over buffer {:?}, B {} over buffer {:?}; A: result {:?}, wrote {}; B: result {:?}, wrote {}; max in flight: A->B {} B->A {}",
        r.ops_a,
        buffer_ab,
        r.ops_b,
        buffer_ba,
        r.out.a.result,
        short(wire_tags(&r.out.a.transcript)),
        r.out.b.result,
        short(wire_tags(&r.out.b.transcript)),
        r.out.max_in_flight[0],
        r.out.max_in_flight[1]
    )
}

fn check(case: &Case, k_open: bool) -> CaseResult {
    let buffer_ab = BUFFERS[case.buffer_ab as usize % BUFFERS.len()];
    let buffer_ba = BUFFERS[case.buffer_ba as usize % BUFFERS.len()];
    let scale = case.body_scale.max(1) as usize;
    let (ops_a, ops_b, _) = run_config(&case.world, scale, case.proto, buffer_ab, buffer_ba, false);
    let in_signature = k_c21_signature(ops_a, ops_b, buffer_ab, buffer_ba);
    let labels = |ok: CaseOk| {
        ok.label_if(ops_a == 0 && ops_b == 0, "no_data")
            .label_if((ops_a == 0) != (ops_b == 0), "one_sided_data")
            .label_if(ops_a > 0 && ops_b > 0, "two_sided_data")
            .label_if(buffer_ab == Some(0) || buffer_ba == Some(0), "a_buffer_is_0")
            .label_if(buffer_ab.is_none() && buffer_ba.is_none(), "both_unbounded")
            .label_if(ops_a.max(ops_b) >= 100, "side_sends_100_or_more")
            .label_if(case.proto != 0, "proto_topic_log_sync")
    };
    if in_signature && k_open {
        return Ok(labels(CaseOk::trivial()).excluded().label("excluded_K-C21_signature"));
    }
    let (_, _, run) = run_config(&case.world, scale, case.proto, buffer_ab, buffer_ba, true);
    let run = run.expect("executed");
    ensure!(
        !run.out.stuck,
        "deadlock: both sessions are blocked, no wake-up is pending and nothing can produce one. {}",
        describe(&run, buffer_ab, buffer_ba)
    );
    ensure!(run.out.both_ok(), "a session between honest peers failed. {}", describe(&run, buffer_ab, buffer_ba));
    let blocked_ab = buffer_ab.map(|b| run.out.max_in_flight[0] > b).unwrap_or(false);
    let blocked_ba = buffer_ba.map(|b| run.out.max_in_flight[1] > b).unwrap_or(false);
    Ok(labels(CaseOk::nontrivial(blocked_ab || blocked_ba))
        .label_if(blocked_ab || blocked_ba, "a_sender_had_to_wait_for_the_reader")
        .label_if(blocked_ab && blocked_ba, "both_senders_had_to_wait")
        .label_if(in_signature, "inside_K-C21_signature_but_asserted"))
}

// ---------------------------------------------------------------------------------------------
// Generator: volume-oriented worlds

fn full() -> Hold {
    Hold {
        present: true,
        start: 0,
        len: u16::MAX,
    }
}

fn absent() -> Hold {
    Hold {
        present: false,
        start: 0,
        len: 0,
    }
}

fn partial(len: u16) -> Hold {
    Hold {
        present: true,
        start: 0,
        len,
    }
}

/// `mode`: 0 = nothing to exchange, 1 = only A has data, 2 = only B has data, 3 = both.
fn volume_world(max_ops: usize) -> impl Strategy<Value = WorldSpec> {
    let op = (prop::bool::weighted(0.03), prop_oneof![1 => Just(0u8), 4 => 1u8..=200]).prop_map(|(prune, body)| OpSpec { prune, body });
    let sizes = prop_oneof![3 => 1usize..=6, 3 => 1usize..=40, 3 => 1usize..=max_ops];
    let log = (sizes, 0u8..6, any::<u16>()).prop_flat_map(move |(n, pattern, part)| {
        prop::collection::vec(op.clone(), n..=n).prop_map(move |ops| {
            let (a, b) = match pattern {
                0 => (full(), absent()),
                1 => (absent(), full()),
                2 => (full(), partial(part)),
                3 => (partial(part), full()),
                4 => (full(), full()),
                _ => (partial(part), partial(part)),
            };
            LogSpec {
                other_topic: false,
                ops,
                a,
                b,
            }
        })
    });
    let mode = prop_oneof![1 => Just(0u8), 2 => Just(1u8), 2 => Just(2u8), 6 => Just(3u8)];
    (prop::collection::vec(prop::collection::vec(log, 1..=2), 1..=3), mode).prop_map(|(authors, mode)| {
        let mut spec = WorldSpec {
            authors: authors.into_iter().map(|logs| AuthorSpec { logs }).collect(),
            empty_side: 255,
        };
        // Shape the exchange class.
        for author in spec.authors.iter_mut() {
            for log in author.logs.iter_mut() {
                match mode {
                    0 => log.b = log.a.clone(),
                    1 => {
                        if !log.a.present {
                            log.a = full();
                        }
                        if log.b.present && log.b.len == u16::MAX {
                            log.b = absent();
                        }
                    }
                    2 => {
                        if !log.b.present {
                            log.b = full();
                        }
                        if log.a.present && log.a.len == u16::MAX {
                            log.a = absent();
                        }
                    }
                    _ => {}
                }
            }
        }
        if mode == 3 {
            // Make sure both sides have something to send: the first log flows A -> B, the second
            // (added if the world has only one) B -> A.
            let keep_or_absent = |h: &Hold| if h.present && h.len != u16::MAX { h.clone() } else { absent() };
            let first = spec.authors[0].logs[0].clone();
            {
                let l = &mut spec.authors[0].logs[0];
                l.a = full();
                l.b = keep_or_absent(&first.b);
            }
            let total: usize = spec.authors.iter().map(|a| a.logs.len()).sum();
            if total == 1 {
                spec.authors.push(AuthorSpec { logs: vec![first.clone()] });
            }
            let (ai, li) = if spec.authors[0].logs.len() > 1 { (0, 1) } else { (1, 0) };
            let second = spec.authors[ai].logs[li].clone();
            let l = &mut spec.authors[ai].logs[li];
            l.b = full();
            l.a = keep_or_absent(&second.a);
        }
        spec
    })
}

fn strategy(max_ops: usize) -> impl Strategy<Value = Case> {
    (
        volume_world(max_ops),
        0u8..BUFFERS.len() as u8,
        0u8..BUFFERS.len() as u8,
        prop_oneof![3 => Just(1u8), 1 => 2u8..=10],
        0u8..2,
    )
        .prop_map(|(world, buffer_ab, buffer_ba, body_scale, proto)| Case {
            world,
            buffer_ab,
            buffer_ba,
            body_scale,
            proto,
        })
}

// ---------------------------------------------------------------------------------------------
// Probes for K-C21

fn probe_world(ops_each: usize) -> WorldSpec {
    let log = |a: Hold, b: Hold| LogSpec {
        other_topic: false,
        ops: (0..ops_each).map(|_| OpSpec { prune: false, body: 8 }).collect(),
        a,
        b,
    };
    WorldSpec {
        authors: vec![
            AuthorSpec {
                logs: vec![log(full(), absent())],
            },
            AuthorSpec {
                logs: vec![log(absent(), full())],
            },
        ],
        empty_side: 255,
    }
}

/// Returns (reproduced, detail).
fn probe() -> (bool, String) {
    // (b) send loop: 12 operations each way over buffers of 1. Whatever branch order select! draws,
    // each side has read at most two messages when it enters its only send arm and can never
    // finish it, so both end up blocked in `sink.send`.
    let (_, _, r1) = run_config(&probe_world(12), 1, 0, Some(1), Some(1), true);
    let r1 = r1.expect("executed");
    // (a) handshake: buffers of 0, nothing to exchange.
    let (_, _, r2) = run_config(&probe_world(0), 1, 0, Some(0), Some(0), true);
    let r2 = r2.expect("executed");
    // Control: the same volumes complete when one side's messages fit.
    let (_, _, r3) = run_config(&probe_world(12), 1, 0, Some(16), Some(1), true);
    let r3 = r3.expect("executed");
    let reproduced = r1.out.stuck && r2.out.stuck;
    let detail = format!(
        "12 operations each way over buffers 1/1: {} (A wrote {} messages, B {}); no data over buffers 0/0: {} (A wrote {:?}, B {:?}); control 12 each way over buffers 16/1: {}",
        if r1.out.stuck { "deadlock" } else { "completed" },
        r1.out.a.transcript.len(),
        r1.out.b.transcript.len(),
        if r2.out.stuck { "deadlock" } else { "completed" },
        wire_tags(&r2.out.a.transcript),
        wire_tags(&r2.out.b.transcript),
        if r3.out.both_ok() { "completed" } else { "did not complete" }
    );
    (reproduced, detail)
}

pub fn run(mut ctx: Ctx) -> ! {
    ctx.assume("transport capacity follows futures_channel::mpsc with one sender (the repository's test transport): buffer b lets a send complete while at most b messages are unread; 0 means the reader must have taken the message");
    ctx.assume("in-memory store (B9): no threads or timers exist besides the two sessions, so 'both Pending and no waker fired' is an exact deadlock verdict");
    ctx.assume("tokio::select! draws its branch order from an unseedable thread-local RNG; outside the K-C21 signature completion does not depend on it, inside it the cases are excluded and the probes are chosen so that their deadlock does not depend on it either");
    let k_open = ctx.is_open("K-C21");
    if k_open && ctx.replay.is_none() {
        let (reproduced, detail) = probe();
        ctx.known_finding("K-C21", reproduced, &detail);
    }
    let max_ops = ctx.pick(120, 200);
    ctx.run_prop(
        Part::new(
            "volumes_and_buffers",
            "1-3 authors x 1-2 logs x 1-120 (quick) / 1-200 (thorough) operations with bodies up to 2 kB, held by A only / B only / both / partly, \
             exchange classes none / one-sided / two-sided; per-direction buffer from {0,1,2,4,16,512,unbounded}; LogSync and TopicLogSync; \
             non-trivial = a sender actually had to wait for the reader (in-flight messages exceeded the buffer) and the session still completed",
            2_000,
            60_000,
        )
        .min_nontrivial(0.15),
        move || strategy(max_ops),
        move |case: &Case| check(case, k_open),
    );
    ctx.finish()
}
