//! C24 De-duplication buffer remembers exactly the last `capacity` items.
//!
//! Oracle: a reference model written from the statement and the doc comment of `insert` ("if the
//! buffer capacity has been reached then the oldest item will be evicted", "returns false if the
//! item was already in the buffer"): the list of the last `capacity` *accepted* distinct items, in
//! acceptance order. `insert(x)` must return `false` exactly when `x` is in the model, `contains`
//! must agree with the model for every item of the alphabet after every step, and the number of
//! items reported present never exceeds `capacity`.

use std::collections::VecDeque;
use std::hash::Hash as StdHash;

use engine::proptest::prelude::*;
use engine::{CaseOk, CaseResult, Ctx, Part, ensure};
use p2panda_core::Hash;
use p2panda_sync::verif::DeduplicationBuffer;
use serde::{Deserialize, Serialize};

/// Runs one insertion sequence (indices into `alphabet`) against buffer and model.
///
/// `sweep_every`: after how many steps the whole alphabet is compared (1 = after every step).
fn run_sequence<T>(mut buffer: DeduplicationBuffer<T>, capacity: usize, alphabet: &[T], seq: &[usize], sweep_every: usize) -> Result<SeqStats, String>
where
    T: Eq + StdHash + Clone,
{
    let mut model: VecDeque<usize> = VecDeque::new();
    let mut evicted_ever = vec![false; alphabet.len()];
    let mut stats = SeqStats::default();
    for (step, &sym) in seq.iter().enumerate() {
        let item = &alphabet[sym];
        let expected_dup = model.contains(&sym);
        // `contains` before the insert must already agree.
        ensure!(
            buffer.contains(item) == expected_dup,
            "step {step}: contains({sym}) before insert = {}, model says {} (model {:?}, capacity {capacity})",
            !expected_dup,
            expected_dup,
            model
        );
        let inserted = buffer.insert(item.clone());
        ensure!(
            inserted == !expected_dup,
            "step {step}: insert({sym}) returned {inserted}, but the item {} among the last {capacity} accepted items {:?}",
            if expected_dup { "is" } else { "is not" },
            model
        );
        let mut evicted_now = None;
        if !expected_dup {
            if model.len() == capacity {
                evicted_now = model.pop_front();
            }
            model.push_back(sym);
            if evicted_ever[sym] {
                stats.reinserted_evicted = true;
            }
        } else {
            stats.duplicates += 1;
        }
        if let Some(e) = evicted_now {
            evicted_ever[e] = true;
            stats.evictions += 1;
            ensure!(
                !buffer.contains(&alphabet[e]),
                "step {step}: item {e} should have been evicted by insert({sym}) (capacity {capacity}) but is still reported present"
            );
        }
        ensure!(buffer.contains(item), "step {step}: item {sym} not reported present right after its insert");
        if sweep_every > 0 && (step % sweep_every == sweep_every - 1 || step + 1 == seq.len()) {
            let mut present = 0usize;
            for (i, it) in alphabet.iter().enumerate() {
                let c = buffer.contains(it);
                if c {
                    present += 1;
                }
                ensure!(
                    c == model.contains(&i),
                    "after step {step}: contains({i}) = {c}, model (last {capacity} accepted) = {:?}",
                    model
                );
            }
            ensure!(present <= capacity, "after step {step}: {present} items present, capacity {capacity}");
        }
    }
    Ok(stats)
}

#[derive(Default)]
struct SeqStats {
    evictions: usize,
    duplicates: usize,
    reinserted_evicted: bool,
}

// ---------------------------------------------------------------------------------------------
// Exhaustive part

#[derive(Clone, Debug, Serialize, Deserialize)]
struct SmallCase {
    capacity: u8,
    seq: Vec<u8>,
}

const SMALL_ALPHABET: usize = 5;

fn check_small(case: &SmallCase) -> CaseResult {
    let capacity = case.capacity as usize;
    if capacity == 0 {
        return Ok(CaseOk::trivial());
    }
    let alphabet: Vec<u8> = (0..SMALL_ALPHABET as u8).collect();
    let seq: Vec<usize> = case.seq.iter().map(|s| (*s as usize) % SMALL_ALPHABET).collect();
    let stats = run_sequence(DeduplicationBuffer::<u8>::new(capacity), capacity, &alphabet, &seq, 1)?;
    Ok(CaseOk::nontrivial(stats.reinserted_evicted)
        .label_if(stats.evictions > 0, "evicts")
        .label_if(stats.duplicates > 0, "has_duplicate")
        .label_if(stats.reinserted_evicted, "reinserts_evicted"))
}

/// All sequences over 0..5 of length <= `max_len`, for each capacity 1..=4.
fn small_domain(max_len: usize) -> impl Iterator<Item = SmallCase> {
    (1u8..=4).flat_map(move |capacity| {
        (0..=max_len).flat_map(move |len| {
            let total = SMALL_ALPHABET.pow(len as u32);
            (0..total).map(move |mut n| {
                let mut seq = Vec::with_capacity(len);
                for _ in 0..len {
                    seq.push((n % SMALL_ALPHABET) as u8);
                    n /= SMALL_ALPHABET;
                }
                SmallCase { capacity, seq }
            })
        })
    })
}

// ---------------------------------------------------------------------------------------------
// Random part

#[derive(Clone, Debug, Serialize, Deserialize)]
struct RandomCase {
    capacity: u16,
    /// alphabet size = capacity + extra (at least 2)
    extra: u16,
    /// 0 = u8, 1 = u64, 2 = Hash
    item_type: u8,
    /// Use `DeduplicationBuffer::default()` (only honoured when capacity == 1024).
    use_default: bool,
    seq: Vec<u16>,
}

fn check_random(case: &RandomCase) -> CaseResult {
    let mut capacity = (case.capacity as usize).max(1);
    let mut alphabet_len = (capacity + case.extra as usize).max(2);
    if case.item_type == 0 {
        alphabet_len = alphabet_len.min(256);
        capacity = capacity.min(255);
    }
    let seq: Vec<usize> = case.seq.iter().map(|r| engine::idx(*r, alphabet_len)).collect();
    // Full sweeps are O(alphabet); keep the total work bounded.
    let sweep_every = if alphabet_len <= 16 { 1 } else { (alphabet_len / 8).max(1) };
    let stats = match case.item_type {
        0 => {
            let alphabet: Vec<u8> = (0..alphabet_len).map(|i| i as u8).collect();
            run_sequence(DeduplicationBuffer::<u8>::new(capacity), capacity, &alphabet, &seq, sweep_every)?
        }
        1 => {
            let alphabet: Vec<u64> = (0..alphabet_len as u64).map(|i| i.wrapping_mul(0x9E37_79B9_7F4A_7C15) ^ 0x5555).collect();
            let buffer = if case.use_default && capacity == 1024 {
                DeduplicationBuffer::<u64>::default()
            } else {
                DeduplicationBuffer::<u64>::new(capacity)
            };
            run_sequence(buffer, capacity, &alphabet, &seq, sweep_every)?
        }
        _ => {
            let alphabet: Vec<Hash> = (0..alphabet_len as u64).map(|i| Hash::digest(i.to_le_bytes())).collect();
            let buffer = if case.use_default && capacity == 1024 {
                DeduplicationBuffer::<Hash>::default()
            } else {
                DeduplicationBuffer::<Hash>::new(capacity)
            };
            run_sequence(buffer, capacity, &alphabet, &seq, sweep_every)?
        }
    };
    Ok(CaseOk::nontrivial(stats.reinserted_evicted)
        .label_if(stats.evictions > 0, "evicts")
        .label_if(stats.duplicates > 0, "has_duplicate")
        .label_if(stats.reinserted_evicted, "reinserts_evicted")
        .label_if(capacity == 1, "capacity_1")
        .label_if(capacity >= 256, "capacity_ge_256")
        .label_if(case.use_default && capacity == 1024 && case.item_type != 0, "default_buffer")
        .label_if(case.item_type == 0, "type_u8")
        .label_if(case.item_type == 1, "type_u64")
        .label_if(case.item_type >= 2, "type_hash")
        .label_if(seq.len() >= 1000, "len_ge_1000"))
}

fn random_strategy(max_capacity: u16, max_len: usize) -> impl Strategy<Value = RandomCase> {
    let capacity = prop_oneof![
        4 => 1u16..=8,
        3 => 1u16..=64,
        2 => 1u16..=max_capacity,
        1 => Just(1024u16.min(max_capacity)),
    ];
    (capacity, 0u8..3, any::<bool>()).prop_flat_map(move |(capacity, item_type, use_default)| {
        // Alphabet slightly larger than the capacity makes evictions and re-insertions frequent;
        // occasionally much larger or smaller-than-capacity (extra = 0 with small alphabets).
        let extra = prop_oneof![
            5 => 0u16..=4,
            3 => 0u16..=(capacity.max(1)),
            1 => 0u16..=1000,
        ];
        let len_hi = max_len.min(200 + 6 * capacity as usize);
        (extra, proptest::collection::vec(any::<u16>(), 0..=len_hi)).prop_map(move |(extra, seq)| RandomCase {
            capacity,
            extra,
            item_type,
            use_default,
            seq,
        })
    })
}

pub fn run(mut ctx: Ctx) -> ! {
    ctx.assume("capacity >= 1 (the statement's domain); the model keeps accepted items in FIFO order as documented on `insert` (a duplicate does not refresh an item's age)");
    let max_len = ctx.pick(7, 8);
    ctx.run_exhaustive(
        "exhaustive",
        "capacity 1..=4 x every sequence over a 5-letter alphabet up to length 7 (quick) / 8 (thorough); \
         model compared after every step for every letter; non-trivial = an evicted item is inserted again",
        small_domain(max_len),
        check_small,
    );
    let (max_cap, max_seq) = ctx.pick((2000u16, 1500usize), (2000u16, 5000usize));
    ctx.run_prop(
        Part::new(
            "random",
            "capacity 1..=2000 (biased small, incl. the default 1024), alphabet = capacity + 0..1000, sequences up to 1500 (quick) / 5000 \
             (thorough) inserts, item types u8 / u64 / Hash; non-trivial = an evicted item is inserted again",
            15_000,
            200_000,
        )
        .min_nontrivial(0.3),
        move || random_strategy(max_cap, max_seq),
        check_random,
    );
    ctx.finish()
}
