pub mod c19;
pub mod c20;
pub mod c21;
pub mod c24;
