//! C19 Log sync delivers exactly the missing operations.
//!
//! Two replicas are built by running the repository's ingest (+ prune) over generated contiguous
//! runs of true log chains, so only reachable store states occur (a stored log is a window that
//! starts at seq 0 or at a prune point). Both then run a real session (`LogSync` with the logs a
//! caller would pass, or `TopicLogSync` without live mode) over in-process pipes with ample
//! capacity, on the in-memory store and on `SqliteStore`, with a generated message interleaving.
//!
//! Oracle (closed form of the statement, computed from the model of what each replica stores –
//! never from the implementation): the `OperationReceived` events of each side are exactly the
//! other side's stored operations of the session topic's logs above the receiver's own height (all
//! stored ones when the receiver does not know the log), each once, per log in ascending order,
//! byte-identical to the chain's operations, and nothing else; after feeding them through
//! ingest (+ prune) both replicas report identical log heights.
//!
//! The statement is about *completed* sessions: a pair that does not complete is not judged here
//! (that is C21) but counted, and the part's non-trivial floor turns mass incompletion into an
//! inconclusive run instead of a silent pass.
//!
//! Second part: the harness plays the remote side from the model (a bounded model of the protocol:
//! Have, PreSync | Done, Operation*, Done) and repeats some operations on the wire; the local
//! session must still hand each operation to the application exactly once.

use std::collections::{BTreeMap, HashMap};
use std::sync::Arc;

use engine::proptest::prelude::*;
use engine::{CaseOk, CaseResult, Ctx, Part, ensure};
use futures_util::{SinkExt, StreamExt};
use p2panda_core::{Hash, SeqNum, VerifyingKey};
use p2panda_store::SqliteStore;
use p2panda_store::logs::LogStore;
use p2panda_sync::protocols::{LogSync, LogSyncEvent, LogSyncMessage};
use p2panda_sync::traits::Protocol;
use serde::{Deserialize, Serialize};
use tokio::sync::broadcast;

use crate::memstore::MemStore;
use crate::pipe::pipe;
use crate::session::{BoxFut, PairConfig, Proto, Tracked, block_on, drive, run_pair, wire_tags};
use crate::world::{
    Ext, HStore, LogIdT, Op, ReplicaModel, Side, World, WorldSpec, build_replica, build_world, expected_delivery, expected_have, ingest_and_prune,
    replica_model, session_logs, world_spec,
};

#[derive(Clone, Debug, Serialize, Deserialize)]
struct PairCase {
    world: WorldSpec,
    /// 0 = LogSync (held logs), 1 = LogSync (also lists logs it does not hold), 2 = TopicLogSync
    proto: u8,
    /// 0 = in-memory store, 1 = SqliteStore
    store: u8,
    /// Which direction's next message the relay releases when both have one waiting.
    schedule: Vec<bool>,
}

fn index_ops(world: &World) -> HashMap<Hash, (usize, usize)> {
    let mut m = HashMap::new();
    for (ci, c) in world.chains.iter().enumerate() {
        for (seq, op) in c.ops.iter().enumerate() {
            m.insert(op.hash, (ci, seq));
        }
    }
    m
}

/// Checks the operations handed to `receiver`'s application against the closed form.
fn check_received(world: &World, index: &HashMap<Hash, (usize, usize)>, receiver: Side, received: &[Op], expected: &BTreeMap<usize, Vec<usize>>) -> Result<(), String> {
    let mut got: BTreeMap<usize, Vec<usize>> = BTreeMap::new();
    for op in received {
        let Some((ci, seq)) = index.get(&op.hash).copied() else {
            return Err(format!("side {} was handed an operation that exists nowhere ({})", receiver.name(), op.hash));
        };
        let original = &world.chains[ci].ops[seq];
        ensure!(
            op.header == original.header && op.body == original.body && op.header.hash() == op.hash,
            "side {}: operation {seq} of chain {ci} was altered in transit",
            receiver.name()
        );
        got.entry(ci).or_default().push(seq);
    }
    for (ci, seqs) in &got {
        let chain = &world.chains[*ci];
        let exp = expected.get(ci).cloned().unwrap_or_default();
        ensure!(
            *seqs == exp,
            "side {} was handed seqs {:?} of chain {ci} (author {}, log {}, topic {}), expected exactly {:?} (the other side's stored operations above its own height, once, in log order)",
            receiver.name(),
            seqs,
            chain.author_idx,
            chain.log_id,
            chain.topic,
            exp
        );
    }
    for (ci, exp) in expected {
        ensure!(
            got.contains_key(ci),
            "side {} was handed nothing of chain {ci}, expected seqs {:?}",
            receiver.name(),
            exp
        );
    }
    Ok(())
}

async fn heights_of<S: HStore>(store: &S, world: &World) -> Result<BTreeMap<(VerifyingKey, LogIdT), SeqNum>, String> {
    let mut by_author: BTreeMap<VerifyingKey, Vec<LogIdT>> = BTreeMap::new();
    for c in world.chains.iter().filter(|c| c.in_session()) {
        by_author.entry(c.author).or_default().push(c.log_id);
    }
    let mut out = BTreeMap::new();
    for (author, logs) in by_author {
        let heights = <S as LogStore<Op, VerifyingKey, LogIdT, SeqNum, Hash>>::get_log_heights(store, &author, &logs)
            .await
            .map_err(|e| format!("get_log_heights: {e}"))?;
        for (l, h) in heights.unwrap_or_default() {
            out.insert((author, l), h);
        }
    }
    Ok(out)
}

struct Classes {
    both_send: bool,
    pruned_window: bool,
    one_sided_log: bool,
    nothing_to_send: bool,
    empty_side: bool,
    other_topic_log: bool,
    bodyless_sent: bool,
    behind: bool,
}

fn classify(world: &World, ma: &ReplicaModel, mb: &ReplicaModel, to_a: &BTreeMap<usize, Vec<usize>>, to_b: &BTreeMap<usize, Vec<usize>>) -> Classes {
    let pruned = |m: &ReplicaModel| m.iter().any(|(ci, h)| world.chains[*ci].in_session() && *h.window.start() > 0);
    let session = |m: &ReplicaModel| m.keys().filter(|ci| world.chains[**ci].in_session()).count();
    let bodyless = |d: &BTreeMap<usize, Vec<usize>>| d.iter().any(|(ci, seqs)| seqs.iter().any(|s| world.chains[*ci].ops[*s].body.is_none()));
    Classes {
        both_send: !to_a.is_empty() && !to_b.is_empty(),
        pruned_window: pruned(ma) || pruned(mb),
        one_sided_log: ma.keys().any(|ci| world.chains[*ci].in_session() && !mb.contains_key(ci))
            || mb.keys().any(|ci| world.chains[*ci].in_session() && !ma.contains_key(ci)),
        nothing_to_send: to_a.is_empty() && to_b.is_empty(),
        empty_side: session(ma) == 0 || session(mb) == 0,
        other_topic_log: ma.keys().chain(mb.keys()).any(|ci| !world.chains[*ci].in_session()),
        bodyless_sent: bodyless(to_a) || bodyless(to_b),
        behind: ma.iter().any(|(ci, h)| mb.get(ci).map(|o| o.height() != h.height()).unwrap_or(false)),
    }
}

async fn run_pair_case<S: HStore>(store_a: S, store_b: S, case: &PairCase, world: Arc<World>, ma: ReplicaModel, mb: ReplicaModel) -> CaseResult {
    if let Err(e) = build_replica(&store_a, &world, &ma).await {
        engine::harness_error(&e);
    }
    if let Err(e) = build_replica(&store_b, &world, &mb).await {
        engine::harness_error(&e);
    }
    let proto = match case.proto {
        0 => Proto::LogSync { include_unheld: false },
        1 => Proto::LogSync { include_unheld: true },
        _ => Proto::Topic {
            live: false,
            closer: Side::A,
        },
    };
    let cfg = PairConfig {
        proto,
        buffer_ab: None,
        buffer_ba: None,
        manual: true,
        schedule: case.schedule.clone(),
    };
    let ta = Tracked::new(store_a.clone(), world.clone(), vec![]);
    let tb = Tracked::new(store_b.clone(), world.clone(), vec![]);
    let out = run_pair(ta, tb, &world, &ma, &mb, &cfg).await;

    let to_a = expected_delivery(&world, &mb, &ma);
    let to_b = expected_delivery(&world, &ma, &mb);
    let cl = classify(&world, &ma, &mb, &to_a, &to_b);
    let base = |ok: CaseOk| {
        ok.label_if(case.store == 1, "store_sqlite")
            .label_if(case.store != 1, "store_memory")
            .label_if(case.proto >= 2, "proto_topic_log_sync")
            .label_if(case.proto == 1, "proto_log_sync_lists_unheld_logs")
            .label_if(case.proto == 0, "proto_log_sync")
    };
    if !out.both_ok() || out.stuck {
        // Not a completed session: outside this property's statement (see module doc).
        return Ok(base(CaseOk::trivial()).label("incomplete_session_not_judged"));
    }

    let index = index_ops(&world);
    check_received(&world, &index, Side::A, &out.a.received, &to_a)?;
    check_received(&world, &index, Side::B, &out.b.received, &to_b)?;

    // Ingest what was received, then both replicas must report the same heights.
    for (side, store, received) in [(Side::A, &store_a, &out.a.received), (Side::B, &store_b, &out.b.received)] {
        for op in received.iter() {
            let (ci, seq) = index[&op.hash];
            if let Err(e) = ingest_and_prune(store, &world.chains[ci], op).await {
                return Err(format!(
                    "side {}: operation {seq} of chain {ci} handed over by the session is rejected by ingest: {e}",
                    side.name()
                ));
            }
        }
    }
    let ha = heights_of(&store_a, &world).await?;
    let hb = heights_of(&store_b, &world).await?;
    ensure!(
        ha == hb,
        "after ingesting the received operations the replicas report different log heights: A {:?} B {:?}",
        ha.values().collect::<Vec<_>>(),
        hb.values().collect::<Vec<_>>()
    );

    // Measured, not asserted (see notes): announced heights and PreSync totals.
    let have_ok = |side: Side, m: &ReplicaModel| match out.side(side).transcript.first() {
        Some(crate::pipe::Wire::Have(h)) => *h == expected_have(&world, m),
        _ => false,
    };
    let presync_ok = |side: Side| {
        let t = &out.side(side).transcript;
        let ops = t.iter().filter(|w| w.tag() == "operation").count() as u32;
        t.iter().all(|w| match w {
            crate::pipe::Wire::PreSync { operations, .. } => *operations == ops,
            _ => true,
        })
    };
    let grammar_ok = |side: Side| {
        let tags = wire_tags(&out.side(side).transcript);
        match tags.as_slice() {
            ["have", "done"] => true,
            ["have", "pre_sync", rest @ ..] => rest.last() == Some(&"done") && rest[..rest.len() - 1].iter().all(|t| *t == "operation"),
            _ => false,
        }
    };

    Ok(base(CaseOk::nontrivial(cl.both_send || cl.pruned_window))
        .label_if(cl.both_send, "both_sides_send")
        .label_if(cl.pruned_window, "pruned_window")
        .label_if(cl.one_sided_log, "log_known_to_one_side_only")
        .label_if(cl.nothing_to_send, "nothing_to_send")
        .label_if(cl.empty_side, "empty_side")
        .label_if(cl.other_topic_log, "other_topic_log_present")
        .label_if(cl.bodyless_sent, "bodyless_operation_sent")
        .label_if(cl.behind, "same_log_different_heights")
        .label_if(!(have_ok(Side::A, &ma) && have_ok(Side::B, &mb)), "note_have_differs_from_model")
        .label_if(!(presync_ok(Side::A) && presync_ok(Side::B)), "note_presync_count_differs")
        .label_if(!(grammar_ok(Side::A) && grammar_ok(Side::B)), "note_transcript_grammar_differs"))
}

fn check_pair(case: &PairCase) -> CaseResult {
    let world = Arc::new(build_world(&case.world, 1));
    let ma = replica_model(&case.world, &world, Side::A);
    let mb = replica_model(&case.world, &world, Side::B);
    block_on(async {
        if case.store == 1 {
            let (sa, sb) = (SqliteStore::temporary().await, SqliteStore::temporary().await);
            run_pair_case(sa, sb, case, world, ma, mb).await
        } else {
            run_pair_case(MemStore::<Ext>::new(), MemStore::<Ext>::new(), case, world, ma, mb).await
        }
    })
}

fn pair_strategy(max_authors: usize, max_logs: usize, max_ops: usize) -> impl Strategy<Value = PairCase> {
    (
        world_spec(max_authors, max_logs, max_ops, 22),
        prop_oneof![2 => Just(0u8), 1 => Just(1u8), 2 => Just(2u8)],
        prop_oneof![1 => Just(0u8), 1 => Just(1u8)],
        prop::collection::vec(any::<bool>(), 0..24),
    )
        .prop_map(|(world, proto, store, schedule)| PairCase { world, proto, store, schedule })
}

/// One author, 1-2 long logs (260-640 operations, tiny bodies) with a few prune points: a replica
/// that received the log from a late prune point onwards holds a window that starts hundreds of
/// sequence numbers above what the other replica has (seeded change C19d: range walked in windows
/// of 256 sequence numbers, walk ended at the first empty window).
fn long_pruned_strategy() -> impl Strategy<Value = PairCase> {
    let op = (prop::bool::weighted(0.006), 0u8..=2).prop_map(|(prune, body)| crate::world::OpSpec { prune, body });
    let log = (prop::collection::vec(op, 260..=640), crate::world::hold(), crate::world::hold(), any::<bool>()).prop_map(|(mut ops, a, b, late)| {
        // At least one prune point in the upper part of the log.
        let n = ops.len();
        if late {
            ops[n - 1 - (n / 8)].prune = true;
        }
        crate::world::LogSpec { other_topic: false, ops, a, b }
    });
    (
        prop::collection::vec(log, 1..=2),
        prop_oneof![2 => Just(0u8), 2 => Just(1u8), 3 => Just(7u8)],
        prop_oneof![2 => Just(0u8), 1 => Just(1u8), 2 => Just(2u8)],
        prop_oneof![1 => Just(0u8), 1 => Just(1u8)],
        prop::collection::vec(any::<bool>(), 0..24),
    )
        .prop_map(|(logs, empty_side, proto, store, schedule)| PairCase {
            world: WorldSpec { authors: vec![crate::world::AuthorSpec { logs }], empty_side },
            proto,
            store,
            schedule,
        })
}

// ---------------------------------------------------------------------------------------------
// Scripted remote with repeated operations

#[derive(Clone, Debug, Serialize, Deserialize)]
struct ScriptedCase {
    world: WorldSpec,
    store: u8,
    /// (where to insert the copy, which earlier message to copy)
    duplicates: Vec<(u16, u16)>,
}

async fn run_scripted_case<S: HStore>(store_a: S, case: &ScriptedCase, world: Arc<World>, ma: ReplicaModel, mb: ReplicaModel) -> CaseResult {
    if let Err(e) = build_replica(&store_a, &world, &ma).await {
        engine::harness_error(&e);
    }
    // What the remote (replica B of the model) owes A, in the order a peer sends it.
    let to_a = expected_delivery(&world, &mb, &ma);
    let mut order: Vec<(VerifyingKey, LogIdT, usize, usize)> = Vec::new();
    for (ci, seqs) in &to_a {
        let c = &world.chains[*ci];
        for s in seqs {
            order.push((c.author, c.log_id, *ci, *s));
        }
    }
    order.sort();
    let mut wire: Vec<(usize, usize)> = order.iter().map(|(_, _, ci, s)| (*ci, *s)).collect();
    let mut injected = 0;
    for (pos, src) in &case.duplicates {
        if wire.is_empty() {
            break;
        }
        let src_pos = engine::idx(*src, wire.len());
        // A copy always comes after its original.
        let at = src_pos + 1 + engine::idx(*pos, wire.len() - src_pos);
        let copy = wire[src_pos];
        wire.insert(at, copy);
        injected += 1;
    }

    type M = LogSyncMessage<LogIdT>;
    let (mut ab_tx, mut ab_rx, ctl_ab) = pipe::<M>(None, false);
    let (mut ba_tx, mut ba_rx, ctl_ba) = pipe::<M>(None, false);
    let (ev_tx, mut ev_rx) = broadcast::channel::<LogSyncEvent<Ext>>((world.total_ops + 64).next_power_of_two());
    let ta = Tracked::new(store_a.clone(), world.clone(), vec![]);
    let probe_a = ta.probe.clone();
    let sess_a: LogSync<LogIdT, Ext, Tracked<S>, LogSyncEvent<Ext>> = LogSync::new(ta, session_logs(&world, &ma, false), ev_tx);
    let fut_a: BoxFut = Box::pin(async { sess_a.run(&mut ab_tx, &mut ba_rx).await.map(|_| ()).map_err(|e| e.to_string()) });

    let mut have: BTreeMap<VerifyingKey, BTreeMap<LogIdT, SeqNum>> = BTreeMap::new();
    for ((author, log), h) in expected_have(&world, &mb) {
        have.entry(author).or_default().insert(log, h);
    }
    let world_ref = &world;
    let wire_ref = &wire;
    let fut_b: BoxFut = Box::pin(async move {
        ba_tx.send(M::Have(have)).await.map_err(|e| format!("{e:?}"))?;
        match ab_rx.next().await {
            Some(Ok(M::Have(_))) => {}
            other => return Err(format!("scripted remote expected Have, got {:?}", other.map(|m| m.map(|m| m.to_string())))),
        }
        if wire_ref.is_empty() {
            ba_tx.send(M::Done).await.map_err(|e| format!("{e:?}"))?;
        } else {
            let bytes: usize = wire_ref
                .iter()
                .map(|(ci, s)| world_ref.chains[*ci].header_bytes[*s].len() + world_ref.chains[*ci].ops[*s].header.payload_size as usize)
                .sum();
            ba_tx
                .send(M::PreSync {
                    total_operations: wire_ref.len() as u32,
                    total_bytes: bytes as u32,
                })
                .await
                .map_err(|e| format!("{e:?}"))?;
            for (ci, s) in wire_ref {
                let c = &world_ref.chains[*ci];
                ba_tx
                    .send(M::Operation(c.header_bytes[*s].clone(), c.ops[*s].body.as_ref().map(|b| b.to_bytes())))
                    .await
                    .map_err(|e| format!("{e:?}"))?;
            }
            ba_tx.send(M::Done).await.map_err(|e| format!("{e:?}"))?;
        }
        // Read until the local side is done.
        loop {
            match ab_rx.next().await {
                Some(Ok(M::Done)) => return Ok(()),
                Some(Ok(_)) => {}
                other => return Err(format!("scripted remote: stream ended before Done ({:?})", other.map(|m| m.map(|m| m.to_string())))),
            }
        }
    });

    let mut received: Vec<Op> = Vec::new();
    let probe_b = Arc::new(crate::session::Probe::default());
    let out = drive(fut_a, fut_b, [probe_a, probe_b], &ctl_ab, &ctl_ba, false, &[], || {
        while let Ok(ev) = ev_rx.try_recv() {
            if let LogSyncEvent::OperationReceived { operation, .. } = ev {
                received.push(*operation);
            }
        }
    })
    .await;
    let base = |ok: CaseOk| ok.label_if(case.store == 1, "store_sqlite").label_if(case.store != 1, "store_memory");
    if out.stuck || !matches!(out.results[0], Some(Ok(()))) || !matches!(out.results[1], Some(Ok(()))) {
        return Ok(base(CaseOk::trivial()).label("incomplete_session_not_judged"));
    }
    let index = index_ops(&world);
    check_received(&world, &index, Side::A, &received, &to_a)?;
    let delivered: usize = to_a.values().map(|v| v.len()).sum();
    Ok(base(CaseOk::nontrivial(injected > 0 && delivered > 0))
        .label_if(injected > 0, "wire_duplicates")
        .label_if(injected >= 3, "three_or_more_duplicates")
        .label_if(delivered == 0, "nothing_to_deliver"))
}

fn check_scripted(case: &ScriptedCase) -> CaseResult {
    let world = Arc::new(build_world(&case.world, 1));
    let ma = replica_model(&case.world, &world, Side::A);
    let mb = replica_model(&case.world, &world, Side::B);
    block_on(async {
        if case.store == 1 {
            run_scripted_case(SqliteStore::temporary().await, case, world, ma, mb).await
        } else {
            run_scripted_case(MemStore::<Ext>::new(), case, world, ma, mb).await
        }
    })
}

fn scripted_strategy(max_ops: usize) -> impl Strategy<Value = ScriptedCase> {
    (
        world_spec(3, 2, max_ops, 20),
        prop_oneof![3 => Just(0u8), 1 => Just(1u8)],
        prop::collection::vec((any::<u16>(), any::<u16>()), 0..5),
    )
        .prop_map(|(mut world, store, duplicates)| {
            // The scripted remote is replica B: bias it to be ahead so that there is something to deliver.
            if world.empty_side == 1 {
                world.empty_side = 255;
            }
            for author in world.authors.iter_mut() {
                for log in author.logs.iter_mut() {
                    if log.a.len % 4 != 0 {
                        log.b.present = true;
                        log.b.start = log.b.start.max(log.a.start);
                        log.b.len = log.b.len.max(log.a.len);
                    }
                }
            }
            ScriptedCase { world, store, duplicates }
        })
}

pub fn run(mut ctx: Ctx) -> ! {
    ctx.assume("replica states are those reachable through ingest (+ prune on prune-flagged operations): each stored log is a contiguous window starting at seq 0 or at a prune point");
    ctx.assume("every (author, log) pair belongs to one topic (the node derives the log id from the topic); logs of another topic are present and must stay untouched");
    ctx.assume("only completed sessions are judged (statement); termination is C21, message grammar is C20");
    ctx.assume("tokio::select! picks its start branch from a thread-local RNG that cannot be seeded without tokio_unstable; it changes only the interleaving of the two directions, which the oracle does not depend on");
    let (authors, logs, ops) = ctx.pick((3, 2, 10), (3, 3, 18));
    ctx.run_prop(
        Part::new(
            "pair",
            "two replicas built by ingest+prune from 1-3 authors x 1-2(3) logs x 0-10(18) operations (prune flags 22 %, bodies present / absent / \
             stripped, logs of a foreign topic, one-sided logs, empty sides), real sessions on both sides (LogSync with held logs, LogSync also \
             listing unheld logs, TopicLogSync without live mode), in-memory store and SqliteStore, generated relay interleaving; \
             non-trivial = both sides must send something or a side holds a pruned window",
            1_200,
            40_000,
        )
        .min_nontrivial(0.4),
        move || pair_strategy(authors, logs, ops),
        check_pair,
    );
    // Many short logs per author: one-sided logs in front of / behind shared ones (added after the
    // seeded change C19, which needs two remote-only logs sorting before a shared log).
    ctx.run_prop(
        Part::new(
            "pair_many_logs",
            "as `pair`, but 1-2 authors x 1-6 logs x 0-4 operations: many combinations of one-sided and shared logs of one author;              non-trivial = both sides must send something or a side holds a pruned window",
            600,
            20_000,
        )
        .min_nontrivial(0.3),
        move || pair_strategy(2, 6, 4),
        check_pair,
    );
    // Long logs with late prune points (added after seeded change C19d).
    ctx.run_prop(
        Part::new(
            "pair_long_pruned",
            "as `pair`, but one author x 1-2 logs of 260-640 operations (tiny bodies) with prune points (0.6 % per operation plus, in half the cases, one in the last eighth): a replica's retained window may start hundreds of sequence numbers above the other replica's height; non-trivial = both sides must send something or a side holds a pruned window",
            80,
            2_500,
        )
        .min_nontrivial(0.3),
        long_pruned_strategy,
        check_pair,
    );
    ctx.run_prop(
        Part::new(
            "scripted_remote_duplicates",
            "local LogSync session against a remote played by the harness from the model (Have, PreSync|Done, Operation*, Done) that repeats up to \
             4 operations on the wire (fewer than the 1024-entry window); every operation must be handed over once; non-trivial = at least one \
             repeated operation and one delivery",
            600,
            15_000,
        )
        .min_nontrivial(0.25),
        move || scripted_strategy(ops),
        check_scripted,
    );
    ctx.finish()
}
