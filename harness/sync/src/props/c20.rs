//! C20 Each sync side sends exactly one Done, even under concurrent pruning.
//!
//! C19's worlds plus a *mutation plan*: a session can observe a concurrent change of its own store
//! only at its `LogStore` calls (heights for `Have`, sizes for the `PreSync`/`Done` decision, entries
//! while sending), so "all points at which a concurrent prune/delete can hit the local store" are
//! exactly "in front of the k-th store call of side X". The plan applies, at generated call
//! indices, what can really happen to a store while a session runs: newer operations of a log
//! arrive and are ingested (a prune-flagged one prunes the log below it – the realistic concurrent
//! prune), `prune_entries` of a prefix or of the whole log, `delete_operation` of one entry.
//! Sessions: `LogSync`, `TopicLogSync` without live mode, and `TopicLogSync` with a following
//! live-mode phase that one side closes.
//!
//! Oracle (observed at the sink): each side's transcript is `Have · (Done | PreSync · Operation* ·
//! Done)` with exactly one `Done` and no sync message after it (`Live`/`Close` only after it); a
//! transcript may be a proper prefix of that only when the session itself returned an error. A
//! final state in which an error-free session is still waiting (the other side's `Done` never
//! comes) is a missing `Done`. With live mode no side may fail with an unexpected-protocol-message
//! error (the stray sync message of the statement).
//!
//! Part `backpressure`: the same oracle over transports that push back. A sink may have accepted a
//! message (`start_send`, that is what is on the wire and what the transcript records) while its
//! flush is still pending, and inbound messages arrive in that window. Two mechanisms, alone and
//! combined: a *flush gate* (flush completes when the harness grants it, at generated points, in any
//! order relative to delivering messages to the readers) and small per-direction capacities
//! (0/1/2/4, `futures mpsc` semantics: flush completes when the reader took the message). With
//! bounded capacities a pair of real sessions can run into the known deadlock K-C21 (both sides
//! blocked inside a send); termination is C21's business, so there a stuck final state is not
//! judged here - only the grammar of what was written. With the gate alone (unbounded capacity, the
//! harness grants every flush eventually) the transport cannot block a session for ever, so the
//! missing-`Done` rule stays in force. On every transcript additionally: no `Operation` message
//! appears twice (a side serves every needed log range once).

use std::collections::BTreeMap;
use std::sync::Arc;

use engine::proptest::prelude::*;
use engine::{CaseOk, CaseResult, Ctx, Part, ensure};
use p2panda_core::VerifyingKey;
use p2panda_store::SqliteStore;
use serde::{Deserialize, Serialize};

use crate::memstore::MemStore;
use crate::pipe::Wire;
use crate::session::{GateConfig, GateSchedule, MutKind, Mutation, PairConfig, PairOutcome, Proto, SideOutcome, Tracked, block_on, run_pair_gated, wire_tags};
use crate::world::{Ext, HStore, LogIdT, ReplicaModel, Side, World, WorldSpec, build_replica, build_world, expected_delivery, replica_model, session_logs, world_spec};

#[derive(Clone, Debug, Serialize, Deserialize)]
struct MutSpec {
    side_b: bool,
    /// 0 = while computing `Have`, 1 = between `Have` and the `PreSync`/`Done` decision, 2 = while sending
    phase: u8,
    /// position inside the phase
    at: u16,
    /// which of the side's session logs (biased to logs the remote needs)
    chain: u16,
    needed_chain: bool,
    /// 0 ingest next, 1 ingest next prune point, 2 prune_entries, 3 delete_operation
    kind: u8,
    amount: u16,
}

#[derive(Clone, Debug, Serialize, Deserialize)]
struct Case {
    world: WorldSpec,
    /// 0 LogSync, 1 TopicLogSync, 2 TopicLogSync + live mode closed by A, 3 ... closed by B
    proto: u8,
    /// 0 in-memory store, 1 SqliteStore
    store: u8,
    schedule: Vec<bool>,
    mutations: Vec<MutSpec>,
    /// `None` = unbounded pipes, manual relay (part `mutations`).
    #[serde(default)]
    transport: Option<Transport>,
}

/// Back-pressure of the two directions (part `backpressure`).
#[derive(Clone, Debug, Serialize, Deserialize)]
struct Transport {
    /// Flush gate per direction (A->B, B->A): `None` off, `Some(slack)` on.
    gate: [Option<u8>; 2],
    /// Capacity per direction: `None` unbounded, else `futures mpsc` buffer size.
    buffer: [Option<u8>; 2],
    /// Messages reach the reader only when the harness releases them (else immediately).
    manual: bool,
    /// Harness decisions whenever a flush grant is among the possible actions.
    picks: Vec<u16>,
    release_weight: u8,
}

impl Transport {
    fn bounded(&self) -> bool {
        self.buffer.iter().any(|b| b.is_some())
    }

    fn gated(&self) -> bool {
        self.gate.iter().any(|g| g.is_some())
    }
}

/// No `Operation` message twice in one side's transcript.
fn check_no_duplicate_operation(side: Side, t: &[Wire]) -> Result<(), String> {
    let mut seen: Vec<&Vec<u8>> = Vec::new();
    for (i, w) in t.iter().enumerate() {
        if let Wire::Operation { header, .. } = w {
            if seen.contains(&header) {
                return Err(format!("side {} wrote {:?}: message {i} repeats an Operation already written", side.name(), wire_tags(t)));
            }
            seen.push(header);
        }
    }
    Ok(())
}

/// Transcript grammar. `complete` = the session returned `Ok`.
fn check_transcript(side: Side, t: &[Wire], complete: bool, live: bool) -> Result<(), String> {
    let tags = wire_tags(t);
    let fail = |why: &str| Err(format!("side {} wrote {:?}: {why}", side.name(), tags));
    let mut i = 0;
    if tags.is_empty() {
        return if complete { fail("finished without sending Have") } else { Ok(()) };
    }
    if tags[0] != "have" {
        return fail("first message is not Have");
    }
    i += 1;
    let mut done = false;
    if i < tags.len() {
        match tags[i] {
            "done" => {
                done = true;
                i += 1;
            }
            "pre_sync" => {
                i += 1;
                while i < tags.len() && tags[i] == "operation" {
                    i += 1;
                }
                if i < tags.len() {
                    if tags[i] == "done" {
                        done = true;
                        i += 1;
                    } else {
                        return fail("PreSync · Operation* must be followed by Done");
                    }
                }
            }
            _ => return fail("Have must be followed by Done or PreSync"),
        }
    }
    // After Done: no sync message at all.
    for tag in &tags[i..] {
        match *tag {
            "live" | "close" if live && done => {}
            "done" => return fail("more than one Done"),
            "have" | "pre_sync" | "operation" => return fail("sync message after Done"),
            _ => return fail("unexpected message"),
        }
    }
    if complete && !done {
        return fail("session finished successfully without sending Done");
    }
    Ok(())
}

/// Closed form of `compare` on what was announced on the wire: logs of `mine` the remote lacks or
/// is behind in.
fn needs(mine: &BTreeMap<(VerifyingKey, LogIdT), u32>, theirs: &BTreeMap<(VerifyingKey, LogIdT), u32>) -> Vec<(VerifyingKey, LogIdT)> {
    mine.iter()
        .filter(|(k, h)| theirs.get(*k).map(|t| t < *h).unwrap_or(true))
        .map(|(k, _)| *k)
        .collect()
}

fn have_of(o: &SideOutcome) -> Option<&BTreeMap<(VerifyingKey, LogIdT), u32>> {
    match o.transcript.first() {
        Some(Wire::Have(h)) => Some(h),
        _ => None,
    }
}

fn plan_for(side: Side, case: &Case, world: &World, mine: &ReplicaModel, theirs: &ReplicaModel, logs_authors: usize) -> Vec<Mutation> {
    let session_chains: Vec<usize> = (0..world.chains.len()).filter(|ci| world.chains[*ci].in_session() && !world.chains[*ci].ops.is_empty()).collect();
    if session_chains.is_empty() {
        return vec![];
    }
    let needed: Vec<usize> = expected_delivery(world, mine, theirs).keys().copied().collect();
    let n_heights = logs_authors;
    let n_needs = needed.len();
    let mut plan = Vec::new();
    // A mutation after the Have phase can only matter on a side that has something to send; when the
    // drawn side has nothing and the other has, the mutation goes to the other side.
    let other_needs = !expected_delivery(world, theirs, mine).is_empty();
    let targets_me = |m: &MutSpec| {
        let drawn_me = m.side_b == (side == Side::B);
        if m.phase == 0 {
            drawn_me
        } else if drawn_me {
            n_needs > 0 || !other_needs
        } else {
            n_needs > 0 && !other_needs
        }
    };
    for m in case.mutations.iter().filter(|m| targets_me(m)) {
        let (lo, hi) = match m.phase {
            0 => (0, n_heights),
            1 => (n_heights, n_heights + n_needs),
            _ => (n_heights + n_needs, n_heights + 2 * n_needs),
        };
        let at_call = if hi > lo { lo + engine::idx(m.at, hi - lo) } else { lo };
        let chain = if m.needed_chain && !needed.is_empty() {
            needed[engine::idx(m.chain, needed.len())]
        } else {
            session_chains[engine::idx(m.chain, session_chains.len())]
        };
        plan.push(Mutation {
            at_call,
            chain,
            kind: match m.kind {
                0 => MutKind::IngestNext,
                1 => MutKind::IngestPrunePoint,
                2 => MutKind::Prune,
                _ => MutKind::Delete,
            },
            amount: m.amount,
        });
    }
    plan
}

struct SideClass {
    between_removed_needed: bool,
    emptied_all_needs: bool,
    sending_phase_removed: bool,
    have_phase_mutation: bool,
    ingest_only: bool,
    any_applied: bool,
}

/// Classifies what the mutations did to side `me`, from observations only.
fn classify_side(world: &World, me: &SideOutcome, other: &SideOutcome, n_heights: usize) -> SideClass {
    let mut c = SideClass {
        between_removed_needed: false,
        emptied_all_needs: false,
        sending_phase_removed: false,
        have_phase_mutation: false,
        ingest_only: false,
        any_applied: !me.applied.is_empty(),
    };
    let (Some(mine), Some(theirs)) = (have_of(me), have_of(other)) else {
        return c;
    };
    let needed = needs(mine, theirs);
    let decision_at = n_heights + needed.len();
    for a in &me.applied {
        let key = world.chains[a.chain].key();
        if a.call < n_heights {
            c.have_phase_mutation = true;
        } else if a.call < decision_at {
            if a.removed && needed.contains(&key) {
                c.between_removed_needed = true;
            }
        } else if a.removed {
            c.sending_phase_removed = true;
        }
    }
    c.ingest_only = c.any_applied && me.applied.iter().all(|a| !a.removed);
    let tags = wire_tags(&me.transcript);
    c.emptied_all_needs = !needed.is_empty() && c.between_removed_needed && tags.get(1) == Some(&"done");
    c
}

async fn run_case<S: HStore>(store_a: S, store_b: S, case: &Case, world: Arc<World>, ma: ReplicaModel, mb: ReplicaModel) -> CaseResult {
    if let Err(e) = build_replica(&store_a, &world, &ma).await {
        engine::harness_error(&e);
    }
    if let Err(e) = build_replica(&store_b, &world, &mb).await {
        engine::harness_error(&e);
    }
    let (proto, live) = match case.proto {
        0 => (Proto::LogSync { include_unheld: false }, false),
        1 => (
            Proto::Topic {
                live: false,
                closer: Side::A,
            },
            false,
        ),
        2 => (
            Proto::Topic {
                live: true,
                closer: Side::A,
            },
            true,
        ),
        _ => (
            Proto::Topic {
                live: true,
                closer: Side::B,
            },
            true,
        ),
    };
    let authors_a = session_logs(&world, &ma, false).len();
    let authors_b = session_logs(&world, &mb, false).len();
    let plan_a = plan_for(Side::A, case, &world, &ma, &mb, authors_a);
    let plan_b = plan_for(Side::B, case, &world, &mb, &ma, authors_b);
    let planned = plan_a.len() + plan_b.len();
    let tr = case.transport.as_ref();
    let cfg = PairConfig {
        proto,
        buffer_ab: tr.and_then(|t| t.buffer[0]).map(usize::from),
        buffer_ba: tr.and_then(|t| t.buffer[1]).map(usize::from),
        manual: tr.map(|t| t.manual).unwrap_or(true),
        schedule: case.schedule.clone(),
    };
    // No side can write more than Have, PreSync, Done, Close and every operation of the world once.
    let max_wire = Some(world.total_ops + 8);
    let gate = match tr {
        None => GateConfig {
            schedule: GateSchedule {
                max_wire,
                ..Default::default()
            },
            ..Default::default()
        },
        Some(t) => GateConfig {
            gate_ab: t.gate[0].map(usize::from),
            gate_ba: t.gate[1].map(usize::from),
            schedule: GateSchedule {
                picks: t.picks.clone(),
                release_weight: t.release_weight as usize,
                max_wire,
            },
        },
    };
    // With a bounded capacity two real sessions can block each other inside a send (K-C21,
    // termination is C21): a stuck final state is then not a verdict about `Done`.
    let judge_stuck = !tr.map(|t| t.bounded()).unwrap_or(false);
    let ta = Tracked::new(store_a.clone(), world.clone(), plan_a);
    let tb = Tracked::new(store_b.clone(), world.clone(), plan_b);
    let out: PairOutcome = run_pair_gated(ta, tb, &world, &ma, &mb, &cfg, &gate).await;

    let describe = |o: &PairOutcome| {
        format!(
            "A: result {:?}, wrote {:?}, mutations {:?}; B: result {:?}, wrote {:?}, mutations {:?}",
            o.a.result,
            wire_tags(&o.a.transcript),
            o.a.applied.iter().map(|a| format!("call {}: {}", a.call, a.note)).collect::<Vec<_>>(),
            o.b.result,
            wire_tags(&o.b.transcript),
            o.b.applied.iter().map(|a| format!("call {}: {}", a.call, a.note)).collect::<Vec<_>>()
        )
    };

    for side in [Side::A, Side::B] {
        let o = out.side(side);
        let complete = matches!(o.result, Some(Ok(())));
        check_transcript(side, &o.transcript, complete, live).map_err(|e| format!("{e} [{}]", describe(&out)))?;
        check_no_duplicate_operation(side, &o.transcript).map_err(|e| format!("{e} [{}]", describe(&out)))?;
    }
    // Unreachable with the two checks above in force (more messages than operations exist means a
    // repeated Operation or a sync message after Done); kept so that an abandoned run is never silent.
    ensure!(
        !out.wire_overflow,
        "a side wrote more messages than Have, PreSync, Done, Close and all {} operations of the world together [{}]",
        world.total_ops,
        describe(&out)
    );
    let errors: Vec<(Side, &String)> = [Side::A, Side::B]
        .into_iter()
        .filter_map(|s| match &out.side(s).result {
            Some(Err(e)) => Some((s, e)),
            _ => None,
        })
        .collect();
    for (side, e) in &errors {
        let lower = e.to_lowercase();
        ensure!(
            !(lower.contains("unexpected") && lower.contains("message")) && !lower.contains("non-protocol"),
            "side {} failed on a stray protocol message: {e} [{}]",
            side.name(),
            describe(&out)
        );
    }
    if errors.is_empty() {
        ensure!(
            !(out.stuck && judge_stuck),
            "sessions cannot finish: no session failed, every written message was delivered, yet a side still waits (a Done is missing) [{}]",
            describe(&out)
        );
        for side in [Side::A, Side::B] {
            ensure!(
                out.side(side).failed_events.is_empty(),
                "side {} emitted Failed {:?} [{}]",
                side.name(),
                out.side(side).failed_events,
                describe(&out)
            );
        }
    }

    let ca = classify_side(&world, &out.a, &out.b, authors_a);
    let cb = classify_side(&world, &out.b, &out.a, authors_b);
    let any = |f: fn(&SideClass) -> bool| f(&ca) || f(&cb);
    let ops_written = |o: &SideOutcome| o.transcript.iter().filter(|w| matches!(w, Wire::Operation { .. })).count();
    let both_send = ops_written(&out.a) > 0 && ops_written(&out.b) > 0;
    let inbound_in_window = out.inbound_while_flush_pending.iter().sum::<usize>();
    let nontrivial = match tr {
        None => any(|c| c.between_removed_needed),
        // Either the harness observed the window directly (manual relay) or, with immediate
        // delivery, both sides wrote operations over a pushing-back transport (every write of one
        // side then lands while the other side's flush may be pending).
        Some(t) => inbound_in_window > 0 || (!t.manual && both_send),
    };
    let bp = tr.is_some();
    Ok(CaseOk::nontrivial(nontrivial)
        .label_if(bp && inbound_in_window > 0, "inbound_delivered_while_sync_loop_flush_pending")
        .label_if(bp && inbound_in_window >= 3, "inbound_delivered_while_sync_loop_flush_pending_3plus")
        .label_if(bp && both_send, "both_sides_wrote_operations")
        .label_if(bp && out.stuck && !judge_stuck, "stuck_over_bounded_transport_not_judged")
        .label_if(bp && out.both_ok(), "both_sessions_completed")
        .label_if(tr.map(|t| t.gated() && !t.bounded()).unwrap_or(false), "transport_gate_only")
        .label_if(tr.map(|t| !t.gated() && t.bounded()).unwrap_or(false), "transport_bounded_only")
        .label_if(tr.map(|t| t.gated() && t.bounded()).unwrap_or(false), "transport_gate_and_bounded")
        .label_if(tr.map(|t| t.buffer.contains(&Some(0))).unwrap_or(false), "capacity_zero_direction")
        .label_if(tr.map(|t| !t.manual).unwrap_or(false), "immediate_delivery")
        .label_if(bp && case.mutations.is_empty(), "without_store_mutations")
        .label_if(bp && !case.mutations.is_empty(), "with_store_mutations")
        .label_if(any(|c| c.between_removed_needed), "removal_between_have_and_decision_in_needed_log")
        .label_if(any(|c| c.emptied_all_needs), "all_needed_ranges_emptied_before_decision")
        .label_if(any(|c| c.sending_phase_removed), "removal_while_sending")
        .label_if(any(|c| c.have_phase_mutation), "mutation_while_computing_have")
        .label_if(any(|c| c.ingest_only), "only_growth_mutations_on_a_side")
        .label_if(!any(|c| c.any_applied), "no_mutation_applied")
        .label_if(planned > 0 && out.a.applied.len() + out.b.applied.len() < planned, "some_planned_mutation_not_reached")
        .label_if(live, "with_live_mode")
        .label_if(case.proto == 0, "proto_log_sync")
        .label_if(case.proto == 1, "proto_topic_log_sync")
        .label_if(case.store == 1, "store_sqlite")
        .label_if(case.store != 1, "store_memory")
        .label_if(!errors.is_empty(), "session_error_not_judged"))
}

fn check(case: &Case) -> CaseResult {
    let world = Arc::new(build_world(&case.world, 1));
    let ma = replica_model(&case.world, &world, Side::A);
    let mb = replica_model(&case.world, &world, Side::B);
    block_on(async {
        if case.store == 1 {
            let (sa, sb) = (SqliteStore::temporary().await, SqliteStore::temporary().await);
            run_case(sa, sb, case, world, ma, mb).await
        } else {
            run_case(MemStore::<Ext>::new(), MemStore::<Ext>::new(), case, world, ma, mb).await
        }
    })
}

fn mut_spec() -> impl Strategy<Value = MutSpec> {
    (
        any::<bool>(),
        prop_oneof![1 => Just(0u8), 6 => Just(1u8), 3 => Just(2u8)],
        any::<u16>(),
        any::<u16>(),
        prop::bool::weighted(0.8),
        prop_oneof![2 => Just(0u8), 3 => Just(1u8), 3 => Just(2u8), 2 => Just(3u8)],
        // `amount` decides how much is pruned/which entry is deleted; high values = everything.
        prop_oneof![2 => Just(u16::MAX), 3 => any::<u16>()],
    )
        .prop_map(|(side_b, phase, at, chain, needed_chain, kind, amount)| MutSpec {
            side_b,
            phase,
            at,
            chain,
            needed_chain,
            kind,
            amount,
        })
}

fn strategy(max_authors: usize, max_logs: usize, max_ops: usize) -> impl Strategy<Value = Case> {
    (
        world_spec(max_authors, max_logs, max_ops, 30),
        prop_oneof![3 => Just(0u8), 2 => Just(1u8), 2 => Just(2u8), 2 => Just(3u8)],
        prop_oneof![2 => Just(0u8), 1 => Just(1u8)],
        prop::collection::vec(any::<bool>(), 0..16),
        prop::collection::vec(mut_spec(), 1..=4),
    )
        .prop_map(|(world, proto, store, schedule, mutations)| Case {
            world,
            proto,
            store,
            schedule,
            mutations,
            transport: None,
        })
}

fn transport() -> impl Strategy<Value = Transport> {
    let capacity = || prop_oneof![3 => Just(0u8), 3 => Just(1u8), 2 => Just(2u8), 1 => Just(4u8)];
    let slack = || prop_oneof![2 => Just(0u8), 1 => Just(1u8)];
    // (gate, buffer): gate only / bounded only / both; a direction may stay free.
    let shape = prop_oneof![
        5 => (slack(), slack()).prop_map(|(a, b)| ([Some(a), Some(b)], [None, None])),
        1 => (slack(), any::<bool>()).prop_map(|(s, ab)| (if ab { [Some(s), None] } else { [None, Some(s)] }, [None, None])),
        3 => (capacity(), capacity()).prop_map(|(a, b)| ([None, None], [Some(a), Some(b)])),
        1 => (capacity(), any::<bool>()).prop_map(|(c, ab)| ([None, None], if ab { [Some(c), None] } else { [None, Some(c)] })),
        2 => (slack(), slack(), capacity(), capacity()).prop_map(|(sa, sb, ca, cb)| ([Some(sa), Some(sb)], [Some(ca), Some(cb)])),
    ];
    (
        shape,
        prop::bool::weighted(0.7),
        prop::collection::vec(any::<u16>(), 0..48),
        prop_oneof![Just(1u8), Just(2u8), Just(4u8)],
    )
        .prop_map(|((gate, buffer), manual, picks, release_weight)| Transport {
            gate,
            buffer,
            manual,
            picks,
            release_weight,
        })
}

fn bp_strategy(max_authors: usize, max_logs: usize, max_ops: usize) -> impl Strategy<Value = Case> {
    (
        world_spec(max_authors, max_logs, max_ops, 20),
        prop_oneof![3 => Just(0u8), 3 => Just(1u8), 2 => Just(2u8), 2 => Just(3u8)],
        prop_oneof![3 => Just(0u8), 1 => Just(1u8)],
        prop::collection::vec(any::<bool>(), 0..24),
        prop_oneof![1 => Just(vec![]), 1 => prop::collection::vec(mut_spec(), 1..=3)],
        transport(),
    )
        .prop_map(|(world, proto, store, schedule, mutations, transport)| Case {
            world,
            proto,
            store,
            schedule,
            mutations,
            transport: Some(transport),
        })
}

pub fn run(mut ctx: Ctx) -> ! {
    ctx.assume("store changes are applied in front of a session's LogStore calls – the only points at which the session can observe them; between two calls every interleaving is equivalent for that session");
    ctx.assume("concurrent changes are those a running node can make: ingest (+ prune) of newer operations of the log, prune_entries, delete_operation (the repository's own concurrent-pruning test uses delete_operation)");
    ctx.assume("a session that returns an error other than an unexpected-message error is not judged beyond the prefix rule (labelled session_error_not_judged)");
    let (authors, logs, ops) = ctx.pick((3, 2, 9), (3, 3, 16));
    ctx.run_prop(
        Part::new(
            "mutations",
            "C19 worlds (prune flags 30 %) + 1-4 store mutations (ingest of next operations incl. prune-flagged ones, ingest of the next prune \
             point, prune_entries of a prefix or everything, delete_operation) in front of generated LogStore calls of either side, biased to the \
             window between a side's Have and its PreSync/Done decision and to logs the remote needs; LogSync / TopicLogSync / TopicLogSync with \
             live mode; memory and SQLite stores; non-trivial = a mutation removed stored entries of a log the remote needs between the side's \
             Have and its PreSync/Done decision",
            1_500,
            40_000,
        )
        .min_nontrivial(0.15),
        move || strategy(authors, logs, ops),
        check,
    );
    ctx.assume("back-pressure part: a stuck final state over a bounded-capacity transport is not judged (two real sessions can block each other inside a send, K-C21; termination is C21) - only the grammar of what was written; with the flush gate alone the harness grants every flush eventually, so the missing-Done rule applies");
    ctx.assume("a side never writes the same Operation message twice (every needed log range is served once); asserted on the wire transcript together with the grammar");
    ctx.run_prop(
        Part::new(
            "backpressure",
            "C19 worlds (prune flags 20 %) with 0-3 store mutations (half of the cases none) over transports that push back: flush gate (a message \
             accepted by start_send stays unflushed - poll_flush Pending, poll_ready Pending beyond slack 0/1 - until the harness grants it at a \
             generated point, interleaved with delivering messages to the readers), per-direction capacities 0/1/2/4 (futures mpsc semantics), or \
             both; relay message by message (70 %) or immediate delivery; LogSync / TopicLogSync / live mode; memory and SQLite; the wire transcript \
             is every item accepted by start_send; non-trivial = an inbound message was handed to a side while that side's sink held an accepted, \
             unflushed Operation/Done of its sync loop (immediate delivery: both sides wrote operations over the pushing-back transport)",
            1_500,
            40_000,
        )
        .min_nontrivial(0.1),
        move || bp_strategy(authors, logs, ops),
        check,
    );
    ctx.finish()
}
