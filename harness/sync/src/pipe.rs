//! B7: scripted in-process transport (one direction = one `Pipe`).
//!
//! * Capacity follows `futures_channel::mpsc` with a single sender (the transport used by the
//!   repository's own sync tests): with `buffer = Some(b)` the sink is ready – and a `send`
//!   completes – only while at most `b` messages are waiting to be read; `buffer = None` is
//!   unbounded.
//! * `manual` mode: a message becomes visible to the reader only after the harness calls
//!   `release_one()`, so the harness decides the interleaving message by message.
//! * Every message accepted by the sink is recorded (`Wire`) – that is the observation point of
//!   C19/C20 ("messages written to the sink").
//! * A reader that keeps polling a closed, drained stream 1000 times in a row is a busy loop; the
//!   pipe turns that into a panic (a deterministic failure) instead of a hang.
//! * Optional *flush gate* (`pipe_gated`, used by C20's back-pressure part; off for every other
//!   user): every item accepted by `start_send` stays "unflushed" until the harness calls
//!   `grant_one()`. `poll_flush` is `Pending` while an unflushed item exists, `poll_ready` while more
//!   than `slack` unflushed items exist. That is a transport whose flush completes late (slow
//!   remote, exhausted flow-control window) at a moment chosen by the harness, independent of when
//!   the reader takes the message. The harness grants every flush eventually, so the gate alone can
//!   never deadlock a pair of sessions.

use std::collections::{BTreeMap, VecDeque};
use std::pin::Pin;
use std::sync::{Arc, Mutex};
use std::task::{Context, Poll, Waker};

use futures_util::{Sink, Stream};
use p2panda_core::VerifyingKey;
use p2panda_sync::protocols::{LogSyncMessage, TopicLogSyncMessage};

use crate::world::Ext;

/// Harness view of a protocol message.
#[derive(Clone, Debug, PartialEq)]
pub enum Wire {
    Have(BTreeMap<(VerifyingKey, u64), u32>),
    PreSync { operations: u32, bytes: u32 },
    Operation { header: Vec<u8>, body: Option<Vec<u8>> },
    Done,
    Live,
    Close,
}

impl Wire {
    pub fn tag(&self) -> &'static str {
        match self {
            Wire::Have(_) => "have",
            Wire::PreSync { .. } => "pre_sync",
            Wire::Operation { .. } => "operation",
            Wire::Done => "done",
            Wire::Live => "live",
            Wire::Close => "close",
        }
    }
}

pub trait WireMsg {
    fn wire(&self) -> Wire;
}

impl WireMsg for LogSyncMessage<u64> {
    fn wire(&self) -> Wire {
        match self {
            LogSyncMessage::Have(heights) => Wire::Have(
                heights
                    .iter()
                    .flat_map(|(a, logs)| logs.iter().map(move |(l, h)| ((*a, *l), *h)))
                    .collect(),
            ),
            LogSyncMessage::PreSync {
                total_operations,
                total_bytes,
            } => Wire::PreSync {
                operations: *total_operations,
                bytes: *total_bytes,
            },
            LogSyncMessage::Operation(header, body) => Wire::Operation {
                header: header.clone(),
                body: body.clone(),
            },
            LogSyncMessage::Done => Wire::Done,
        }
    }
}

impl WireMsg for TopicLogSyncMessage<u64, Ext> {
    fn wire(&self) -> Wire {
        match self {
            TopicLogSyncMessage::Sync(m) => m.wire(),
            TopicLogSyncMessage::Live(_, _) => Wire::Live,
            TopicLogSyncMessage::Close => Wire::Close,
        }
    }
}

#[derive(Debug, Clone)]
pub struct PipeError(pub &'static str);

struct State<M> {
    queue: VecDeque<M>,
    released: usize,
    manual: bool,
    buffer: Option<usize>,
    closed: bool,
    recv_waker: Option<Waker>,
    send_waker: Option<Waker>,
    transcript: Vec<Wire>,
    closed_polls: u32,
    max_len: usize,
    /// Flush gate: `Some(slack)` = on.
    gate: Option<usize>,
    /// Items accepted by `start_send` whose flush the harness has not granted yet (gate only).
    unflushed: usize,
}

impl<M> State<M> {
    fn has_room(&self) -> bool {
        match self.buffer {
            None => true,
            Some(b) => self.queue.len() <= b,
        }
    }

    fn gate_ready(&self) -> bool {
        match self.gate {
            None => true,
            Some(slack) => self.unflushed <= slack,
        }
    }

    fn gate_flushed(&self) -> bool {
        self.gate.is_none() || self.unflushed == 0
    }
}

pub struct PipeTx<M>(Arc<Mutex<State<M>>>);
pub struct PipeRx<M>(Arc<Mutex<State<M>>>);
pub struct PipeCtl<M>(Arc<Mutex<State<M>>>);

pub fn pipe<M>(buffer: Option<usize>, manual: bool) -> (PipeTx<M>, PipeRx<M>, PipeCtl<M>) {
    pipe_gated(buffer, manual, None)
}

/// Like `pipe`, with the flush gate switched on when `gate` is `Some(slack)`.
pub fn pipe_gated<M>(buffer: Option<usize>, manual: bool, gate: Option<usize>) -> (PipeTx<M>, PipeRx<M>, PipeCtl<M>) {
    let st = Arc::new(Mutex::new(State {
        queue: VecDeque::new(),
        released: 0,
        manual,
        buffer,
        closed: false,
        recv_waker: None,
        send_waker: None,
        transcript: Vec::new(),
        closed_polls: 0,
        max_len: 0,
        gate,
        unflushed: 0,
    }));
    (PipeTx(st.clone()), PipeRx(st.clone()), PipeCtl(st))
}

impl<M> PipeCtl<M> {
    /// Messages written but not yet released to the reader (manual mode).
    pub fn unreleased(&self) -> usize {
        let g = self.0.lock().unwrap();
        g.queue.len() - g.released
    }

    /// Messages in flight (written, not yet read).
    pub fn in_flight(&self) -> usize {
        self.0.lock().unwrap().queue.len()
    }

    pub fn release_one(&self) -> bool {
        let waker = {
            let mut g = self.0.lock().unwrap();
            if g.released < g.queue.len() {
                g.released += 1;
                g.recv_waker.take()
            } else {
                return false;
            }
        };
        if let Some(w) = waker {
            w.wake();
        }
        true
    }

    pub fn transcript(&self) -> Vec<Wire> {
        self.0.lock().unwrap().transcript.clone()
    }

    pub fn transcript_len(&self) -> usize {
        self.0.lock().unwrap().transcript.len()
    }

    /// Flushes the harness still has to grant (always 0 without the gate).
    pub fn pending_grants(&self) -> usize {
        let g = self.0.lock().unwrap();
        if g.gate.is_some() { g.unflushed } else { 0 }
    }

    /// The sink has accepted an item that is not flushed yet (gate not granted or over capacity).
    pub fn flush_pending(&self) -> bool {
        let g = self.0.lock().unwrap();
        !g.queue.is_empty() && !g.has_room() || !g.gate_flushed()
    }

    /// Grants the flush of the oldest unflushed item.
    pub fn grant_one(&self) -> bool {
        let waker = {
            let mut g = self.0.lock().unwrap();
            if g.gate.is_none() || g.unflushed == 0 {
                return false;
            }
            g.unflushed -= 1;
            g.send_waker.take()
        };
        if let Some(w) = waker {
            w.wake();
        }
        true
    }

    pub fn is_closed(&self) -> bool {
        self.0.lock().unwrap().closed
    }

    pub fn max_in_flight(&self) -> usize {
        self.0.lock().unwrap().max_len
    }
}

impl<M: WireMsg + Unpin> Sink<M> for PipeTx<M> {
    type Error = PipeError;

    fn poll_ready(self: Pin<&mut Self>, cx: &mut Context<'_>) -> Poll<Result<(), PipeError>> {
        let mut g = self.0.lock().unwrap();
        if g.closed {
            return Poll::Ready(Err(PipeError("sink used after close")));
        }
        if g.has_room() && g.gate_ready() {
            Poll::Ready(Ok(()))
        } else {
            g.send_waker = Some(cx.waker().clone());
            Poll::Pending
        }
    }

    fn start_send(self: Pin<&mut Self>, item: M) -> Result<(), PipeError> {
        let waker = {
            let mut g = self.0.lock().unwrap();
            if g.closed {
                return Err(PipeError("send after close"));
            }
            if !g.has_room() || !g.gate_ready() {
                return Err(PipeError("start_send without poll_ready"));
            }
            if g.gate.is_some() {
                g.unflushed += 1;
            }
            g.transcript.push(item.wire());
            g.queue.push_back(item);
            g.max_len = g.max_len.max(g.queue.len());
            if !g.manual {
                g.released = g.queue.len();
                g.recv_waker.take()
            } else {
                None
            }
        };
        if let Some(w) = waker {
            w.wake();
        }
        Ok(())
    }

    fn poll_flush(self: Pin<&mut Self>, cx: &mut Context<'_>) -> Poll<Result<(), PipeError>> {
        // Same rule as futures mpsc: flushed once the sender is no longer over its buffer.
        let mut g = self.0.lock().unwrap();
        if g.has_room() && g.gate_flushed() {
            Poll::Ready(Ok(()))
        } else {
            g.send_waker = Some(cx.waker().clone());
            Poll::Pending
        }
    }

    fn poll_close(self: Pin<&mut Self>, _cx: &mut Context<'_>) -> Poll<Result<(), PipeError>> {
        let waker = {
            let mut g = self.0.lock().unwrap();
            g.closed = true;
            g.recv_waker.take()
        };
        if let Some(w) = waker {
            w.wake();
        }
        Poll::Ready(Ok(()))
    }
}

impl<M: Unpin> Stream for PipeRx<M> {
    type Item = Result<M, PipeError>;

    fn poll_next(self: Pin<&mut Self>, cx: &mut Context<'_>) -> Poll<Option<Self::Item>> {
        let (item, waker) = {
            let mut g = self.0.lock().unwrap();
            if g.released > 0 {
                g.released -= 1;
                let item = g.queue.pop_front().expect("released <= len");
                let waker = if g.has_room() { g.send_waker.take() } else { None };
                (item, waker)
            } else if g.closed && g.queue.is_empty() {
                g.closed_polls += 1;
                if g.closed_polls > 1000 {
                    panic!("busy loop: closed and drained stream polled more than 1000 times");
                }
                return Poll::Ready(None);
            } else {
                g.recv_waker = Some(cx.waker().clone());
                return Poll::Pending;
            }
        };
        if let Some(w) = waker {
            w.wake();
        }
        Poll::Ready(Some(Ok(item)))
    }
}
