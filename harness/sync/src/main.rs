//! Checks of the sync group: C19 C20 C21 C24.
mod memstore;
mod pipe;
mod props;
mod session;
mod world;

fn main() {
    let ctx = engine::Ctx::from_args();
    match ctx.id.as_str() {
        "C19" => props::c19::run(ctx),
        "C20" => props::c20::run(ctx),
        "C21" => props::c21::run(ctx),
        "C24" => props::c24::run(ctx),
        other => engine::harness_error(&format!("property {other} is not served by verif-sync")),
    }
}
