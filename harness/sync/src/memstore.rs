//! B9: in-memory implementation of the repository's store traits (plain `BTreeMap`s).
//!
//! Written from the trait documentation in `p2panda-store/src/{logs,operations,topics}/traits.rs`
//! (`after` exclusive unless `None`, `until` inclusive, `prune_entries` deletes `seq < until`, size =
//! header bytes + claimed payload size). Every future completes on its first poll, so a session
//! running on this store can only ever be `Pending` on its transport – which makes deadlock
//! detection exact (C21).

use std::collections::{BTreeMap, BTreeSet};
use std::sync::{Arc, Mutex};

use p2panda_core::cbor::{decode_cbor, encode_cbor};
use p2panda_core::{Extensions, Hash, LogId, Operation, SeqNum, VerifyingKey};
use p2panda_store::Transaction;
use p2panda_store::logs::LogStore;
use p2panda_store::operations::OperationStore;
use p2panda_store::topics::TopicStore;
use serde::{Deserialize, Serialize};

#[derive(Debug, Clone)]
pub struct MemError(pub String);

impl std::fmt::Display for MemError {
    fn fmt(&self, f: &mut std::fmt::Formatter<'_>) -> std::fmt::Result {
        write!(f, "mem store: {}", self.0)
    }
}

impl std::error::Error for MemError {}

type LogKey = (VerifyingKey, Vec<u8>);

#[derive(Clone)]
struct Entry<E> {
    operation: Operation<E>,
    header_bytes: Vec<u8>,
    log: LogKey,
}

#[derive(Clone)]
struct Data<E> {
    operations: BTreeMap<Hash, Entry<E>>,
    /// (author, cbor(log id)) -> seq -> operation id
    logs: BTreeMap<LogKey, BTreeMap<SeqNum, Hash>>,
    /// (cbor(topic), author, cbor(data id))
    topics: BTreeSet<(Vec<u8>, VerifyingKey, Vec<u8>)>,
}

struct Inner<E> {
    data: Data<E>,
    snapshot: Option<Data<E>>,
}

pub struct MemStore<E> {
    inner: Arc<Mutex<Inner<E>>>,
}

impl<E> Clone for MemStore<E> {
    fn clone(&self) -> Self {
        Self {
            inner: self.inner.clone(),
        }
    }
}

impl<E: Clone> MemStore<E> {
    pub fn new() -> Self {
        Self {
            inner: Arc::new(Mutex::new(Inner {
                data: Data {
                    operations: BTreeMap::new(),
                    logs: BTreeMap::new(),
                    topics: BTreeSet::new(),
                },
                snapshot: None,
            })),
        }
    }
}

fn enc<T: Serialize>(value: &T) -> Result<Vec<u8>, MemError> {
    encode_cbor(value).map_err(|e| MemError(format!("encode: {e}")))
}

fn dec<T: for<'a> Deserialize<'a>>(bytes: &[u8]) -> Result<T, MemError> {
    decode_cbor(bytes).map_err(|e| MemError(format!("decode: {e}")))
}

/// Like the repository's `TransactionPermit`: dropping it without commit/rollback rolls back.
pub struct MemPermit<E> {
    inner: Arc<Mutex<Inner<E>>>,
    finished: bool,
}

impl<E> Drop for MemPermit<E> {
    fn drop(&mut self) {
        if !self.finished {
            let mut g = self.inner.lock().unwrap();
            if let Some(s) = g.snapshot.take() {
                g.data = s;
            }
        }
    }
}

impl<E: Clone> Transaction for MemStore<E> {
    type Error = MemError;
    type Permit = MemPermit<E>;

    async fn begin(&self) -> Result<MemPermit<E>, MemError> {
        let mut g = self.inner.lock().unwrap();
        if g.snapshot.is_some() {
            return Err(MemError("nested transaction".into()));
        }
        g.snapshot = Some(g.data.clone());
        Ok(MemPermit {
            inner: self.inner.clone(),
            finished: false,
        })
    }

    async fn rollback(&self, mut permit: MemPermit<E>) -> Result<(), MemError> {
        permit.finished = true;
        let mut g = self.inner.lock().unwrap();
        match g.snapshot.take() {
            Some(s) => {
                g.data = s;
                Ok(())
            }
            None => Err(MemError("rollback without transaction".into())),
        }
    }

    async fn commit(&self, mut permit: MemPermit<E>) -> Result<(), MemError> {
        permit.finished = true;
        let mut g = self.inner.lock().unwrap();
        match g.snapshot.take() {
            Some(_) => Ok(()),
            None => Err(MemError("commit without transaction".into())),
        }
    }
}

impl<E: Extensions> OperationStore<Operation<E>, Hash> for MemStore<E> {
    type Error = MemError;

    async fn insert_operation<L: LogId>(&self, id: &Hash, operation: &Operation<E>, log_id: &L) -> Result<bool, MemError> {
        let log: LogKey = (operation.header.verifying_key, enc(log_id)?);
        let mut g = self.inner.lock().unwrap();
        if g.data.operations.contains_key(id) {
            return Ok(false);
        }
        g.data.operations.insert(
            *id,
            Entry {
                operation: operation.clone(),
                header_bytes: operation.header.to_bytes(),
                log: log.clone(),
            },
        );
        g.data.logs.entry(log).or_default().insert(operation.header.seq_num, *id);
        Ok(true)
    }

    async fn get_operation(&self, id: &Hash) -> Result<Option<Operation<E>>, MemError> {
        let g = self.inner.lock().unwrap();
        Ok(g.data.operations.get(id).map(|e| e.operation.clone()))
    }

    async fn get_operation_tx(&self, id: &Hash) -> Result<Option<Operation<E>>, MemError> {
        self.get_operation(id).await
    }

    async fn has_operation(&self, id: &Hash) -> Result<bool, MemError> {
        let g = self.inner.lock().unwrap();
        Ok(g.data.operations.contains_key(id))
    }

    async fn has_operation_tx(&self, id: &Hash) -> Result<bool, MemError> {
        self.has_operation(id).await
    }

    async fn delete_operation(&self, id: &Hash) -> Result<bool, MemError> {
        let mut g = self.inner.lock().unwrap();
        match g.data.operations.remove(id) {
            Some(entry) => {
                let seq = entry.operation.header.seq_num;
                let mut empty = false;
                if let Some(log) = g.data.logs.get_mut(&entry.log) {
                    if log.get(&seq) == Some(id) {
                        log.remove(&seq);
                    }
                    empty = log.is_empty();
                }
                if empty {
                    g.data.logs.remove(&entry.log);
                }
                Ok(true)
            }
            None => Ok(false),
        }
    }

    async fn delete_operation_payload(&self, id: &Hash) -> Result<bool, MemError> {
        let mut g = self.inner.lock().unwrap();
        match g.data.operations.get_mut(id) {
            Some(entry) => {
                entry.operation.body = None;
                Ok(true)
            }
            None => Ok(false),
        }
    }
}

fn in_range(seq: SeqNum, after: Option<SeqNum>, until: Option<SeqNum>) -> bool {
    let lower = match after {
        None => true,
        Some(a) => seq > a,
    };
    let upper = match until {
        None => true,
        Some(u) => seq <= u,
    };
    lower && upper
}

impl<E: Extensions, L: LogId> LogStore<Operation<E>, VerifyingKey, L, SeqNum, Hash> for MemStore<E> {
    type Error = MemError;

    async fn get_latest_entry(&self, author: &VerifyingKey, log_id: &L) -> Result<Option<Operation<E>>, MemError> {
        let key: LogKey = (*author, enc(log_id)?);
        let g = self.inner.lock().unwrap();
        Ok(g.data
            .logs
            .get(&key)
            .and_then(|log| log.iter().next_back())
            .and_then(|(_, id)| g.data.operations.get(id))
            .map(|e| e.operation.clone()))
    }

    async fn get_latest_entry_tx(&self, author: &VerifyingKey, log_id: &L) -> Result<Option<Operation<E>>, MemError> {
        <Self as LogStore<Operation<E>, VerifyingKey, L, SeqNum, Hash>>::get_latest_entry(self, author, log_id).await
    }

    async fn get_log_heights(&self, author: &VerifyingKey, logs: &[L]) -> Result<Option<BTreeMap<L, SeqNum>>, MemError> {
        let g = self.inner.lock().unwrap();
        let mut out = BTreeMap::new();
        for log_id in logs {
            let key: LogKey = (*author, enc(log_id)?);
            if let Some(height) = g.data.logs.get(&key).and_then(|log| log.keys().next_back()) {
                out.insert(log_id.clone(), *height);
            }
        }
        Ok(if out.is_empty() { None } else { Some(out) })
    }

    async fn get_log_size(&self, author: &VerifyingKey, log_id: &L, after: Option<SeqNum>, until: Option<SeqNum>) -> Result<Option<(u32, u32)>, MemError> {
        let key: LogKey = (*author, enc(log_id)?);
        let g = self.inner.lock().unwrap();
        let mut count = 0u32;
        let mut bytes = 0u32;
        if let Some(log) = g.data.logs.get(&key) {
            for (seq, id) in log {
                if in_range(*seq, after, until) {
                    if let Some(e) = g.data.operations.get(id) {
                        count += 1;
                        bytes += e.header_bytes.len() as u32 + e.operation.header.payload_size;
                    }
                }
            }
        }
        Ok(Some((count, bytes)))
    }

    async fn get_log_entries(&self, author: &VerifyingKey, log_id: &L, after: Option<SeqNum>, until: Option<SeqNum>) -> Result<Option<Vec<(Operation<E>, Vec<u8>)>>, MemError> {
        let key: LogKey = (*author, enc(log_id)?);
        let g = self.inner.lock().unwrap();
        let mut out = Vec::new();
        if let Some(log) = g.data.logs.get(&key) {
            for (seq, id) in log {
                if in_range(*seq, after, until) {
                    if let Some(e) = g.data.operations.get(id) {
                        out.push((e.operation.clone(), e.header_bytes.clone()));
                    }
                }
            }
        }
        Ok(if out.is_empty() { None } else { Some(out) })
    }

    async fn prune_entries(&self, author: &VerifyingKey, log_id: &L, until: &SeqNum) -> Result<u64, MemError> {
        let key: LogKey = (*author, enc(log_id)?);
        let mut g = self.inner.lock().unwrap();
        let mut removed = Vec::new();
        let mut empty = false;
        if let Some(log) = g.data.logs.get_mut(&key) {
            let seqs: Vec<SeqNum> = log.keys().copied().filter(|s| s < until).collect();
            for s in seqs {
                if let Some(id) = log.remove(&s) {
                    removed.push(id);
                }
            }
            empty = log.is_empty();
        }
        if empty {
            g.data.logs.remove(&key);
        }
        for id in &removed {
            g.data.operations.remove(id);
        }
        Ok(removed.len() as u64)
    }
}

impl<E, T, L> TopicStore<T, VerifyingKey, L> for MemStore<E>
where
    E: Extensions,
    T: Serialize + for<'de> Deserialize<'de>,
    L: LogId,
{
    type Error = MemError;

    async fn associate(&self, topic: &T, author: &VerifyingKey, data_id: &L) -> Result<bool, MemError> {
        let key = (enc(topic)?, *author, enc(data_id)?);
        let mut g = self.inner.lock().unwrap();
        Ok(g.data.topics.insert(key))
    }

    async fn remove(&self, topic: &T, author: &VerifyingKey, data_id: &L) -> Result<bool, MemError> {
        let key = (enc(topic)?, *author, enc(data_id)?);
        let mut g = self.inner.lock().unwrap();
        Ok(g.data.topics.remove(&key))
    }

    async fn resolve(&self, topic: &T) -> Result<BTreeMap<VerifyingKey, Vec<L>>, MemError> {
        let t = enc(topic)?;
        let g = self.inner.lock().unwrap();
        let mut out: BTreeMap<VerifyingKey, Vec<L>> = BTreeMap::new();
        for (topic, author, data_id) in g.data.topics.iter() {
            if *topic == t {
                out.entry(*author).or_default().push(dec(data_id)?);
            }
        }
        Ok(out)
    }
}
