//! Shared fixtures of the store group: deterministic keys and operations, runtimes, file-backed
//! stores in per-case temp directories.

use std::path::{Path, PathBuf};
use std::sync::atomic::{AtomicU64, Ordering};

use p2panda_core::{Body, Extensions, Hash, Header, Operation, SeqNum, SigningKey};
use p2panda_store::{SqliteStore, SqliteStoreBuilder};

/// Deterministic signing key number `i`.
pub fn key(i: u8) -> SigningKey {
    let mut seed = [0x5a_u8; 32];
    seed[0] = i;
    seed[31] = i.wrapping_mul(31).wrapping_add(7);
    SigningKey::from_bytes(&seed)
}

/// Signed operation built from plain data. `with_body = false` gives the header-only form (the
/// header still claims the payload, the body is not attached).
pub fn make_op<E: Extensions>(
    sk: &SigningKey,
    seq_num: SeqNum,
    backlink: Option<Hash>,
    body: &[u8],
    with_body: bool,
    extensions: E,
) -> Operation<E> {
    let body = Body::new(body);
    let mut header = Header::<E> {
        version: 1,
        verifying_key: sk.verifying_key(),
        signature: None,
        payload_size: body.size(),
        payload_hash: if body.size() == 0 { None } else { Some(body.hash()) },
        seq_num,
        backlink,
        extensions,
    };
    header.sign(sk);
    Operation {
        hash: header.hash(),
        header,
        body: if with_body && body.size() > 0 { Some(body) } else { None },
    }
}

/// Fresh current-thread runtime (one per case; nothing leaks between cases).
pub fn runtime() -> tokio::runtime::Runtime {
    tokio::runtime::Builder::new_current_thread()
        .enable_all()
        .build()
        .expect("tokio runtime")
}

static CASE_COUNTER: AtomicU64 = AtomicU64::new(0);

/// Per-case directory under the engine's temp dir; removed when dropped.
pub struct CaseDir {
    path: PathBuf,
}

impl CaseDir {
    pub fn new(base: &Path) -> CaseDir {
        let n = CASE_COUNTER.fetch_add(1, Ordering::SeqCst);
        let path = base.join(format!("case-{n}"));
        let _ = std::fs::remove_dir_all(&path);
        std::fs::create_dir_all(&path).unwrap_or_else(|e| engine::harness_error(&format!("cannot create {}: {e}", path.display())));
        CaseDir { path }
    }

    pub fn path(&self) -> &Path {
        &self.path
    }
}

impl Drop for CaseDir {
    fn drop(&mut self) {
        let _ = std::fs::remove_dir_all(&self.path);
    }
}

/// Migrated, empty database file used as a template: creating a database and running all
/// migrations costs far more than copying the resulting file.
pub struct Template {
    file: PathBuf,
}

impl Template {
    /// Builds the template once (call before `run_prop`).
    pub fn build(base: &Path) -> Template {
        let file = base.join("template.sqlite");
        let _ = std::fs::remove_file(&file);
        let url = format!("sqlite://{}", file.display());
        let rt = runtime();
        rt.block_on(async {
            let store = SqliteStoreBuilder::new()
                .database_url(&url)
                .min_connections(1)
                .max_connections(1)
                .build()
                .await
                .unwrap_or_else(|e| engine::harness_error(&format!("cannot build template database: {e}")));
            store.pool().close().await;
        });
        drop(rt);
        if !file.exists() {
            engine::harness_error("template database file was not created");
        }
        Template { file }
    }

    /// Opens a fresh file-backed store (copy of the template) inside `dir`.
    pub async fn open(&self, dir: &CaseDir, name: &str, max_connections: u32) -> SqliteStore {
        let file = dir.path().join(format!("{name}.sqlite"));
        std::fs::copy(&self.file, &file).unwrap_or_else(|e| engine::harness_error(&format!("cannot copy template database: {e}")));
        let url = format!("sqlite://{}", file.display());
        SqliteStoreBuilder::new()
            .database_url(&url)
            .create_database(false)
            .min_connections(1)
            .max_connections(max_connections)
            .build()
            .await
            .unwrap_or_else(|e| engine::harness_error(&format!("cannot open file-backed store: {e}")))
    }
}

impl Drop for Template {
    fn drop(&mut self) {
        let _ = std::fs::remove_file(&self.file);
    }
}

/// Short rendering of a store error result for oracle messages.
pub fn err_str<E: std::fmt::Display>(what: &str, e: E) -> String {
    format!("{what} returned an error on valid input: {e}")
}
