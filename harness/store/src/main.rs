//! Checks of the store group: C08 C09 C10 C11 C12.
mod fx;
mod ord;
mod props;

fn main() {
    let ctx = engine::Ctx::from_args();
    match ctx.id.as_str() {
        "C08" => props::c08::run(ctx),
        "C09" => props::c09::run_check(ctx),
        "C10" => props::c10::run(ctx),
        "C11" => props::c11::run(ctx),
        "C12" => props::c12::run(ctx),
        other => engine::harness_error(&format!("property {other} is not served by verif-store")),
    }
}
