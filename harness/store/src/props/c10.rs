//! C10 Store transactions are atomic and serialized under any abort point.
//!
//! 2–5 writer tasks share one `SqliteStore` (file-backed with 16 connections, or the
//! one-connection in-memory store). Every writer runs 1–4 generated transactions: `begin`, a few
//! tagged writes through the real store APIs (`insert_operation` with ascending sequence numbers
//! in a log of its own, `associate`, `set_cursor`), reads inside the transaction
//! (`get_latest_entry_tx`, `has_operation_tx` about its own or another transaction's rows), then
//! one of: commit · rollback · a failing step followed by an early return (permit dropped) ·
//! permit dropped after j writes · the whole transaction future cancelled after n polls
//! (file-backed store only, DESIGN.md B4). Task start order and yields between steps are
//! generated. Interleavings with the SQLite worker threads are sampled, not enumerated; the oracle
//! does not depend on timing.
//!
//! Shared transactions ("Transaction II" in the `SqliteStore` docs: several processes write and
//! read within one transaction): about 60 % of the transactions have 1–3 bursts of 1–3 helper
//! calls (`insert_operation` into a log of their own, `associate`, `get_latest_entry_tx`). A burst
//! is started immediately before a step of the writer or immediately before the writer commits /
//! rolls back / drops its permit (for a failing step: between the failing call and the early
//! return): each call is polled once – it now holds the transaction mutex with its statement sent,
//! or queues on the mutex – and finishes in a task of its own while the writer goes on, so helper
//! calls are in flight at every kind of end, including cancellation of the writer's future.
//! No helper call is ever *started* after the writer ended its transaction (the documentation
//! leaves consistency between sharing processes to them; a late call would fail or land in the
//! next transaction, which is the helper's business, not the store's). The transaction mutex is
//! FIFO, so every started helper call is executed inside the writer's transaction before the
//! commit / rollback takes it: its rows belong to that transaction (all-or-nothing with it).
//! An error returned by a helper call is not asserted (recorded, label `helper_call_error`; its
//! row may then be present or absent in a committed transaction); only a helper write of a fresh
//! row answering "already there" is reported, like for the writer itself.
//!
//! Oracle, after all tasks finished:
//! * rows of every transaction whose `commit` returned `Ok` are all present;
//! * nothing of any transaction that never called `commit` is present;
//! * a transaction cancelled while its `commit` was in flight is present completely or not at all;
//! * every read inside a transaction saw exactly its own rows written so far, and of any other
//!   transaction either nothing or everything – everything if that transaction's commit had
//!   returned before this one began, nothing unless its commit had at least been called;
//! * every writer task ran to its end (no panic, no error from begin/commit/rollback) and a final
//!   `begin` + write + `commit` works.

use std::collections::{BTreeMap, BTreeSet};
use std::future::Future;
use std::pin::Pin;
use std::sync::{Arc, Mutex};
use std::task::{Context, Poll};

use engine::proptest::prelude::*;
use engine::{CaseOk, CaseResult, Ctx, Part, Watchdog, ensure, ensure_eq, idx};
use p2panda_core::logs::LogHeights;
use p2panda_core::{Cursor, Hash, Operation, SeqNum, Topic, VerifyingKey};
use p2panda_store::cursors::CursorStore;
use p2panda_store::logs::LogStore;
use p2panda_store::operations::OperationStore;
use p2panda_store::topics::TopicStore;
use p2panda_store::{SqliteError, SqliteStore, Transaction};
use serde::{Deserialize, Serialize};

use crate::fx::{self, CaseDir, Template};

#[derive(Clone, Debug, Serialize, Deserialize)]
enum Step {
    /// `insert_operation` of the next row of this transaction.
    Op { yields: u8 },
    /// `associate(topic(tag), author(tag), j)`.
    Assoc { yields: u8 },
    /// `set_cursor("c10-<tag>")`.
    Cursor { yields: u8 },
    /// Read inside the transaction about the rows of transaction `about` (picked among all).
    ReadLatest { about: u16 },
    ReadHas { about: u16, row: u8 },
}

#[derive(Clone, Debug, Serialize, Deserialize)]
enum End {
    Commit,
    Rollback,
    /// A failing step after `after` steps, then early return with the error (permit dropped).
    ErrorReturn { after: u8 },
    /// Permit dropped after `after` steps.
    DropPermit { after: u8 },
}

/// One store call issued by a helper process that shares the writer's transaction ("Transaction
/// II" in the `SqliteStore` docs: several processes write and read within one transaction).
#[derive(Clone, Debug, Serialize, Deserialize)]
enum HelperCall {
    /// `insert_operation` of the next helper row (log `1000 + tag` of the transaction's author).
    Op,
    /// `associate(topic(tag), author(tag), 100 + k)`.
    Assoc,
    /// `get_latest_entry_tx` about the rows of transaction `about` (judged for other transactions).
    ReadLatest { about: u16 },
}

/// 1–3 helper calls that are started (polled once: holding or queued on the transaction mutex)
/// immediately before the writer's step `at` – or, for `at >= steps.len()`, immediately before the
/// writer commits / rolls back / drops its permit; for a failing step, between the failing call and
/// the early return. They are still in flight when the writer goes on.
///
/// `at == AT_CANCEL` places the burst where the generated cancellation of the writer's future
/// aims (before that step, or at the end), so that cancellations regularly meet helper calls.
#[derive(Clone, Debug, Serialize, Deserialize)]
struct Burst {
    at: u8,
    calls: Vec<HelperCall>,
}

const AT_CANCEL: u8 = 254;

impl Tx {
    /// Step index before which a burst is started; `steps.len()` = at the end.
    fn burst_pos(&self, at: u8) -> usize {
        let end = self.steps.len();
        let pos = match (at, &self.cancel) {
            (AT_CANCEL, Some(CancelAt { phase: Phase::Step(k), .. })) => *k as usize,
            (AT_CANCEL, Some(CancelAt { phase: Phase::End, .. })) => end,
            (AT_CANCEL, _) => 0,
            (at, _) => at as usize,
        };
        pos.min(end)
    }
}

#[derive(Clone, Debug, Serialize, Deserialize)]
struct Tx {
    pre_yields: u8,
    steps: Vec<Step>,
    end: End,
    /// Whole transaction future dropped at a generated await point (file-backed store only).
    cancel: Option<CancelAt>,
    /// Helper processes sharing this transaction (absent in replay files written before they
    /// were added).
    #[serde(default)]
    helpers: Vec<Burst>,
}

/// The transaction future is dropped at its `nth` suspension inside the given phase (or at the
/// first suspension in a later phase, if that phase was left earlier). Raw poll counts are not
/// used: how often a store call suspends depends on the timing of the SQLite worker thread.
#[derive(Clone, Debug, Serialize, Deserialize)]
struct CancelAt {
    phase: Phase,
    nth: u8,
}

#[derive(Clone, Copy, Debug, PartialEq, Eq, PartialOrd, Ord, Serialize, Deserialize)]
enum Phase {
    /// Not yet at `begin` (never a cancellation target).
    Idle,
    Begin,
    Step(u8),
    End,
}

#[derive(Clone, Debug, Serialize, Deserialize)]
struct Case {
    file_backed: bool,
    multi_thread: bool,
    writers: Vec<Vec<Tx>>,
    start_order: Vec<u16>,
}

type Tag = u8;

#[derive(Clone, Debug, Default)]
struct TxLog {
    begun: bool,
    /// Rows (operations, by seq) whose insert returned Ok(true).
    ops: Vec<u32>,
    assocs: Vec<u64>,
    cursor: Option<u32>,
    commit_called: bool,
    committed: bool,
    /// Some write was started but did not return (cancelled mid-write) – only relevant for
    /// bookkeeping of "everything": such a transaction can never have called commit.
    finished: bool,
    kind: &'static str,
    /// Helper rows (log `1000 + tag`) whose insert returned Ok(true), in completion order.
    h_ops: Vec<u32>,
    /// Helper rows / triples whose call returned an error: outcome not asserted (the statement
    /// says nothing about calls of a process sharing a transaction), tolerated present or absent
    /// in a committed transaction.
    h_maybe_ops: Vec<u32>,
    h_maybe_assocs: Vec<u64>,
    h_launched: u32,
    /// Helper calls started and not yet returned (they hold the transaction mutex or queue on it).
    h_pending: u32,
    /// Filled when the transaction ended while helper calls were pending: how it ended.
    h_in_flight_at: Vec<&'static str>,
    h_errors: u32,
}

#[derive(Default)]
struct Shared {
    txs: BTreeMap<Tag, TxLog>,
    active: u32,
    waiting: u32,
    overlapped: bool,
    spared: bool,
    errors: Vec<String>,
    /// Helper calls that did not complete within their first poll, finishing in tasks of their own.
    helper_tasks: Vec<tokio::task::JoinHandle<()>>,
}

type Sh = Arc<Mutex<Shared>>;

fn author(tag: Tag) -> p2panda_core::SigningKey {
    fx::key(100 + tag)
}

fn topic(tag: Tag) -> Topic {
    Topic::from([tag.wrapping_add(1); 32])
}

fn row_op(tag: Tag, j: u32) -> Operation<()> {
    let body = [tag, j as u8, 0xc1, 0x0a];
    let backlink = if j == 0 { None } else { Some(Hash::digest([tag, (j - 1) as u8])) };
    fx::make_op(&author(tag), j, backlink, &body, true, ())
}

fn cursor_of(tag: Tag, v: u32) -> Cursor<VerifyingKey, u64> {
    let mut st: LogHeights<VerifyingKey, u64> = BTreeMap::new();
    st.entry(author(tag).verifying_key()).or_default().insert(tag as u64, v);
    Cursor::new(format!("c10-{tag}"), st)
}

fn helper_log(tag: Tag) -> u64 {
    1000 + tag as u64
}

/// Row written by a helper process sharing transaction `tag` (own log, own hashes, so that the
/// writer's in-transaction reads about its own rows stay exact).
fn helper_op(tag: Tag, j: u32) -> Operation<()> {
    let body = [tag, j as u8, 0xc2, 0x0b];
    let backlink = if j == 0 { None } else { Some(Hash::digest([tag, (j - 1) as u8, 0xc2])) };
    fx::make_op(&author(tag), j, backlink, &body, true, ())
}

/// One helper call, recording its outcome in the same poll in which the store call returns (so
/// `h_pending > 0` means: a helper holds the transaction mutex or is queued on it).
fn helper_future(store: SqliteStore, sh: Sh, tag: Tag, call: HelperCall, k: u32, all_tags: Arc<Vec<Tag>>, snapshot: Arc<BTreeSet<Tag>>) -> Pin<Box<dyn Future<Output = ()> + Send>> {
    Box::pin(async move {
        let vk = author(tag).verifying_key();
        match call {
            HelperCall::Op => {
                let op = helper_op(tag, k);
                let r = store.insert_operation(&op.hash, &op, &helper_log(tag)).await;
                let mut guard = sh.lock().unwrap();
                let g = &mut *guard;
                let l = g.txs.get_mut(&tag).unwrap();
                l.h_pending -= 1;
                match r {
                    Ok(true) => l.h_ops.push(k),
                    Ok(false) => g.errors.push(format!("insert_operation of a fresh row by a helper of transaction {tag} reported false")),
                    Err(_) => {
                        l.h_errors += 1;
                        l.h_maybe_ops.push(k);
                    }
                }
            }
            HelperCall::Assoc => {
                let j = 100 + k as u64;
                let r = <SqliteStore as TopicStore<Topic, VerifyingKey, u64>>::associate(&store, &topic(tag), &vk, &j).await;
                let mut guard = sh.lock().unwrap();
                let g = &mut *guard;
                let l = g.txs.get_mut(&tag).unwrap();
                l.h_pending -= 1;
                match r {
                    Ok(true) => l.assocs.push(j),
                    Ok(false) => g.errors.push(format!("associate of a fresh triple by a helper of transaction {tag} reported false")),
                    Err(_) => {
                        l.h_errors += 1;
                        l.h_maybe_assocs.push(j);
                    }
                }
            }
            HelperCall::ReadLatest { about } => {
                let about = all_tags[idx(about, all_tags.len())];
                let r = <SqliteStore as LogStore<Operation<()>, VerifyingKey, u64, SeqNum, Hash>>::get_latest_entry_tx(
                    &store,
                    &author(about).verifying_key(),
                    &(about as u64),
                )
                .await;
                let mut guard = sh.lock().unwrap();
                let g = &mut *guard;
                g.txs.get_mut(&tag).unwrap().h_pending -= 1;
                match r {
                    // The writer's own rows change while the helper reads: only what the helper
                    // sees of *other* transactions is judged (nothing or everything).
                    Ok(got) if about != tag => {
                        if let Err(e) = judge_visible(g, tag, &snapshot, about, got.map(|o| o.header.seq_num)) {
                            g.errors.push(format!("helper read: {e}"));
                        }
                    }
                    Ok(_) => {}
                    Err(_) => g.txs.get_mut(&tag).unwrap().h_errors += 1,
                }
            }
        }
    })
}

/// Starts the helper calls of the bursts selected by `pick`: every call is polled exactly once
/// here (it takes the transaction mutex and sends its statement, or queues on the mutex behind the
/// previous one) and then finishes in a task of its own. No await point lies between that first
/// poll and the caller's next action, and no helper call is ever *started* after the writer
/// committed / rolled back / dropped its permit – what a late call does is not the writer's
/// business.
async fn launch(
    store: &SqliteStore,
    sh: &Sh,
    tag: Tag,
    bursts: &[Burst],
    pick: impl Fn(u8) -> bool,
    next_k: &mut u32,
    all_tags: &Arc<Vec<Tag>>,
    snapshot: &Arc<BTreeSet<Tag>>,
) {
    for burst in bursts.iter().filter(|b| pick(b.at)) {
        for call in &burst.calls {
            let k = *next_k;
            *next_k += 1;
            {
                let mut g = sh.lock().unwrap();
                let l = g.txs.get_mut(&tag).unwrap();
                l.h_launched += 1;
                l.h_pending += 1;
            }
            let mut fut = helper_future(store.clone(), sh.clone(), tag, call.clone(), k, all_tags.clone(), snapshot.clone());
            // Always ready: no suspension (and so no cancellation point) here.
            let first = std::future::poll_fn(|cx| Poll::Ready(fut.as_mut().poll(cx))).await;
            if first.is_pending() {
                let h = tokio::spawn(fut);
                sh.lock().unwrap().helper_tasks.push(h);
            }
        }
    }
}

/// Called immediately before the writer ends its transaction.
fn note_end(sh: &Sh, tag: Tag, how: &'static str) {
    let mut g = sh.lock().unwrap();
    let l = g.txs.get_mut(&tag).unwrap();
    if l.h_pending > 0 {
        l.h_in_flight_at.push(how);
    }
}

fn panic_text(e: tokio::task::JoinError) -> String {
    if e.is_panic() {
        let p = e.into_panic();
        p.downcast_ref::<&str>().map(|s| s.to_string()).or_else(|| p.downcast_ref::<String>().cloned()).unwrap_or_default()
    } else {
        "cancelled".to_string()
    }
}

async fn yields(n: u8) {
    for _ in 0..n {
        tokio::task::yield_now().await;
    }
}

/// Future wrapper: drops the inner future at the requested suspension point.
struct CancelAt2<F> {
    fut: Option<Pin<Box<F>>>,
    at: CancelAt,
    seen: u8,
    phase: Arc<Mutex<Phase>>,
    /// Never drop the future while it is inside `commit()` / `rollback()` (open finding K-C10).
    spare_end: bool,
    spared: Arc<Mutex<bool>>,
    sh: Sh,
    tag: Tag,
}

impl<F: Future> Future for CancelAt2<F> {
    type Output = Option<F::Output>;

    fn poll(mut self: Pin<&mut Self>, cx: &mut Context<'_>) -> Poll<Self::Output> {
        let this = &mut *self;
        let Some(fut) = this.fut.as_mut() else {
            return Poll::Ready(None);
        };
        match fut.as_mut().poll(cx) {
            Poll::Ready(v) => {
                this.fut = None;
                Poll::Ready(Some(v))
            }
            Poll::Pending => {
                let now = *this.phase.lock().unwrap();
                let hit = if now == Phase::Idle {
                    false
                } else if now == Phase::End && this.spare_end {
                    *this.spared.lock().unwrap() = true;
                    false
                } else if now == this.at.phase {
                    this.seen += 1;
                    this.seen >= this.at.nth.max(1)
                } else {
                    now > this.at.phase
                };
                if hit {
                    // Helper calls of this transaction still hold (or queue on) the transaction
                    // mutex while the writer is dropped?
                    note_end(&this.sh, this.tag, "cancel");
                    this.fut = None;
                    Poll::Ready(None)
                } else {
                    Poll::Pending
                }
            }
        }
    }
}

impl<F> Unpin for CancelAt2<F> {}

/// What a transaction sees of the rows of `about` must be nothing or everything.
fn judge_visible(sh: &Shared, me: Tag, snapshot: &BTreeSet<Tag>, about: Tag, seen_latest: Option<u32>) -> Result<(), String> {
    let Some(log) = sh.txs.get(&about) else {
        return match seen_latest {
            None => Ok(()),
            Some(s) => Err(format!("transaction {me} sees row {s} of transaction {about}, which never started")),
        };
    };
    let full = log.ops.last().copied();
    if about == me {
        return if seen_latest == full {
            Ok(())
        } else {
            Err(format!("transaction {me} does not read its own writes: latest own row seen {seen_latest:?}, written {full:?}"))
        };
    }
    if snapshot.contains(&about) {
        return if seen_latest == full {
            Ok(())
        } else {
            Err(format!(
                "transaction {me} began after transaction {about} had committed rows up to {full:?} but sees {seen_latest:?}"
            ))
        };
    }
    match seen_latest {
        None => Ok(()),
        Some(s) => {
            if !log.commit_called {
                Err(format!("transaction {me} sees row {s} of transaction {about} ({}) which never called commit", log.kind))
            } else if Some(s) != full {
                Err(format!("transaction {me} sees a partial state of transaction {about}: latest row {s}, written {full:?}"))
            } else {
                Ok(())
            }
        }
    }
}

async fn run_tx(store: SqliteStore, sh: Sh, tag: Tag, tx: Tx, all_tags: Arc<Vec<Tag>>, phase: Arc<Mutex<Phase>>) -> Result<(), String> {
    yields(tx.pre_yields).await;
    *phase.lock().unwrap() = Phase::Begin;
    // Overlap bookkeeping: another writer holds a transaction, or is waiting for one, when this
    // one asks for its own.
    struct Waiting(Sh);
    impl Drop for Waiting {
        fn drop(&mut self) {
            self.0.lock().unwrap().waiting -= 1;
        }
    }
    let waiting = {
        let mut g = sh.lock().unwrap();
        if g.active > 0 || g.waiting > 0 {
            g.overlapped = true;
        }
        g.waiting += 1;
        Waiting(sh.clone())
    };
    let permit = store.begin().await.map_err(|e| format!("begin of transaction {tag} failed: {e}"))?;
    drop(waiting);
    let snapshot: BTreeSet<Tag> = {
        let mut g = sh.lock().unwrap();
        g.active += 1;
        g.txs.get_mut(&tag).unwrap().begun = true;
        g.txs.iter().filter(|(_, l)| l.committed).map(|(t, _)| *t).collect()
    };
    // `active` is maintained on every exit path (also cancellation).
    struct Active(Sh);
    impl Drop for Active {
        fn drop(&mut self) {
            self.0.lock().unwrap().active -= 1;
        }
    }
    let _active = Active(sh.clone());
    // Give every other writer a turn while this transaction is open, so that overlap does not
    // depend on how fast the SQLite worker answers.
    tokio::task::yield_now().await;

    let vk = author(tag).verifying_key();
    let mut next_row = 0u32;
    // Helper processes sharing this transaction (see `launch`).
    let snapshot = Arc::new(snapshot);
    let mut next_k = 0u32;
    let n_steps = tx.steps.len();
    for (n, step) in tx.steps.iter().enumerate() {
        *phase.lock().unwrap() = Phase::Step(n as u8);
        match &tx.end {
            End::ErrorReturn { after } if *after as usize == n => {
                // A failing step inside the transaction, propagated with `?` semantics.
                let r: Result<(), SqliteError> = store.tx(async |_tx| Err(SqliteError::TransactionMissing)).await;
                if r.is_err() {
                    launch(&store, &sh, tag, &tx.helpers, |at| tx.burst_pos(at) == n, &mut next_k, &all_tags, &snapshot).await;
                    note_end(&sh, tag, "error_return");
                    drop(permit);
                    return Ok(());
                }
            }
            End::DropPermit { after } if *after as usize == n => {
                launch(&store, &sh, tag, &tx.helpers, |at| tx.burst_pos(at) == n, &mut next_k, &all_tags, &snapshot).await;
                note_end(&sh, tag, "permit_drop");
                drop(permit);
                return Ok(());
            }
            _ => {}
        }
        launch(&store, &sh, tag, &tx.helpers, |at| tx.burst_pos(at) == n, &mut next_k, &all_tags, &snapshot).await;
        match step {
            Step::Op { yields: y } => {
                yields(*y).await;
                let op = row_op(tag, next_row);
                let r = store
                    .insert_operation(&op.hash, &op, &(tag as u64))
                    .await
                    .map_err(|e| format!("insert_operation in transaction {tag} failed: {e}"))?;
                ensure!(r, "insert_operation of a fresh row in transaction {tag} reported false");
                sh.lock().unwrap().txs.get_mut(&tag).unwrap().ops.push(next_row);
                next_row += 1;
            }
            Step::Assoc { yields: y } => {
                yields(*y).await;
                let j = n as u64;
                let r = <SqliteStore as TopicStore<Topic, VerifyingKey, u64>>::associate(&store, &topic(tag), &vk, &j)
                    .await
                    .map_err(|e| format!("associate in transaction {tag} failed: {e}"))?;
                ensure!(r, "associate of a fresh triple in transaction {tag} reported false");
                sh.lock().unwrap().txs.get_mut(&tag).unwrap().assocs.push(j);
            }
            Step::Cursor { yields: y } => {
                yields(*y).await;
                let v = n as u32;
                <SqliteStore as CursorStore<VerifyingKey, u64>>::set_cursor(&store, &cursor_of(tag, v))
                    .await
                    .map_err(|e| format!("set_cursor in transaction {tag} failed: {e}"))?;
                sh.lock().unwrap().txs.get_mut(&tag).unwrap().cursor = Some(v);
            }
            Step::ReadLatest { about } => {
                let about = all_tags[idx(*about, all_tags.len())];
                let got = <SqliteStore as LogStore<Operation<()>, VerifyingKey, u64, SeqNum, Hash>>::get_latest_entry_tx(
                    &store,
                    &author(about).verifying_key(),
                    &(about as u64),
                )
                .await
                .map_err(|e| format!("get_latest_entry_tx in transaction {tag} failed: {e}"))?;
                let g = sh.lock().unwrap();
                judge_visible(&g, tag, &snapshot, about, got.map(|o| o.header.seq_num))?;
            }
            Step::ReadHas { about, row } => {
                let about = all_tags[idx(*about, all_tags.len())];
                let row = *row as u32 % 4;
                let op = row_op(about, row);
                let has = <SqliteStore as OperationStore<Operation<()>, Hash>>::has_operation_tx(&store, &op.hash)
                    .await
                    .map_err(|e| format!("has_operation_tx in transaction {tag} failed: {e}"))?;
                let g = sh.lock().unwrap();
                let log = g.txs.get(&about).cloned().unwrap_or_default();
                let written = log.ops.contains(&row);
                if about == tag {
                    ensure_eq!(has, written, "transaction {tag} reading its own row {row}");
                } else if snapshot.contains(&about) {
                    ensure_eq!(has, written, "transaction {tag} reading row {row} of transaction {about}, committed before it began");
                } else if has {
                    ensure!(written && log.commit_called, "transaction {tag} sees row {row} of transaction {about} ({}) which never called commit", log.kind);
                }
            }
        }
    }
    *phase.lock().unwrap() = Phase::End;
    launch(&store, &sh, tag, &tx.helpers, |at| tx.burst_pos(at) == n_steps, &mut next_k, &all_tags, &snapshot).await;
    match tx.end {
        End::Commit => {
            note_end(&sh, tag, "commit");
            sh.lock().unwrap().txs.get_mut(&tag).unwrap().commit_called = true;
            store.commit(permit).await.map_err(|e| format!("commit of transaction {tag} failed: {e}"))?;
            sh.lock().unwrap().txs.get_mut(&tag).unwrap().committed = true;
        }
        End::Rollback => {
            note_end(&sh, tag, "rollback");
            store.rollback(permit).await.map_err(|e| format!("rollback of transaction {tag} failed: {e}"))?;
        }
        End::ErrorReturn { .. } | End::DropPermit { .. } => {
            // `after` beyond the last step: the permit is dropped at the end.
            note_end(&sh, tag, if matches!(tx.end, End::DropPermit { .. }) { "permit_drop" } else { "error_return" });
            drop(permit);
        }
    }
    Ok(())
}

async fn writer(store: SqliteStore, sh: Sh, w: usize, txs: Vec<Tx>, all_tags: Arc<Vec<Tag>>, allow_cancel: bool, spare_end: bool, spared: Arc<Mutex<bool>>) {
    for (t, tx) in txs.into_iter().enumerate() {
        let tag = (w * 4 + t) as Tag;
        let cancel = if allow_cancel { tx.cancel.clone() } else { None };
        let phase = Arc::new(Mutex::new(Phase::Idle));
        let fut = run_tx(store.clone(), sh.clone(), tag, tx, all_tags.clone(), phase.clone());
        let outcome = match cancel {
            Some(at) => {
                CancelAt2 {
                    fut: Some(Box::pin(fut)),
                    at,
                    seen: 0,
                    phase,
                    spare_end,
                    spared: spared.clone(),
                    sh: sh.clone(),
                    tag,
                }
                .await
            }
            None => Some(fut.await),
        };
        let mut g = sh.lock().unwrap();
        match outcome {
            Some(Ok(())) => g.txs.get_mut(&tag).unwrap().finished = true,
            Some(Err(e)) => g.errors.push(e),
            None => {
                let l = g.txs.get_mut(&tag).unwrap();
                l.kind = if l.commit_called { "cancelled in commit" } else { "cancelled" };
            }
        }
    }
}

struct Env {
    template: Template,
    base: std::path::PathBuf,
    /// Open finding K-C10 listed: cancellations inside `commit()` / `rollback()` are not generated.
    k_c10_open: bool,
    /// Extra runs of a case in `--replay` mode.
    replay_repeats: u32,
}

async fn drive(env: &Env, case: &Case, dir: &CaseDir, spare_end: bool) -> Result<Shared, String> {
    let store = if case.file_backed {
        env.template.open(dir, "c10", 16).await
    } else {
        SqliteStore::temporary().await
    };
    let sh: Sh = Arc::new(Mutex::new(Shared::default()));
    let mut all_tags: Vec<Tag> = Vec::new();
    for (w, txs) in case.writers.iter().enumerate() {
        for (t, tx) in txs.iter().enumerate() {
            let tag = (w * 4 + t) as Tag;
            all_tags.push(tag);
            sh.lock().unwrap().txs.insert(
                tag,
                TxLog {
                    kind: match (&tx.end, ()) {
                        (End::Commit, _) => "commit",
                        (End::Rollback, _) => "rollback",
                        (End::ErrorReturn { .. }, _) => "error return",
                        (End::DropPermit { .. }, _) => "permit drop",
                    },
                    ..TxLog::default()
                },
            );
        }
    }
    let all_tags = Arc::new(all_tags);

    let order = engine::permutation(&case.start_order, case.writers.len());
    let spared = Arc::new(Mutex::new(false));
    let mut handles = Vec::new();
    for w in order {
        let fut = writer(store.clone(), sh.clone(), w, case.writers[w].clone(), all_tags.clone(), case.file_backed, spare_end, spared.clone());
        handles.push((w, tokio::spawn(fut)));
    }
    for (w, h) in handles {
        if let Err(e) = h.await {
            return Err(format!("writer task {w} did not run to its end: panic: {}", panic_text(e)));
        }
    }
    // Helper calls still finishing (each was started while its transaction was open).
    loop {
        let hs = std::mem::take(&mut sh.lock().unwrap().helper_tasks);
        if hs.is_empty() {
            break;
        }
        for h in hs {
            if let Err(e) = h.await {
                return Err(format!("a helper call sharing a transaction did not run to its end: panic: {}", panic_text(e)));
            }
        }
    }
    {
        let g = sh.lock().unwrap();
        if let Some(e) = g.errors.first() {
            return Err(e.clone());
        }
    }

    // A later transaction can start, write and commit.
    // (In a task of its own, so that a panic inside `begin` is reported with its message.)
    let final_tx = {
        let store = store.clone();
        tokio::spawn(async move {
            let final_tag: Tag = 99;
            let permit = store.begin().await.map_err(|e| format!("final begin failed: {e}"))?;
            let op = row_op(final_tag, 0);
            let r = store
                .insert_operation(&op.hash, &op, &(final_tag as u64))
                .await
                .map_err(|e| format!("final insert failed: {e}"))?;
            ensure!(r, "final insert reported false");
            store.commit(permit).await.map_err(|e| format!("final commit failed: {e}"))?;
            let got: Option<Operation<()>> = store.get_operation(&op.hash).await.map_err(|e| format!("final read failed: {e}"))?;
            ensure!(got.is_some(), "row of the final transaction is missing after its commit");
            Ok::<(), String>(())
        })
    };
    match final_tx.await {
        Ok(r) => r?,
        Err(e) => return Err(format!("a later transaction (after all writers finished) could not run: panic: {}", panic_text(e))),
    }

    // Committed state, read through the pool.
    let mut g = std::mem::take(&mut *sh.lock().unwrap());
    g.spared = *spared.lock().unwrap();
    for (tag, log) in &g.txs {
        let vk = author(*tag).verifying_key();
        let entries = <SqliteStore as LogStore<Operation<()>, VerifyingKey, u64, SeqNum, Hash>>::get_log_entries(&store, &vk, &(*tag as u64), None, None)
            .await
            .map_err(|e| format!("get_log_entries failed: {e}"))?;
        let ops: Vec<u32> = entries.unwrap_or_default().iter().map(|(o, _)| o.header.seq_num).collect();
        let assocs: BTreeSet<u64> = <SqliteStore as TopicStore<Topic, VerifyingKey, u64>>::resolve(&store, &topic(*tag))
            .await
            .map_err(|e| format!("resolve failed: {e}"))?
            .remove(&vk)
            .unwrap_or_default()
            .into_iter()
            .collect();
        let cursor: Option<u32> = <SqliteStore as CursorStore<VerifyingKey, u64>>::get_cursor(&store, format!("c10-{tag}"))
            .await
            .map_err(|e| format!("get_cursor failed: {e}"))?
            .and_then(|c| c.log_height(&vk, &(*tag as u64)).copied());
        // Rows written by helper processes sharing the transaction.
        let h_entries = <SqliteStore as LogStore<Operation<()>, VerifyingKey, u64, SeqNum, Hash>>::get_log_entries(&store, &vk, &helper_log(*tag), None, None)
            .await
            .map_err(|e| format!("get_log_entries failed: {e}"))?;
        let h_ops: BTreeSet<u32> = h_entries.unwrap_or_default().iter().map(|(o, _)| o.header.seq_num).collect();
        let want_h_ops: BTreeSet<u32> = log.h_ops.iter().copied().collect();
        let maybe_h_ops: BTreeSet<u32> = log.h_maybe_ops.iter().copied().collect();
        let want_assocs: BTreeSet<u64> = log.assocs.iter().copied().collect();
        let maybe_assocs: BTreeSet<u64> = log.h_maybe_assocs.iter().copied().collect();
        let nothing = ops.is_empty() && assocs.is_empty() && cursor.is_none() && h_ops.is_empty();
        // (`maybe` sets are empty unless a helper call returned an error.)
        let everything = ops == log.ops
            && cursor == log.cursor
            && assocs.is_superset(&want_assocs)
            && assocs.difference(&want_assocs).all(|j| maybe_assocs.contains(j))
            && h_ops.is_superset(&want_h_ops)
            && h_ops.difference(&want_h_ops).all(|j| maybe_h_ops.contains(j));
        let state = format!(
            "stored rows: ops {ops:?} assocs {assocs:?} cursor {cursor:?} rows of sharing processes {h_ops:?}; written inside the transaction: ops {:?} assocs {:?} cursor {:?} rows of sharing processes {want_h_ops:?}",
            log.ops, log.assocs, log.cursor
        );
        if log.committed {
            ensure!(everything, "transaction {tag} committed (commit returned Ok) but its rows are not exactly present: {state}");
        } else if log.commit_called {
            ensure!(nothing || everything, "transaction {tag} was cancelled while committing and is partially present: {state}");
        } else {
            ensure!(nothing, "transaction {tag} ({}) never committed but left a trace: {state}", log.kind);
        }
    }
    store.pool().close().await;
    Ok(g)
}

fn check(env: &Env, case: &Case) -> CaseResult {
    let mut last = check_inner(env, case, env.k_c10_open);
    // sqlx gives up acquiring a pooled connection after 30 s of wall-clock time. That is how a
    // genuine "later transaction can never start" shows up, but also how a starved machine shows
    // up (seen once in ~34 000 multi-thread cases, never reproduced). A wall-clock effect must not
    // decide the verdict: the case is re-run and only a timeout that reproduces twice is reported.
    let mut retries = 0;
    while retries < 2 && matches!(&last, Err(e) if e.contains("pool timed out")) {
        retries += 1;
        last = check_inner(env, case, env.k_c10_open);
    }
    if retries > 0 {
        if let Ok(ok) = last {
            return Ok(ok.label("pool_timeout_not_reproduced"));
        }
    }
    // Whether a cancellation collides with the SQLite worker is timing-dependent; an explicit
    // `--replay` therefore runs the saved case repeatedly and reports the first failure.
    for _ in 0..env.replay_repeats {
        if last.is_err() {
            break;
        }
        last = check_inner(env, case, env.k_c10_open);
    }
    last
}

fn check_inner(env: &Env, case: &Case, spare_end: bool) -> CaseResult {
    let dir = CaseDir::new(&env.base);
    let rt = if case.multi_thread {
        tokio::runtime::Builder::new_multi_thread().worker_threads(3).enable_all().build().expect("runtime")
    } else {
        fx::runtime()
    };
    let r = rt.block_on(drive(env, case, &dir, spare_end));
    drop(rt);
    drop(dir);
    let g = r?;
    let kinds: BTreeSet<&'static str> = g.txs.values().filter(|l| l.begun).map(|l| l.kind).collect();
    let committed = g.txs.values().any(|l| l.committed);
    let aborted = g.txs.values().any(|l| l.begun && !l.committed && (!l.ops.is_empty() || !l.assocs.is_empty() || l.cursor.is_some() || !l.h_ops.is_empty()));
    let in_flight: BTreeSet<&'static str> = g.txs.values().flat_map(|l| l.h_in_flight_at.iter().copied()).collect();
    let helpers = g.txs.values().any(|l| l.h_launched > 0);
    let helper_errors = g.txs.values().any(|l| l.h_errors > 0);
    // A transaction that ended without commit while calls of sharing processes were in flight,
    // followed by a committed one? (`txs` is not ordered in time; the final transaction always
    // follows, so any such abort is followed by a begin.)
    let aborted_with_helpers_in_flight = g.txs.values().any(|l| !l.committed && !l.h_in_flight_at.is_empty());
    let ok = CaseOk::nontrivial(case.writers.len() >= 2 && committed && aborted && g.overlapped)
        .label_if(g.overlapped, "overlapping_writers")
        .label_if(kinds.contains("commit"), "commit")
        .label_if(kinds.contains("rollback"), "rollback")
        .label_if(kinds.contains("error return"), "error_return")
        .label_if(kinds.contains("permit drop"), "permit_drop")
        .label_if(kinds.contains("cancelled"), "cancelled")
        .label_if(kinds.contains("cancelled in commit"), "cancelled_in_commit")
        .label_if(aborted, "aborted_with_writes")
        .label_if(helpers, "shared_tx_helpers")
        .label_if(in_flight.contains("commit"), "helper_in_flight_at_commit")
        .label_if(in_flight.contains("rollback"), "helper_in_flight_at_rollback")
        .label_if(in_flight.contains("error_return"), "helper_in_flight_at_error_return")
        .label_if(in_flight.contains("permit_drop"), "helper_in_flight_at_permit_drop")
        .label_if(in_flight.contains("cancel"), "helper_in_flight_at_cancel")
        .label_if(aborted_with_helpers_in_flight, "aborted_with_helper_in_flight")
        .label_if(helper_errors, "helper_call_error")
        .label_if(case.file_backed, "file_backed")
        .label_if(!case.file_backed, "in_memory_one_connection")
        .label_if(case.multi_thread, "multi_thread_runtime");
    Ok(if g.spared { ok.excluded() } else { ok })
}

fn tx() -> impl Strategy<Value = Tx> {
    let step = prop_oneof![
        5 => (0u8..3).prop_map(|yields| Step::Op { yields }),
        2 => (0u8..3).prop_map(|yields| Step::Assoc { yields }),
        1 => (0u8..3).prop_map(|yields| Step::Cursor { yields }),
        2 => any::<u16>().prop_map(|about| Step::ReadLatest { about }),
        1 => (any::<u16>(), 0u8..4).prop_map(|(about, row)| Step::ReadHas { about, row }),
    ];
    let end = prop_oneof![
        4 => Just(End::Commit),
        2 => Just(End::Rollback),
        2 => (0u8..5).prop_map(|after| End::ErrorReturn { after }),
        2 => (0u8..5).prop_map(|after| End::DropPermit { after }),
    ];
    let phase = prop_oneof![
        2 => Just(Phase::Begin),
        4 => (0u8..6).prop_map(Phase::Step),
        4 => Just(Phase::End),
    ];
    let cancel = (phase, 1u8..=3).prop_map(|(phase, nth)| CancelAt { phase, nth });
    let hcall = prop_oneof![
        4 => Just(HelperCall::Op),
        2 => Just(HelperCall::Assoc),
        2 => any::<u16>().prop_map(|about| HelperCall::ReadLatest { about }),
    ];
    // 40 % of the bursts sit at the end of the transaction (commit / rollback / drop), 20 % where
    // the cancellation aims, the others before a step (0–5 steps; an index beyond the last step
    // also means "at the end").
    let burst = (prop_oneof![2 => Just(u8::MAX), 1 => Just(AT_CANCEL), 2 => 0u8..6], prop::collection::vec(hcall, 1..=3)).prop_map(|(at, calls)| Burst { at, calls });
    let helpers = prop_oneof![
        2 => Just(Vec::new()),
        3 => prop::collection::vec(burst, 1..=3),
    ];
    (0u8..4, prop::collection::vec(step, 0..6), end, prop::option::weighted(0.3, cancel), helpers).prop_map(|(pre_yields, steps, end, cancel, helpers)| Tx {
        pre_yields,
        steps,
        end,
        cancel,
        helpers,
    })
}

fn case(multi_thread: bool, file_backed: Option<bool>) -> impl Strategy<Value = Case> {
    (2usize..=5).prop_flat_map(move |n| {
        (
            match file_backed {
                Some(f) => Just(f).boxed(),
                None => prop::bool::weighted(0.7).boxed(),
            },
            prop::collection::vec(prop::collection::vec(tx(), 1..=4), n),
            prop::collection::vec(any::<u16>(), n),
        )
            .prop_map(move |(file_backed, writers, start_order)| Case {
                file_backed,
                multi_thread,
                writers,
                start_order,
            })
    })
}

/// Probe for K-C10: a transaction future dropped while suspended inside `commit()`, followed by a
/// transaction that reads and then writes. The collision needs the SQLite worker of the first
/// connection to be still busy, so a number of attempts are made.
fn probe(env: &Env) -> (bool, String) {
    let tx_cancelled = Tx {
        pre_yields: 0,
        steps: vec![Step::Op { yields: 0 }, Step::Op { yields: 0 }],
        end: End::Commit,
        cancel: Some(CancelAt { phase: Phase::End, nth: 1 }),
        helpers: Vec::new(),
    };
    let tx_after = Tx {
        pre_yields: 0,
        steps: vec![Step::ReadLatest { about: 0 }, Step::Op { yields: 0 }],
        end: End::Commit,
        cancel: None,
        helpers: Vec::new(),
    };
    let case = Case {
        file_backed: true,
        multi_thread: false,
        writers: vec![vec![tx_cancelled.clone(), tx_after.clone(), tx_cancelled.clone(), tx_after.clone()], vec![tx_after.clone(), tx_cancelled, tx_after]],
        start_order: vec![0, 1],
    };
    let mut last = String::from("no attempt failed");
    for attempt in 1..=40 {
        match check_inner(env, &case, false) {
            Err(e) => {
                return (true, format!("attempt {attempt}: transaction dropped inside commit(), then: {e}"));
            }
            Ok(_) => last = format!("{attempt} attempts with a transaction dropped inside commit() did not disturb the following transactions (timing-dependent)"),
        }
    }
    (false, last)
}

pub fn run(mut ctx: Ctx) -> ! {
    let _wd = Watchdog::arm("C10 (SQLite worker threads)", std::time::Duration::from_secs(ctx.pick(600, 3600)));
    let base = ctx.tmp_dir();
    let env = Env {
        template: Template::build(&base),
        base: base.clone(),
        k_c10_open: ctx.is_open("K-C10"),
        replay_repeats: if ctx.replay.is_some() { 40 } else { 0 },
    };
    if env.k_c10_open && ctx.replay.is_none() {
        let (reproduced, detail) = probe(&env);
        ctx.known_finding("K-C10", reproduced, &detail);
    }
    ctx.assume("whole-future cancellation only on the file-backed store: on the one-connection in-memory store sqlx closes the interrupted connection, which drops the database (fixture artefact, DESIGN.md B4)");
    ctx.assume("a transaction cancelled while commit() is in flight may be committed or not, but never partially");
    ctx.run_prop(
        Part::new(
            "writers_file_backed",
            "2-5 writer tasks x 1-4 transactions x 0-5 steps (tagged insert_operation / associate / set_cursor, in-transaction reads about any transaction) ending in commit / rollback / failing step + early return / permit drop after j steps / cancellation of the whole future at a generated await point (nth suspension in begin / step k / commit-or-rollback); ~60 % of the transactions are shared with helper processes (1-3 bursts of 1-3 calls insert_operation / associate / get_latest_entry_tx, each polled once - holding or queued on the transaction mutex - right before a writer step or right before the commit / rollback / permit drop / early return, finishing in tasks of their own), on a file-backed store (16 connections), current-thread runtime, generated start order and yields; non-trivial = at least two writers overlapped in time (one asked for a transaction while another held or awaited one), one transaction committed and one that had written rows was aborted",
            600,
            6_000,
        )
        .min_nontrivial(0.3),
        || case(false, Some(true)),
        |c| check(&env, c),
    );
    // Later parts are skipped once a violation was found: on a broken tree the one-connection
    // store can deadlock (begin waits for the only connection while holding the slot mutex the
    // stale transaction's rollback needs), which only the watchdog would end.
    if ctx.violations() == 0 {
        ctx.run_prop(
            Part::new(
                "writers_in_memory",
                "same histories without whole-future cancellation on the one-connection in-memory store (every statement of every writer shares one connection); non-trivial as above",
                200,
                2_000,
            )
            .min_nontrivial(0.3),
            || case(false, Some(false)),
            |c| check(&env, c),
        );
    }
    // Generates cases in the thorough tier only (0 quick cases); saved replays of this part run in
    // every tier.
    if ctx.violations() == 0 {
        ctx.run_prop(
            Part::new(
                "writers_multi_thread",
                "same histories on a multi-thread runtime (3 worker threads): interleavings are sampled by the OS scheduler; the oracle only uses facts recorded before/after each store call, so it is timing-independent",
                0,
                2_000,
            )
            .min_nontrivial(0.2)
            .workers(1, 8),
            || case(true, None),
            |c| check(&env, c),
        );
    }
    drop(env);
    let _ = std::fs::remove_dir_all(&base);
    ctx.finish()
}
