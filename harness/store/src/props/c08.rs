//! C08 Log store queries agree with a reference model and never panic.
//!
//! A generated command sequence (inserts in and out of order, with and without body, duplicate
//! ids, the same operation under another log id, deletes, payload deletions, prunes) is applied
//! to a `SqliteStore` and, in lock-step, to a plain in-memory model (`BTreeMap<Hash, Stored>`).
//! After every command a generated batch of queries is answered by both and compared
//! result-for-result: `None` vs `Some`, order, header bytes, body presence, counts and byte sums.
//! Every store call runs under `catch_unwind`: a panic is a violation.
//!
//! Mirrored (documented / observed) oddities, none of them flagged:
//! * `get_log_heights` returns `None` when no requested log has an entry, otherwise only the logs
//!   that have one ("Returns None when the author or a log ... was not found"); duplicates in the
//!   requested list do not matter; the empty list therefore gives `None`.
//! * `get_log_entries` gives `None` for an empty selection, `get_log_size` gives `Some((0, 0))`.
//! * the size of a log counts the *claimed* payload size of every stored header, also after the
//!   payload was deleted (column semantics of `payload_size`).
//! * `after` is exclusive (`None` = from the start), `until` is inclusive (`None` = to the end),
//!   `prune_entries(until)` removes `seq_num < until`.
//!
//! Domain restrictions (implicit preconditions of every caller): one operation per
//! (author, log, seq_num) – ingest never stores forks – and claimed payload size == body length.

use std::collections::{BTreeMap, BTreeSet};
use std::panic::AssertUnwindSafe;

use engine::proptest::prelude::*;
use engine::{CaseOk, CaseResult, Ctx, Part, ensure, ensure_eq, idx};
use futures_util::FutureExt;
use p2panda_core::{Extensions, Hash, Operation, SeqNum, VerifyingKey};
use p2panda_store::logs::LogStore;
use p2panda_store::operations::OperationStore;
use p2panda_store::{SqliteStore, Transaction};
use serde::{Deserialize, Serialize};

use crate::fx;

const AUTHORS: u8 = 4; // 0..=2 write, 3 never writes (unknown author)
const LOGS: u8 = 4; // 0..=2 are written to, 3 never (unknown log)

/// Extension types of the stored operations.
pub trait MkExt: Extensions + PartialEq {
    fn mk(seed: u32) -> Self;
}

impl MkExt for () {
    fn mk(_: u32) -> Self {}
}

#[derive(Clone, Debug, PartialEq, Serialize, Deserialize)]
pub struct Tagged {
    tag: u32,
    note: String,
}

impl MkExt for Tagged {
    fn mk(seed: u32) -> Self {
        Tagged {
            tag: seed,
            note: "x".repeat((seed % 5) as usize),
        }
    }
}

#[derive(Clone, Debug, Serialize, Deserialize)]
enum SeqSel {
    /// Next free sequence number of the log (model height + 1, or 0).
    Next,
    /// Small absolute number (out of order, gaps, re-insert of an existing position).
    Small(u8),
    /// Near the top of the domain.
    Top(u8),
}

#[derive(Clone, Debug, Serialize, Deserialize)]
enum PruneSel {
    Zero,
    /// Relative to an existing entry of the log (picked), plus delta in -1..=1.
    Around(u16, i8),
    /// height + 1 (everything)
    AboveHeight,
    Max,
}

#[derive(Clone, Debug, Serialize, Deserialize)]
enum Cmd {
    Insert {
        author: u8,
        log: u8,
        seq: SeqSel,
        with_body: bool,
        commit: bool,
    },
    /// Insert an operation that is (or was) stored again, possibly under another log id.
    Reinsert { pick: u16, other_log: Option<u8>, with_body: bool },
    Delete { pick: u16, commit: bool },
    DeletePayload { pick: u16 },
    Prune { author: u8, log: u8, until: PruneSel },
}

#[derive(Clone, Debug, Serialize, Deserialize)]
enum Bound {
    None,
    Zero,
    Around(u16, i8),
    Max,
    Abs(u32),
}

#[derive(Clone, Debug, Serialize, Deserialize)]
enum Query {
    Latest { author: u8, log: u8, tx: bool },
    Heights { author: u8, logs: Vec<u8> },
    Entries { author: u8, log: u8, after: Bound, until: Bound },
    Size { author: u8, log: u8, after: Bound, until: Bound },
}

#[derive(Clone, Debug, Serialize, Deserialize)]
struct Step {
    cmd: Cmd,
    queries: Vec<Query>,
}

#[derive(Clone, Debug, Serialize, Deserialize)]
struct Case {
    tagged_ext: bool,
    steps: Vec<Step>,
}

#[derive(Clone, Debug)]
struct Stored<E> {
    author: u8,
    log: u8,
    op: Operation<E>,
    body_present: bool,
}

struct Model<E> {
    ops: BTreeMap<Hash, Stored<E>>,
    /// Every operation ever built, by (author, log, seq): deterministic, so re-building gives the
    /// same operation (same id).
    known: Vec<(u8, u8, SeqNum)>,
}

impl<E: MkExt> Model<E> {
    fn log(&self, author: u8, log: u8) -> BTreeMap<SeqNum, &Stored<E>> {
        self.ops
            .values()
            .filter(|s| s.author == author && s.log == log)
            .map(|s| (s.op.header.seq_num, s))
            .collect()
    }

    fn range(&self, author: u8, log: u8, after: Option<SeqNum>, until: Option<SeqNum>) -> Vec<&Stored<E>> {
        self.log(author, log)
            .into_iter()
            .filter(|(seq, _)| match after {
                None => true,
                Some(a) => *seq > a,
            })
            .filter(|(seq, _)| match until {
                None => true,
                Some(u) => *seq <= u,
            })
            .map(|(_, s)| s)
            .collect()
    }
}

/// The one operation of (author, log, seq): body and backlink are functions of the position.
fn build_op<E: MkExt>(author: u8, log: u8, seq: SeqNum, body_len: u8, with_body: bool) -> Operation<E> {
    let sk = fx::key(author);
    let body: Vec<u8> = (0..body_len as usize).map(|i| (i as u8) ^ log.wrapping_mul(17) ^ (seq as u8)).collect();
    let backlink = if seq == 0 {
        None
    } else {
        Some(Hash::digest([author, log, (seq - 1) as u8, 0xb1]))
    };
    fx::make_op(&sk, seq, backlink, &body, with_body, E::mk(seq ^ ((log as u32) << 8)))
}

fn body_len_of(author: u8, log: u8, seq: SeqNum) -> u8 {
    // Fixed per position so that re-building a position always yields the same operation. The
    // log id is part of the body bytes, so the same (author, seq) in two logs differs.
    1 + ((author as u32 * 7 + log as u32 * 3 + seq % 11) % 23) as u8
}

fn resolve_bound<E: MkExt>(b: &Bound, model: &Model<E>, author: u8, log: u8) -> (Option<SeqNum>, bool) {
    match b {
        Bound::None => (None, false),
        Bound::Zero => (Some(0), true),
        Bound::Max => (Some(SeqNum::MAX), true),
        Bound::Abs(v) => (Some(*v), false),
        Bound::Around(pick, delta) => {
            let seqs: Vec<SeqNum> = model.log(author, log).keys().copied().collect();
            if seqs.is_empty() {
                (Some((*delta).max(0) as u32), false)
            } else {
                let base = seqs[idx(*pick, seqs.len())] as i64;
                let v = (base + *delta as i64).clamp(0, SeqNum::MAX as i64) as u32;
                (Some(v), true)
            }
        }
    }
}

async fn guarded<T>(what: &str, fut: impl Future<Output = T>) -> Result<T, String> {
    AssertUnwindSafe(fut).catch_unwind().await.map_err(|e| {
        let msg = if let Some(s) = e.downcast_ref::<&str>() {
            s.to_string()
        } else if let Some(s) = e.downcast_ref::<String>() {
            s.clone()
        } else {
            "<non-string payload>".to_string()
        };
        format!("{what} panicked: {msg}")
    })
}

fn same_op<E: MkExt>(what: &str, got: &Operation<E>, want: &Stored<E>) -> Result<(), String> {
    ensure_eq!(got.hash, want.op.hash, "{what}: operation id differs");
    ensure!(got.header == want.op.header, "{what}: header differs: got {:?} want {:?}", got.header, want.op.header);
    let want_body = if want.body_present { want.op.body.clone() } else { None };
    ensure!(
        got.body == want_body,
        "{what}: body differs: got {:?} want {:?}",
        got.body.as_ref().map(|b| b.to_bytes()),
        want_body.as_ref().map(|b| b.to_bytes())
    );
    Ok(())
}

#[derive(Default)]
struct Flags {
    removed_something: bool,
    boundary_after_removal: bool,
    empty_heights: bool,
    inverted_range: bool,
    dup_insert: bool,
    foreign_log_reinsert: bool,
    payload_deleted_size: bool,
    out_of_order: bool,
    rollback: bool,
}

async fn run_query<E: MkExt>(store: &SqliteStore, model: &Model<E>, q: &Query, flags: &mut Flags) -> Result<(), String> {
    type L = u64;
    match q {
        Query::Latest { author, log, tx } => {
            let vk = fx::key(*author).verifying_key();
            let got: Option<Operation<E>> = if *tx {
                let permit = store.begin().await.map_err(|e| fx::err_str("begin", e))?;
                let r = guarded(
                    "get_latest_entry_tx",
                    <SqliteStore as LogStore<Operation<E>, VerifyingKey, L, SeqNum, Hash>>::get_latest_entry_tx(store, &vk, &(*log as L)),
                )
                .await?;
                store.commit(permit).await.map_err(|e| fx::err_str("commit", e))?;
                r.map_err(|e| fx::err_str("get_latest_entry_tx", e))?
            } else {
                guarded(
                    "get_latest_entry",
                    <SqliteStore as LogStore<Operation<E>, VerifyingKey, L, SeqNum, Hash>>::get_latest_entry(store, &vk, &(*log as L)),
                )
                .await?
                .map_err(|e| fx::err_str("get_latest_entry", e))?
            };
            let want = model.log(*author, *log).into_iter().next_back().map(|(_, s)| s);
            match (got, want) {
                (None, None) => {}
                (Some(g), Some(w)) => same_op(&format!("latest entry of ({author},{log})"), &g, w)?,
                (g, w) => {
                    return Err(format!(
                        "latest entry of ({author},{log}): store says seq {:?}, model says seq {:?}",
                        g.map(|o| o.header.seq_num),
                        w.map(|s| s.op.header.seq_num)
                    ));
                }
            }
        }
        Query::Heights { author, logs } => {
            let vk = fx::key(*author).verifying_key();
            let ids: Vec<L> = logs.iter().map(|l| *l as L).collect();
            if ids.is_empty() {
                flags.empty_heights = true;
            }
            let got = guarded(
                &format!("get_log_heights(author {author}, logs {ids:?})"),
                <SqliteStore as LogStore<Operation<E>, VerifyingKey, L, SeqNum, Hash>>::get_log_heights(store, &vk, &ids),
            )
            .await?
            .map_err(|e| fx::err_str("get_log_heights", e))?;
            let mut want: BTreeMap<L, SeqNum> = BTreeMap::new();
            for l in logs.iter().collect::<BTreeSet<_>>() {
                if let Some((seq, _)) = model.log(*author, *l).into_iter().next_back() {
                    want.insert(*l as L, seq);
                }
            }
            let want = if want.is_empty() { None } else { Some(want) };
            ensure_eq!(got, want, "get_log_heights(author {author}, logs {logs:?}) differs from the model");
        }
        Query::Entries { author, log, after, until } | Query::Size { author, log, after, until } => {
            let vk = fx::key(*author).verifying_key();
            let (a, a_boundary) = resolve_bound(after, model, *author, *log);
            let (u, u_boundary) = resolve_bound(until, model, *author, *log);
            if let (Some(a), Some(u)) = (a, u) {
                if a >= u {
                    flags.inverted_range = true;
                }
            }
            if flags.removed_something && (a_boundary || u_boundary) {
                flags.boundary_after_removal = true;
            }
            let want = model.range(*author, *log, a, u);
            if matches!(q, Query::Entries { .. }) {
                let got = guarded(
                    "get_log_entries",
                    <SqliteStore as LogStore<Operation<E>, VerifyingKey, L, SeqNum, Hash>>::get_log_entries(store, &vk, &(*log as L), a, u),
                )
                .await?
                .map_err(|e| fx::err_str("get_log_entries", e))?;
                let what = format!("get_log_entries(({author},{log}), after {a:?}, until {u:?})");
                match got {
                    None => ensure!(
                        want.is_empty(),
                        "{what}: store says None, model has seqs {:?}",
                        want.iter().map(|s| s.op.header.seq_num).collect::<Vec<_>>()
                    ),
                    Some(entries) => {
                        ensure!(!want.is_empty(), "{what}: store returned {} entries, model none", entries.len());
                        let got_seqs: Vec<SeqNum> = entries.iter().map(|(o, _)| o.header.seq_num).collect();
                        let want_seqs: Vec<SeqNum> = want.iter().map(|s| s.op.header.seq_num).collect();
                        ensure_eq!(got_seqs, want_seqs, "{what}: sequence numbers / order differ");
                        for ((op, bytes), w) in entries.iter().zip(want.iter()) {
                            same_op(&what, op, w)?;
                            ensure_eq!(*bytes, w.op.header.to_bytes(), "{what}: header bytes of seq {} differ", op.header.seq_num);
                        }
                    }
                }
            } else {
                let got = guarded(
                    "get_log_size",
                    <SqliteStore as LogStore<Operation<E>, VerifyingKey, L, SeqNum, Hash>>::get_log_size(store, &vk, &(*log as L), a, u),
                )
                .await?
                .map_err(|e| fx::err_str("get_log_size", e))?;
                let count = want.len() as u32;
                let bytes: u32 = want.iter().map(|s| s.op.header.to_bytes().len() as u32 + s.op.header.payload_size).sum();
                if want.iter().any(|s| !s.body_present && s.op.header.payload_size > 0) {
                    flags.payload_deleted_size = true;
                }
                ensure_eq!(
                    got,
                    Some((count, bytes)),
                    "get_log_size(({author},{log}), after {a:?}, until {u:?}) differs from the model (count, header+claimed payload bytes)"
                );
            }
        }
    }
    Ok(())
}

async fn insert<E: MkExt>(store: &SqliteStore, op: &Operation<E>, log: u8, commit: bool) -> Result<bool, String> {
    let permit = store.begin().await.map_err(|e| fx::err_str("begin", e))?;
    let r = guarded("insert_operation", store.insert_operation(&op.hash, op, &(log as u64))).await?;
    if commit {
        store.commit(permit).await.map_err(|e| fx::err_str("commit", e))?;
    } else {
        store.rollback(permit).await.map_err(|e| fx::err_str("rollback", e))?;
    }
    r.map_err(|e| fx::err_str("insert_operation", e))
}

async fn run_steps<E: MkExt>(case: &Case) -> CaseResult {
    let store = SqliteStore::temporary().await;
    let mut model: Model<E> = Model {
        ops: BTreeMap::new(),
        known: Vec::new(),
    };
    let mut flags = Flags::default();

    for (n, step) in case.steps.iter().enumerate() {
        let r: Result<(), String> = async {
            apply_cmd(&store, &mut model, &mut flags, &step.cmd).await?;
            for q in &step.queries {
                run_query(&store, &model, q, &mut flags).await?;
            }
            Ok(())
        }
        .await;
        if let Err(e) = r {
            return Err(format!("step {n} ({:?}): {e}", step.cmd));
        }
    }
    store.pool().close().await;
    Ok(classify(case, &flags))
}

async fn apply_cmd<E: MkExt>(store: &SqliteStore, model: &mut Model<E>, flags: &mut Flags, cmd: &Cmd) -> Result<(), String> {
    {
        {
            match cmd {
                Cmd::Insert {
                    author,
                    log,
                    seq,
                    with_body,
                    commit,
                } => {
                    let height = model.log(*author, *log).keys().next_back().copied();
                    let seq_num: SeqNum = match seq {
                        SeqSel::Next => height.map(|h| h.saturating_add(1)).unwrap_or(0),
                        SeqSel::Small(s) => *s as u32,
                        SeqSel::Top(d) => SeqNum::MAX - *d as u32,
                    };
                    if let Some(h) = height {
                        if seq_num < h {
                            flags.out_of_order = true;
                        }
                    }
                    let op: Operation<E> = build_op(*author, *log, seq_num, body_len_of(*author, *log, seq_num), *with_body);
                    if !model.known.contains(&(*author, *log, seq_num)) {
                        model.known.push((*author, *log, seq_num));
                    }
                    let inserted = insert(&store, &op, *log, *commit).await?;
                    let fresh = !model.ops.contains_key(&op.hash);
                    if !fresh {
                        flags.dup_insert = true;
                    }
                    ensure_eq!(inserted, fresh, "insert_operation({author},{log},seq {seq_num}) return value");
                    if !*commit {
                        flags.rollback = true;
                    }
                    if fresh && *commit {
                        model.ops.insert(
                            op.hash,
                            Stored {
                                author: *author,
                                log: *log,
                                body_present: op.body.is_some(),
                                op,
                            },
                        );
                    }
                }
                Cmd::Reinsert { pick, other_log, with_body } => {
                    if model.known.is_empty() {
                        return Ok(());
                    }
                    let (author, log, seq_num) = model.known[idx(*pick, model.known.len())];
                    let op: Operation<E> = build_op(author, log, seq_num, body_len_of(author, log, seq_num), *with_body);
                    let stored = model.ops.contains_key(&op.hash);
                    // Under another log id only while the operation is stored (then the insert must
                    // be ignored); a fresh insert under a foreign log id would move the operation,
                    // which no caller does.
                    let target_log = match other_log {
                        Some(l) if stored && *l != log => {
                            flags.foreign_log_reinsert = true;
                            *l
                        }
                        _ => log,
                    };
                    let inserted = insert(&store, &op, target_log, true).await?;
                    if stored {
                        flags.dup_insert = true;
                    }
                    ensure_eq!(inserted, !stored, "re-insert of ({author},{log},seq {seq_num}) under log {target_log} return value");
                    if !stored {
                        model.ops.insert(
                            op.hash,
                            Stored {
                                author,
                                log,
                                body_present: op.body.is_some(),
                                op,
                            },
                        );
                    }
                }
                Cmd::Delete { pick, commit } => {
                    if model.known.is_empty() {
                        return Ok(());
                    }
                    let (author, log, seq_num) = model.known[idx(*pick, model.known.len())];
                    let op: Operation<E> = build_op(author, log, seq_num, body_len_of(author, log, seq_num), true);
                    let permit = store.begin().await.map_err(|e| fx::err_str("begin", e))?;
                    let r = guarded(
                        "delete_operation",
                        <SqliteStore as OperationStore<Operation<E>, Hash>>::delete_operation(&store, &op.hash),
                    )
                    .await?;
                    if *commit {
                        store.commit(permit).await.map_err(|e| fx::err_str("commit", e))?;
                    } else {
                        flags.rollback = true;
                        store.rollback(permit).await.map_err(|e| fx::err_str("rollback", e))?;
                    }
                    let deleted = r.map_err(|e| fx::err_str("delete_operation", e))?;
                    let stored = model.ops.contains_key(&op.hash);
                    ensure_eq!(deleted, stored, "delete_operation({author},{log},seq {seq_num}) return value");
                    if stored && *commit {
                        model.ops.remove(&op.hash);
                        flags.removed_something = true;
                    }
                }
                Cmd::DeletePayload { pick } => {
                    if model.known.is_empty() {
                        return Ok(());
                    }
                    let (author, log, seq_num) = model.known[idx(*pick, model.known.len())];
                    let op: Operation<E> = build_op(author, log, seq_num, body_len_of(author, log, seq_num), true);
                    let r = guarded(
                        "delete_operation_payload",
                        <SqliteStore as OperationStore<Operation<E>, Hash>>::delete_operation_payload(&store, &op.hash),
                    )
                    .await?
                    .map_err(|e| fx::err_str("delete_operation_payload", e))?;
                    let stored = model.ops.contains_key(&op.hash);
                    ensure_eq!(r, stored, "delete_operation_payload({author},{log},seq {seq_num}) return value");
                    if let Some(s) = model.ops.get_mut(&op.hash) {
                        s.body_present = false;
                        flags.removed_something = true;
                    }
                }
                Cmd::Prune { author, log, until } => {
                    let seqs: Vec<SeqNum> = model.log(*author, *log).keys().copied().collect();
                    let until: SeqNum = match until {
                        PruneSel::Zero => 0,
                        PruneSel::Max => SeqNum::MAX,
                        PruneSel::AboveHeight => seqs.last().map(|h| h.saturating_add(1)).unwrap_or(1),
                        PruneSel::Around(pick, delta) => {
                            if seqs.is_empty() {
                                (*delta).max(0) as u32
                            } else {
                                (seqs[idx(*pick, seqs.len())] as i64 + *delta as i64).clamp(0, SeqNum::MAX as i64) as u32
                            }
                        }
                    };
                    let vk = fx::key(*author).verifying_key();
                    let removed = guarded(
                        "prune_entries",
                        <SqliteStore as LogStore<Operation<E>, VerifyingKey, u64, SeqNum, Hash>>::prune_entries(&store, &vk, &(*log as u64), &until),
                    )
                    .await?
                    .map_err(|e| fx::err_str("prune_entries", e))?;
                    let doomed: Vec<Hash> = model
                        .ops
                        .values()
                        .filter(|s| s.author == *author && s.log == *log && s.op.header.seq_num < until)
                        .map(|s| s.op.hash)
                        .collect();
                    ensure_eq!(removed, doomed.len() as u64, "prune_entries(({author},{log}), until {until}) number of removed entries");
                    if !doomed.is_empty() {
                        flags.removed_something = true;
                    }
                    for h in doomed {
                        model.ops.remove(&h);
                    }
                }
            }
        }
    }
    Ok(())
}

fn classify(case: &Case, flags: &Flags) -> CaseOk {
    CaseOk::nontrivial(flags.boundary_after_removal)
        .label_if(flags.removed_something, "removed_something")
        .label_if(flags.boundary_after_removal, "boundary_query_after_removal")
        .label_if(flags.empty_heights, "heights_empty_list")
        .label_if(flags.inverted_range, "empty_or_inverted_range")
        .label_if(flags.dup_insert, "duplicate_insert")
        .label_if(flags.foreign_log_reinsert, "reinsert_under_other_log")
        .label_if(flags.payload_deleted_size, "size_over_deleted_payload")
        .label_if(flags.out_of_order, "out_of_order_insert")
        .label_if(flags.rollback, "rolled_back_write")
        .label_if(case.tagged_ext, "struct_extension")
}

fn check(case: &Case) -> CaseResult {
    let rt = fx::runtime();
    let r = if case.tagged_ext {
        rt.block_on(run_steps::<Tagged>(case))
    } else {
        rt.block_on(run_steps::<()>(case))
    };
    drop(rt);
    r
}

fn bound() -> impl Strategy<Value = Bound> {
    prop_oneof![
        3 => Just(Bound::None),
        2 => Just(Bound::Zero),
        6 => (any::<u16>(), -1i8..=1).prop_map(|(p, d)| Bound::Around(p, d)),
        2 => Just(Bound::Max),
        2 => (0u32..12).prop_map(Bound::Abs),
        1 => any::<u32>().prop_map(Bound::Abs),
    ]
}

fn query() -> impl Strategy<Value = Query> {
    let a = 0u8..AUTHORS;
    let l = 0u8..LOGS;
    prop_oneof![
        2 => (a.clone(), l.clone(), any::<bool>()).prop_map(|(author, log, tx)| Query::Latest { author, log, tx }),
        3 => (a.clone(), prop::collection::vec(0u8..LOGS + 1, 0..5)).prop_map(|(author, logs)| Query::Heights { author, logs }),
        4 => (a.clone(), l.clone(), bound(), bound()).prop_map(|(author, log, after, until)| Query::Entries { author, log, after, until }),
        4 => (a, l, bound(), bound()).prop_map(|(author, log, after, until)| Query::Size { author, log, after, until }),
    ]
}

fn cmd() -> impl Strategy<Value = Cmd> {
    let seq = prop_oneof![
        5 => Just(SeqSel::Next),
        4 => (0u8..9).prop_map(SeqSel::Small),
        1 => (0u8..3).prop_map(SeqSel::Top),
    ];
    let prune = prop_oneof![
        1 => Just(PruneSel::Zero),
        5 => (any::<u16>(), -1i8..=1).prop_map(|(p, d)| PruneSel::Around(p, d)),
        1 => Just(PruneSel::AboveHeight),
        1 => Just(PruneSel::Max),
    ];
    prop_oneof![
        12 => (0u8..AUTHORS - 1, 0u8..LOGS - 1, seq, prop::bool::weighted(0.75), prop::bool::weighted(0.9))
            .prop_map(|(author, log, seq, with_body, commit)| Cmd::Insert { author, log, seq, with_body, commit }),
        2 => (any::<u16>(), prop::option::of(0u8..LOGS - 1), any::<bool>())
            .prop_map(|(pick, other_log, with_body)| Cmd::Reinsert { pick, other_log, with_body }),
        3 => (any::<u16>(), prop::bool::weighted(0.9)).prop_map(|(pick, commit)| Cmd::Delete { pick, commit }),
        3 => any::<u16>().prop_map(|pick| Cmd::DeletePayload { pick }),
        3 => (0u8..AUTHORS - 1, 0u8..LOGS - 1, prune).prop_map(|(author, log, until)| Cmd::Prune { author, log, until }),
    ]
}

fn case(max_steps: usize) -> impl Strategy<Value = Case> {
    (
        any::<bool>(),
        prop::collection::vec((cmd(), prop::collection::vec(query(), 1..5)).prop_map(|(cmd, queries)| Step { cmd, queries }), 1..=max_steps),
    )
        .prop_map(|(tagged_ext, steps)| Case { tagged_ext, steps })
}

pub fn run(mut ctx: Ctx) -> ! {
    ctx.assume("one operation per (author, log, seq_num) and claimed payload size == body length (what ingest stores)");
    ctx.assume("size of a log counts the claimed payload size of every stored header, also after payload deletion (column semantics)");
    ctx.assume("empty selection: get_log_entries -> None, get_log_size -> Some((0, 0)), get_log_heights -> None (mirrored)");
    let max_steps = ctx.pick(40, 60);
    ctx.run_prop(
        Part::new(
            "model_lockstep",
            "command sequences (<=40 quick / <=60 thorough) over 3 writing authors x 3 logs (+1 unknown author, +2 unknown logs): inserts in/out of order with/without body, committed or rolled back, duplicate ids, same id under another log, delete, payload delete, prune(0 / around an entry / height+1 / u32::MAX); after every command 1-4 queries (latest entry tx/non-tx, heights of a subset incl. empty/unknown/duplicate logs, ranged entries and size with bounds None/0/entry-1/entry/entry+1/u32::MAX incl. inverted) compared with an in-memory model; non-trivial = a delete/payload-delete/prune that removed something is followed by a ranged query with a bound at an existing entry +-1, 0 or u32::MAX",
            400,
            10_000,
        )
        .min_nontrivial(0.3),
        move || case(max_steps),
        check,
    );
    ctx.finish()
}
