//! C12 Released orderer items survive cancellation of `next`.
//!
//! Histories as in C11 (random DAGs delivered in generated order) run against the `Orderer`
//! processor over a *file-backed* `SqliteStore` (4 connections; see DESIGN.md B4 for why not the
//! one-connection in-memory store). Between deliveries the harness creates an `Orderer::next`
//! future and polls it by hand – polling again only after its waker fired – until it is suspended
//! at a generated await point, then drops it. A probing store wrapper tells which store call the
//! future is suspended in (begin / take_next_ready / commit / get_operation) or whether it is
//! parked on the notifier, so the cancellation point is a semantic await point (the nth suspension
//! inside a given store call) rather than a raw poll count, which depends on the timing of the
//! SQLite worker threads. At the end `next` is awaited to completion while the ready queue is
//! non-empty.
//!
//! Oracle: every item the reference model says is released (least fixed point over the delivered
//! items, see C11) was returned by some *completed* `next` call. No timing is involved: `next` is
//! only awaited when the queue is non-empty, hand-polling stops when the future is parked with no
//! store call in flight.
//!
//! Open finding K-C12 (signature): the future is dropped after it entered `commit` of the
//! transaction in which `take_next_ready` returned an item, and before it returned that item
//! (suspended in `commit` or in `get_operation`). Besides losing the item, a drop inside `commit`
//! releases the transaction permit while the COMMIT is still running on its pooled connection, so
//! the next transaction can fail with SQLITE_BUSY (see C10). When K-C12 is listed as open, a
//! cancellation that reaches this zone is not carried out (the future is driven to completion and
//! the case is counted as excluded); everything else – cancellations suspended in `begin` or
//! `take_next_ready`, or parked on the notifier – is asserted as usual. A fixed probe
//! demonstrates the finding.

use std::collections::BTreeSet;
use std::path::PathBuf;

use engine::proptest::prelude::*;
use engine::stepper::Stepper;
use engine::{CaseOk, CaseResult, Ctx, Part, Watchdog, ensure, idx};
use p2panda_core::Hash;
use p2panda_stream::Processor;
use p2panda_stream::orderer::Orderer;
use serde::{Deserialize, Serialize};

use crate::fx::{self, CaseDir, Template};
use crate::ord::{Call, Dep, Graph, Item, ProbeStore, graph};
use crate::props::c11::ord_err;

/// Await point (store call) of `Orderer::next` at which a hand-polled future is dropped.
#[derive(Clone, Copy, Debug, PartialEq, Eq, Serialize, Deserialize)]
enum Point {
    /// Created and dropped without a poll.
    Unpolled,
    Begin,
    Take,
    Commit,
    GetOperation,
    /// Parked on the notifier (empty queue).
    Notify,
}

impl Point {
    fn rank(self) -> u8 {
        match self {
            Point::Unpolled => 0,
            Point::Begin => 1,
            Point::Take => 2,
            Point::Commit => 3,
            Point::GetOperation => 4,
            Point::Notify => 5,
        }
    }
}

#[derive(Clone, Debug, Serialize, Deserialize)]
struct Cancel {
    /// Position in the delivery list before which the cancellation happens (mapped onto 1..=len).
    pos: u16,
    /// The future is dropped at its `nth` suspension inside this store call; if the call is left
    /// earlier, at the first suspension after it.
    at: Point,
    nth: u8,
}

#[derive(Clone, Debug, Serialize, Deserialize)]
struct Case {
    graph: Graph,
    cancels: Vec<Cancel>,
}

/// Where a cancelled `next` future was suspended.
#[derive(Clone, Copy, Debug, PartialEq, Eq)]
enum Landing {
    Unpolled,
    Begin,
    Take,
    Commit,
    GetOperation,
    ParkedOnNotify,
    Other,
    Completed,
}

#[derive(Default)]
struct Stats {
    at_stake: u32,
    landings: Vec<Landing>,
    traces: Vec<Vec<Landing>>,
    excluded: bool,
    spared: u32,
    lost_in_signature: Vec<usize>,
}

struct Env {
    template: Template,
    base: PathBuf,
    k_c12_open: bool,
    /// Extra runs of a case in `--replay` mode.
    replay_repeats: u32,
}

/// Hand-drives one `next` future until it is suspended at the requested await point (or beyond
/// it, or parked), then drops it. Returns the landing point, the output if it completed first,
/// the id dequeued by this call (if any) and the trace of suspension points.
async fn poll_and_cancel(
    orderer: &Orderer<Item, Hash, ProbeStore>,
    store: &ProbeStore,
    at: Point,
    nth: u8,
    spare_signature: bool,
) -> Result<(Landing, Option<Item>, Option<Hash>, Vec<Landing>, bool), String> {
    store.probe.reset();
    let mut st = Stepper::new(orderer.next());
    let mut landing = Landing::Unpolled;
    let mut trace: Vec<Landing> = Vec::new();
    let mut in_target = 0u8;
    let mut spared = false;
    if at != Point::Unpolled {
        loop {
            ensure!(trace.len() < 200, "next() was polled 200 times after wake-ups without completing: {trace:?}");
            if st.step() {
                landing = Landing::Completed;
                break;
            }
            // Suspended. Where?
            let (l, p) = match store.probe.current() {
                Some(Call::Begin) => (Landing::Begin, Point::Begin),
                Some(Call::TakeNextReady) => (Landing::Take, Point::Take),
                Some(Call::Commit) => (Landing::Commit, Point::Commit),
                Some(Call::GetOperation) => (Landing::GetOperation, Point::GetOperation),
                Some(_) => (Landing::Other, Point::Notify),
                None => (Landing::ParkedOnNotify, Point::Notify),
            };
            landing = l;
            trace.push(l);
            if spare_signature && matches!(p, Point::Commit | Point::GetOperation) {
                // Open finding K-C12: a drop here matches its signature; the cancellation is not
                // carried out (the future is driven on) and the case is counted as excluded.
                spared = true;
            } else if p == at {
                in_target += 1;
                if in_target >= nth.max(1) {
                    break;
                }
            } else if p.rank() > at.rank() {
                break;
            }
            // Poll again only after a wake. A future that is suspended outside every store call
            // and was not woken is parked on the notifier: it cannot make progress on its own.
            loop {
                if st.woken() || store.probe.inflight() == 0 {
                    break;
                }
                tokio::task::yield_now().await;
                std::thread::yield_now();
            }
            if !st.woken() {
                landing = Landing::ParkedOnNotify;
                break;
            }
        }
    }
    let took = *store.probe.took.borrow();
    if landing == Landing::Completed {
        let out = st.take_output().expect("completed stepper has an output");
        drop(st);
        return match out {
            Ok(item) => Ok((landing, Some(item), took, trace, spared)),
            Err((_, e)) => Err(format!("next() failed: {}", ord_err(&e))),
        };
    }
    // Cancel: drop the future at its current await point.
    st.cancel();
    drop(st);
    Ok((landing, None, took, trace, spared))
}

/// Drives one `next` call to completion. The queue was seen non-empty just before, but the COMMIT
/// of an earlier dropped future may still dequeue the item behind our back (on a tree with the
/// K-C12 / C10 defects); then `next` parks on the notifier for good. That is detected (suspended
/// outside every store call, not woken) and reported as "nothing to return" instead of hanging.
async fn drive_next(orderer: &Orderer<Item, Hash, ProbeStore>, store: &ProbeStore) -> Result<Option<Item>, String> {
    let (_, out, _, _, _) = poll_and_cancel(orderer, store, Point::Notify, 1, false).await?;
    Ok(out)
}

async fn run_case(env: &Env, case: &Case, dir: &CaseDir, stats: &mut Stats) -> Result<(), String> {
    let res = case.graph.resolve();
    // Dependency lists are de-duplicated: repeated entries are C11's subject (F-C11).
    let items = res.build(true);
    let store = ProbeStore::new(env.template.open(dir, "c12", 4).await);
    let orderer: Orderer<Item, Hash, ProbeStore> = Orderer::new(store.clone());
    let n_del = res.deliveries.len();
    // Cancellations happen after at least one delivery (before the first one the queue is empty).
    let mut cancels: Vec<(usize, Point, u8)> = case.cancels.iter().map(|c| (if n_del == 0 { 0 } else { 1 + idx(c.pos, n_del) }, c.at, c.nth)).collect();
    cancels.sort_by_key(|c| c.0);

    let mut delivered: BTreeSet<usize> = BTreeSet::new();
    let mut returned: BTreeSet<usize> = BTreeSet::new();
    let mut forgiven: BTreeSet<usize> = BTreeSet::new();
    let mut n_returned = 0usize;
    let bound = (n_del + 1) * (items.len() + 1) + case.cancels.len();
    let index_of = |h: &Hash| items.iter().position(|it| it.0.hash == *h);

    for pos in 0..=n_del {
        for (_, at, nth) in cancels.iter().filter(|c| c.0 == pos) {
            let queued = store.queue_len().await?;
            let (landing, out, took, trace, spared) = poll_and_cancel(&orderer, &store, *at, *nth, env.k_c12_open).await?;
            if spared {
                stats.excluded = true;
                stats.spared += 1;
            }
            stats.landings.push(landing);
            stats.traces.push(trace);
            if queued > 0 && !matches!(landing, Landing::Unpolled | Landing::Completed) {
                stats.at_stake += 1;
            }
            if let Some(item) = out {
                let k = index_of(&item.0.hash).ok_or_else(|| "next() returned an unknown item".to_string())?;
                returned.insert(k);
                n_returned += 1;
            }
            // Signature of K-C12: dropped while suspended in commit / get_operation after an item
            // had been dequeued in this call.
            if matches!(landing, Landing::Commit | Landing::GetOperation) {
                if let Some(h) = took {
                    let k = index_of(&h).ok_or_else(|| "take_next_ready returned an unknown id".to_string())?;
                    stats.lost_in_signature.push(k);
                    if env.k_c12_open {
                        stats.excluded = true;
                        forgiven.insert(k);
                    }
                }
            }
        }
        if pos == n_del {
            break;
        }
        let i = res.deliveries[pos];
        store.store_item(&items[i]).await?;
        if let Err((_, e)) = orderer.process(items[i].clone()).await {
            return Err(format!("process(item {i}) failed: {}", ord_err(&e)));
        }
        delivered.insert(i);

        if case.graph.drains.get(pos).copied().unwrap_or(false) {
            loop {
                if store.queue_len().await? == 0 {
                    break;
                }
                ensure!(n_returned <= bound, "ready queue does not drain: {n_returned} items returned after {} deliveries of {} items", pos + 1, items.len());
                match drive_next(&orderer, &store).await? {
                    Some(item) => {
                        let k = index_of(&item.0.hash).ok_or_else(|| "next() returned an unknown item".to_string())?;
                        returned.insert(k);
                        n_returned += 1;
                    }
                    None => break,
                }
            }
        }
    }
    // Final drain (cancellations after the last delivery may have re-queued nothing, but the
    // queue must be empty before judging).
    loop {
        if store.queue_len().await? == 0 {
            break;
        }
        ensure!(n_returned <= bound, "ready queue does not drain at the end: {n_returned} items returned");
        match drive_next(&orderer, &store).await? {
            Some(item) => {
                let k = index_of(&item.0.hash).ok_or_else(|| "next() returned an unknown item".to_string())?;
                returned.insert(k);
                n_returned += 1;
            }
            None => break,
        }
    }

    let want = res.released(&delivered);
    let lost: Vec<usize> = want.iter().filter(|k| !returned.contains(k) && !forgiven.contains(k)).copied().collect();
    ensure!(
        lost.is_empty(),
        "released item(s) {lost:?} were never returned by a completed next() call: released by the model {want:?}, returned {returned:?}; cancellations (position, await point, nth suspension) {cancels:?} landed at {:?} (suspension traces {:?}); items dequeued by a call that was then dropped in commit/get_operation: {:?}; deliveries {:?}",
        stats.landings,
        stats.traces,
        stats.lost_in_signature,
        res.deliveries
    );
    let extra: Vec<usize> = returned.iter().filter(|k| !want.contains(k)).copied().collect();
    ensure!(extra.is_empty(), "items {extra:?} were returned although the model says they are not released ({want:?})");
    drop(orderer);
    store.inner.pool().close().await;
    Ok(())
}

fn check(env: &Env, case: &Case) -> CaseResult {
    // Where a dropped future lands inside a store call is timing-dependent; an explicit `--replay`
    // therefore runs the saved case repeatedly and reports the first failure.
    let mut last = check_once(env, case);
    for _ in 0..env.replay_repeats {
        if last.is_err() {
            break;
        }
        last = check_once(env, case);
    }
    last
}

fn check_once(env: &Env, case: &Case) -> CaseResult {
    let dir = CaseDir::new(&env.base);
    let rt = fx::runtime();
    let mut stats = Stats::default();
    let r = rt.block_on(run_case(env, case, &dir, &mut stats));
    drop(rt);
    drop(dir);
    if let Err(e) = r {
        return Err(format!("{e} [cancelled next() futures landed at {:?}, suspension traces {:?}]", stats.landings, stats.traces));
    }
    let has = |l: Landing| stats.landings.contains(&l);
    let mut ok = CaseOk::nontrivial(stats.at_stake > 0)
        .label_if(has(Landing::Unpolled), "dropped_unpolled")
        .label_if(has(Landing::Begin), "dropped_in_begin")
        .label_if(has(Landing::Take), "dropped_in_take_next_ready")
        .label_if(has(Landing::Commit), "dropped_in_commit")
        .label_if(has(Landing::GetOperation), "dropped_in_get_operation")
        .label_if(has(Landing::ParkedOnNotify), "dropped_parked_on_notify")
        .label_if(has(Landing::Completed), "completed_before_cancel_point")
        .label_if(stats.at_stake > 0, "cancelled_with_item_at_stake")
        .label_if(!stats.lost_in_signature.is_empty(), "k_c12_signature")
        .label_if(stats.spared > 0, "k_c12_signature_not_cancelled");
    if stats.excluded {
        ok = ok.excluded();
    }
    Ok(ok)
}

fn point() -> impl Strategy<Value = Point> {
    prop_oneof![
        1 => Just(Point::Unpolled),
        4 => Just(Point::Begin),
        6 => Just(Point::Take),
        2 => Just(Point::Commit),
        1 => Just(Point::GetOperation),
        1 => Just(Point::Notify),
    ]
}

fn case(max_items: usize) -> impl Strategy<Value = Case> {
    (
        graph(max_items),
        prop::collection::vec((any::<u16>(), point(), 1u8..=3).prop_map(|(pos, at, nth)| Cancel { pos, at, nth }), 2..6),
    )
        .prop_map(|(mut graph, cancels)| {
            // Keep items in the ready queue between deliveries: drain rarely before the end.
            for (j, d) in graph.drains.iter_mut().enumerate() {
                *d = *d && j % 3 == 2;
            }
            Case { graph, cancels }
        })
}

/// Fixed tiny histories with one cancellation at every position and every poll count.
fn sweep_domain() -> Vec<Case> {
    use Dep::*;
    let graphs: Vec<Vec<Vec<Dep>>> = vec![vec![vec![]], vec![vec![], vec![Exact(0)]], vec![vec![], vec![Exact(0)], vec![Exact(0), Exact(1)]]];
    let mut out = Vec::new();
    for items in graphs {
        let n = items.len();
        for pos in 1..=n {
            // Cancellation points inside the K-C12 signature first, so that the case reported on a
            // tree where K-C12 is not listed lands there reliably.
            for (at, nth) in [
                (Point::Commit, 1u8),
                (Point::Commit, 2),
                (Point::GetOperation, 1),
                (Point::GetOperation, 2),
                (Point::Unpolled, 1),
                (Point::Begin, 1),
                (Point::Begin, 2),
                (Point::Begin, 3),
                (Point::Take, 1),
                (Point::Take, 2),
                (Point::Take, 3),
                (Point::Notify, 1),
            ] {
                out.push(Case {
                    graph: Graph {
                        items: items.clone(),
                        order: (0..n as u16).collect(),
                        skip: vec![false; n],
                        extras: vec![],
                        drains: vec![false; n],
                    },
                    // 1 + idx(raw, n) == pos
                    cancels: vec![Cancel {
                        pos: ((((pos - 1) as u32) << 16) / (n as u32) + 1).min(65535) as u16,
                        at,
                        nth,
                    }],
                });
            }
        }
    }
    out
}

/// Probe for K-C12: one ready item, `next` dropped while suspended in `get_operation` / `commit`.
/// Which suspension loses the item depends on whether the SQLite worker already executed the
/// COMMIT, so a few drop points are tried, each on a fresh store.
fn probe(env: &Env) -> (bool, String) {
    let mut notes: Vec<String> = Vec::new();
    for (at, nth) in [(Point::GetOperation, 1u8), (Point::Commit, 2), (Point::Commit, 1), (Point::Commit, 3), (Point::GetOperation, 2)] {
        let dir = CaseDir::new(&env.base);
        let rt = fx::runtime();
        let r: Result<(bool, String), String> = rt.block_on(async {
            let g = Graph {
                items: vec![vec![]],
                order: vec![0],
                skip: vec![false],
                extras: vec![],
                drains: vec![false],
            };
            let res = g.resolve();
            let items = res.build(true);
            let store = ProbeStore::new(env.template.open(&dir, "probe", 4).await);
            let orderer: Orderer<Item, Hash, ProbeStore> = Orderer::new(store.clone());
            store.store_item(&items[0]).await?;
            if let Err((_, e)) = orderer.process(items[0].clone()).await {
                return Err(format!("process failed: {}", ord_err(&e)));
            }
            let (landing, out, _, trace, _) = poll_and_cancel(&orderer, &store, at, nth, false).await?;
            let r = if out.is_some() {
                (false, format!("drop point {at:?}#{nth}: next() completed first (suspensions {trace:?})"))
            } else if landing != Landing::Commit && landing != Landing::GetOperation {
                (false, format!("drop point {at:?}#{nth}: never suspended in commit/get_operation (suspensions {trace:?})"))
            } else {
                let after = store.queue_len().await?;
                (
                    after == 0,
                    format!(
                        "one ready item; next() dropped while suspended in {landing:?} (suspensions {trace:?}); ready queue length afterwards {after}{}",
                        if after == 0 { ", the item was never returned: lost" } else { ": not lost this time" }
                    ),
                )
            };
            drop(orderer);
            store.inner.pool().close().await;
            Ok(r)
        });
        drop(rt);
        drop(dir);
        match r {
            Ok((true, detail)) => return (true, detail),
            Ok((false, detail)) => notes.push(detail),
            Err(e) => notes.push(format!("probe error: {e}")),
        }
    }
    (false, notes.join(" | "))
}

pub fn run(mut ctx: Ctx) -> ! {
    let _wd = Watchdog::arm("C12 (file-backed SQLite, hand-polled futures)", std::time::Duration::from_secs(ctx.pick(600, 3600)));
    let base = ctx.tmp_dir();
    let env = Env {
        template: Template::build(&base),
        base: base.clone(),
        k_c12_open: ctx.is_open("K-C12"),
        replay_repeats: if ctx.replay.is_some() { 20 } else { 0 },
    };
    ctx.assume("file-backed store with 4 connections: cancelling a query on the one-connection in-memory store drops the whole database (fixture artefact, DESIGN.md B4)");
    ctx.assume("an item counts as returned only when a next() call completed with it");

    if env.k_c12_open && ctx.replay.is_none() {
        let (reproduced, detail) = probe(&env);
        ctx.known_finding("K-C12", reproduced, &detail);
    }

    ctx.run_exhaustive(
        "sweep_every_await_point",
        "three fixed histories (1, 2, 3 items), one cancellation after each delivery, every await point of next() (unpolled, 1st-3rd suspension in begin / take_next_ready, 1st-2nd in commit / get_operation, parked on the notifier); non-trivial = the dropped future was suspended inside next() while an item was in the ready queue",
        sweep_domain(),
        |c| check(&env, c),
    );
    let max_items = ctx.pick(5, 7);
    // On a tree where the sweep already failed the random part adds nothing, and every further
    // drop inside commit() can cost a 5 s SQLite busy timeout there.
    if ctx.violations() == 0 {
    ctx.run_prop(
        Part::new(
            "random_histories",
            "random DAG histories as in C11 (1-5 items quick, 1-7 thorough) with 2-5 cancellations of a hand-polled next() future at generated positions and await points (unpolled / nth suspension in begin, take_next_ready, commit, get_operation / parked on the notifier); non-trivial = at least one dropped future was suspended inside next() (begin / take_next_ready / commit / get_operation / notifier) while an item was in the ready queue",
            300,
            5_000,
        )
        .min_nontrivial(0.15)
        .shrink_iters(150),
        move || case(max_items),
        |c| check(&env, c),
    );
    }
    drop(env);
    let _ = std::fs::remove_dir_all(&base);
    ctx.finish()
}
