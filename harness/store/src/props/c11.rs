//! C11 Causal orderer releases items only after, and always after, their dependencies.
//!
//! Random DAGs (edges only to earlier indices) with dependency *lists* that may repeat an entry
//! and may name items that are never delivered, delivered in a generated order with duplicates,
//! are fed to the public `Orderer` processor (`process` / `next`) over a `SqliteStore`.
//!
//! Oracle (independent reference model): R = least fixed point of "delivered and set(deps) ⊆ R".
//! * safety: every item returned by `next` has every dependency returned earlier;
//! * completeness: whenever the ready queue has been drained, the set of items returned so far
//!   equals R of the items delivered so far (blocked items are never returned; re-release of an
//!   item after a duplicate delivery is the documented re-queue behaviour and allowed);
//! * metamorphic: the same history with every dependency list de-duplicated gives the same set of
//!   released items at every drain point.
//! `next` is only awaited while the ready queue is non-empty (it never completes otherwise, by
//! the `Processor` contract), so no timeouts are involved.

use std::collections::BTreeSet;

use engine::{CaseOk, CaseResult, Ctx, Part, ensure};
use p2panda_core::Hash;
use p2panda_store::SqliteStore;
use p2panda_stream::Processor;
use p2panda_stream::orderer::{Orderer, OrdererError};
use serde::{Deserialize, Serialize};

use crate::fx;
use crate::ord::{Dep, Graph, Item, ProbeStore, Resolved, graph};

pub fn ord_err(e: &OrdererError<Item, Hash, ProbeStore>) -> String {
    match e {
        OrdererError::StoreInconsistency(id) => format!("store inconsistency: operation {id} not found"),
        OrdererError::OrdererStore(e) => format!("orderer store: {e}"),
        OrdererError::OperationStore(e) => format!("operation store: {e}"),
        OrdererError::Transaction(e) => format!("transaction: {e}"),
    }
}

/// One run of a history; returns the released set (item indices) at every drain point.
async fn run_history(res: &Resolved, g: &Graph, dedup: bool) -> Result<(Vec<BTreeSet<usize>>, bool), String> {
    let items = res.build(dedup);
    let store = ProbeStore::new(SqliteStore::temporary().await);
    let orderer: Orderer<Item, Hash, ProbeStore> = Orderer::new(store.clone());
    let tag = if dedup { "de-duplicated lists" } else { "lists as given" };

    let mut delivered: BTreeSet<usize> = BTreeSet::new();
    let mut outputs: Vec<usize> = Vec::new();
    let mut snapshots: Vec<BTreeSet<usize>> = Vec::new();
    let mut child_before_parent = false;
    // Upper bound for the number of items the queue can ever hold: every `process` call can queue
    // at most every item once.
    let bound = (res.deliveries.len() + 1) * (items.len() + 1);

    let n_del = res.deliveries.len();
    for (j, i) in res.deliveries.iter().enumerate() {
        if res.lists[*i].iter().flatten().any(|d| !delivered.contains(d)) {
            child_before_parent = true;
        }
        store.store_item(&items[*i]).await?;
        if let Err((_, e)) = orderer.process(items[*i].clone()).await {
            return Err(format!("[{tag}] process(item {i}) failed: {}", ord_err(&e)));
        }
        delivered.insert(*i);

        let last = j + 1 == n_del;
        if last || g.drains.get(j).copied().unwrap_or(false) {
            // Drain.
            loop {
                if store.queue_len().await? == 0 {
                    break;
                }
                ensure!(outputs.len() <= bound, "[{tag}] ready queue does not drain: {} items returned after {} deliveries of {} items", outputs.len(), j + 1, items.len());
                let out = match orderer.next().await {
                    Ok(item) => item,
                    Err((_, e)) => return Err(format!("[{tag}] next() failed: {}", ord_err(&e))),
                };
                let k = out.0.header.extensions.index as usize;
                ensure!(k < items.len() && items[k].0.hash == out.0.hash, "[{tag}] next() returned an unknown item {:?}", out.0.hash);
                // Safety: every dependency (set) was returned earlier.
                for d in &res.lists[k] {
                    match d {
                        Some(p) => ensure!(
                            outputs.contains(p),
                            "[{tag}] item {k} (deps {:?}) was released before its dependency {p}; released so far {outputs:?}, deliveries {:?}",
                            res.lists[k],
                            &res.deliveries[..=j]
                        ),
                        None => return Err(format!("[{tag}] item {k} was released although one of its dependencies is never delivered")),
                    }
                }
                ensure!(delivered.contains(&k), "[{tag}] item {k} was released before it was delivered");
                outputs.push(k);
            }
            // Completeness at the quiescent point.
            let got: BTreeSet<usize> = outputs.iter().copied().collect();
            let want = res.released(&delivered);
            ensure!(
                got == want,
                "[{tag}] after deliveries {:?} and draining the ready queue the released set is {got:?}, the model says {want:?} (dependency lists {:?})",
                &res.deliveries[..=j],
                res.lists
            );
            snapshots.push(got);
        }
    }
    store.inner.pool().close().await;
    Ok((snapshots, child_before_parent))
}

fn check(g: &Graph) -> CaseResult {
    let res = g.resolve();
    let rt = fx::runtime();
    let r: Result<(Vec<BTreeSet<usize>>, bool), String> = rt.block_on(async {
        let (raw, cbp) = run_history(&res, g, false).await?;
        if res.has_repeat {
            let (dedup, _) = run_history(&res, g, true).await?;
            ensure!(
                raw == dedup,
                "repeating dependency entries changed the outcome: released sets per drain point {raw:?} vs {dedup:?} with de-duplicated lists"
            );
        }
        Ok((raw, cbp))
    });
    drop(rt);
    let (snaps, cbp) = r?;
    let released_any = snaps.last().map(|s| !s.is_empty()).unwrap_or(false);
    let blocked = snaps.last().map(|s| s.len()).unwrap_or(0) < res.deliveries.iter().collect::<BTreeSet<_>>().len();
    Ok(CaseOk::nontrivial((res.has_diamond || res.has_repeat) && cbp)
        .label_if(res.has_repeat, "repeated_dependency_entry")
        .label_if(res.has_diamond, "diamond")
        .label_if(res.has_ghost, "dependency_never_delivered")
        .label_if(cbp, "child_before_parent")
        .label_if(blocked, "some_item_stays_blocked")
        .label_if(released_any, "released_some")
        .label_if(res.deliveries.len() > res.lists.len(), "duplicate_delivery"))
}

// ---------------------------------------------------------------------------------------------
// Exhaustive part: fixed small graphs, every delivery permutation, drain after each / at the end.
// ---------------------------------------------------------------------------------------------

fn fixed_graphs(thorough: bool) -> Vec<Vec<Vec<Dep>>> {
    use Dep::*;
    let mut v = vec![
        // chain
        vec![vec![], vec![Exact(0)], vec![Exact(1)], vec![Exact(2)]],
        // diamond
        vec![vec![], vec![Exact(0)], vec![Exact(0)], vec![Exact(1), Exact(2)]],
        // repeated entries
        vec![vec![], vec![Exact(0), Repeat], vec![Exact(1), Exact(0), Exact(1)]],
        // missing dependency next to satisfied ones
        vec![vec![], vec![Exact(0), Ghost(0)], vec![Exact(0)], vec![Exact(2), Repeat]],
    ];
    if thorough {
        v.push(vec![vec![], vec![Exact(0)], vec![Exact(0)], vec![Exact(1), Exact(2), Exact(1)], vec![Exact(3), Exact(0)]]);
        v.push(vec![vec![], vec![], vec![Exact(0), Exact(1)], vec![Exact(2), Repeat, Exact(0)], vec![Exact(3), Ghost(1)]]);
    }
    v
}

fn permutations(n: usize) -> Vec<Vec<usize>> {
    fn rec(cur: &mut Vec<usize>, used: &mut Vec<bool>, n: usize, out: &mut Vec<Vec<usize>>) {
        if cur.len() == n {
            out.push(cur.clone());
            return;
        }
        for i in 0..n {
            if !used[i] {
                used[i] = true;
                cur.push(i);
                rec(cur, used, n, out);
                cur.pop();
                used[i] = false;
            }
        }
    }
    let mut out = Vec::new();
    rec(&mut Vec::new(), &mut vec![false; n], n, &mut out);
    out
}

fn exhaustive_domain(thorough: bool) -> Vec<Graph> {
    let mut out = Vec::new();
    for items in fixed_graphs(thorough) {
        let n = items.len();
        for p in permutations(n) {
            // order keys: item p[pos] is delivered at position pos.
            let mut order = vec![0u16; n];
            for (pos, item) in p.iter().enumerate() {
                order[*item] = pos as u16;
            }
            for drain_each in [false, true] {
                out.push(Graph {
                    items: items.clone(),
                    order: order.clone(),
                    skip: vec![false; n],
                    extras: vec![],
                    drains: vec![drain_each; n],
                });
            }
        }
    }
    out
}

pub fn run(mut ctx: Ctx) -> ! {
    ctx.assume("re-release of an item after a duplicate delivery is the documented re-queue behaviour; outputs are compared as sets");
    ctx.assume("next() is only awaited while the ready queue is non-empty (Processor contract: it stays pending otherwise)");
    let thorough = ctx.is_thorough();
    ctx.run_exhaustive(
        "small_graphs_all_orders",
        "fixed graphs of 3-4 items (quick; plus two 5-item graphs thorough): chain, diamond, repeated dependency entries, missing dependency; every delivery permutation, draining after every delivery or only at the end; non-trivial = diamond or repeated entry with some child delivered before a parent",
        exhaustive_domain(thorough),
        check,
    );
    let max_items = ctx.pick(7, 9);
    ctx.run_prop(
        Part::new(
            "random_dags",
            "random DAGs of 1-7 items (quick; 1-9 thorough), dependency lists of 0-4 entries (earlier item / repeat of the previous entry / never-delivered item), delivery = generated permutation with some items skipped and up to 3 duplicate deliveries, ready queue drained at generated points and at the end; non-trivial = graph with a diamond or a repeated dependency entry in which some child is delivered before one of its parents",
            600,
            8_000,
        )
        .min_nontrivial(0.25)
        .shrink_iters(200),
        move || graph(max_items),
        check,
    );
    ctx.finish()
}
