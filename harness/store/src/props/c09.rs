//! C09 Operation, topic and cursor stores behave like their abstract collections.
//!
//! A generated command sequence runs against one `SqliteStore` and, in lock-step, against plain
//! collections: `BTreeMap<Hash, (operation, body present)>`, `BTreeSet<(topic, author, data id)>`,
//! `BTreeMap<name, cursor state>`. Writes run inside generated transaction boundaries (always
//! committed); reads run both inside transactions (`*_tx`, seeing the transaction's own writes)
//! and directly on the pool between transactions.
//!
//! Checked per command: returned booleans (insert true exactly when the id was absent, delete /
//! payload deletion true exactly when the id was present, associate true exactly when the triple
//! was new, remove true exactly when it existed), read-backs (id, header, body), `resolve` as a
//! set without repeats, cursor read == last cursor written under the name (`None` after delete).

use std::collections::{BTreeMap, BTreeSet};

use engine::proptest::prelude::*;
use engine::{CaseOk, CaseResult, Ctx, Part, ensure, ensure_eq};
use p2panda_core::logs::LogHeights;
use p2panda_core::{Cursor, Hash, Operation, Topic, VerifyingKey};
use p2panda_store::cursors::CursorStore;
use p2panda_store::operations::OperationStore;
use p2panda_store::topics::TopicStore;
use p2panda_store::{SqliteStore, Transaction};
use serde::{Deserialize, Serialize};

use crate::fx;

const POOL: usize = 8;
const TOPICS: u8 = 3;
const AUTHORS: u8 = 3;
const DATA_IDS: u8 = 3;
const CURSORS: u8 = 3;

#[derive(Clone, Debug, PartialEq, Serialize, Deserialize)]
struct Small {
    a: u64,
    s: String,
}

#[derive(Clone, Debug, PartialEq, Serialize, Deserialize)]
struct Deps {
    dependencies: Vec<Hash>,
    flag: Option<bool>,
}

/// One operation of the pool; three extension types.
#[derive(Clone, Debug)]
enum AnyOp {
    Unit(Operation<()>),
    Small(Operation<Small>),
    Deps(Operation<Deps>),
}

/// Type-erased view used for comparison.
#[derive(Clone, Debug, PartialEq)]
struct View {
    hash: Hash,
    header_bytes: Vec<u8>,
    body: Option<Vec<u8>>,
}

fn view<E: p2panda_core::Extensions>(op: &Operation<E>) -> View {
    View {
        hash: op.hash,
        header_bytes: op.header.to_bytes(),
        body: op.body.as_ref().map(|b| b.to_bytes()),
    }
}

impl AnyOp {
    fn hash(&self) -> Hash {
        match self {
            AnyOp::Unit(o) => o.hash,
            AnyOp::Small(o) => o.hash,
            AnyOp::Deps(o) => o.hash,
        }
    }

    fn view(&self, with_body: bool) -> View {
        let mut v = match self {
            AnyOp::Unit(o) => view(o),
            AnyOp::Small(o) => view(o),
            AnyOp::Deps(o) => view(o),
        };
        if !with_body {
            v.body = None;
        }
        v
    }
}

fn pool_op(i: usize) -> AnyOp {
    let sk = fx::key((i % 3) as u8);
    let seq = (i / 3) as u32;
    // Operation 7 has an empty payload (no body even when "with body").
    let body: Vec<u8> = if i == 7 { vec![] } else { (0..(3 + i * 5)).map(|b| (b as u8).wrapping_mul(31) ^ i as u8).collect() };
    let backlink = if seq == 0 { None } else { Some(Hash::digest([i as u8, 0xaa])) };
    match i % 3 {
        0 => AnyOp::Unit(fx::make_op(&sk, seq, backlink, &body, true, ())),
        1 => AnyOp::Small(fx::make_op(
            &sk,
            seq,
            backlink,
            &body,
            true,
            Small {
                a: u64::MAX - i as u64,
                s: format!("op-{i}"),
            },
        )),
        _ => AnyOp::Deps(fx::make_op(
            &sk,
            seq,
            backlink,
            &body,
            true,
            Deps {
                dependencies: (0..i % 4).map(|d| Hash::digest([d as u8, i as u8])).collect(),
                flag: if i % 2 == 0 { Some(true) } else { None },
            },
        )),
    }
}

fn strip<E: Clone>(op: &Operation<E>, with_body: bool) -> Operation<E> {
    Operation {
        hash: op.hash,
        header: op.header.clone(),
        body: if with_body { op.body.clone() } else { None },
    }
}

#[derive(Clone, Debug, Serialize, Deserialize)]
enum TxCmd {
    Insert { op: u8, with_body: bool, log: u8 },
    Delete { op: u8 },
    GetTx { op: u8 },
    HasTx { op: u8 },
    Associate { topic: u8, author: u8, data: u8 },
    Remove { topic: u8, author: u8, data: u8 },
    SetCursor { name: u8, state: Vec<(u8, u8, u32)> },
    DeleteCursor { name: u8 },
}

#[derive(Clone, Debug, Serialize, Deserialize)]
enum DirectCmd {
    Get { op: u8 },
    Has { op: u8 },
    DeletePayload { op: u8 },
    Resolve { topic: u8 },
    GetCursor { name: u8 },
}

#[derive(Clone, Debug, Serialize, Deserialize)]
enum Step {
    Tx(Vec<TxCmd>),
    Direct(DirectCmd),
}

#[derive(Clone, Debug, Serialize, Deserialize)]
struct Case {
    steps: Vec<Step>,
}

type CursorState = LogHeights<VerifyingKey, u64>;

#[derive(Default)]
struct Model {
    ops: BTreeMap<Hash, bool>, // id -> body present
    topics: BTreeSet<(u8, u8, u8)>,
    cursors: BTreeMap<u8, CursorState>,
}

#[derive(Default)]
struct Flags {
    ins_del_ins: bool,
    cursor_overwritten: bool,
    dup_insert: bool,
    dup_assoc: bool,
    tx_read_own_write: bool,
    /// per op: 0 = never, 1 = inserted, 2 = inserted then deleted
    life: [u8; POOL],
}

fn topic_of(t: u8) -> Topic {
    Topic::from([t.wrapping_mul(29).wrapping_add(1); 32])
}

fn cursor_name(n: u8) -> String {
    match n {
        0 => "c".to_string(),
        1 => "cursor/one".to_string(),
        _ => format!("cursor-{n}-äö"),
    }
}

fn cursor_state(spec: &[(u8, u8, u32)]) -> CursorState {
    let mut m: CursorState = BTreeMap::new();
    for (a, l, h) in spec {
        m.entry(fx::key(*a % AUTHORS).verifying_key()).or_default().insert(*l as u64, *h);
    }
    m
}

async fn get_any(store: &SqliteStore, op: &AnyOp, tx: bool) -> Result<Option<View>, String> {
    let id = op.hash();
    macro_rules! get {
        ($e:ty) => {{
            let r = if tx {
                <SqliteStore as OperationStore<Operation<$e>, Hash>>::get_operation_tx(store, &id).await
            } else {
                <SqliteStore as OperationStore<Operation<$e>, Hash>>::get_operation(store, &id).await
            };
            r.map_err(|e| fx::err_str("get_operation", e))?.map(|o| view(&o))
        }};
    }
    Ok(match op {
        AnyOp::Unit(_) => get!(()),
        AnyOp::Small(_) => get!(Small),
        AnyOp::Deps(_) => get!(Deps),
    })
}

async fn has_any(store: &SqliteStore, op: &AnyOp, tx: bool) -> Result<bool, String> {
    let id = op.hash();
    // `has_operation` does not depend on the extension type; go through the matching impl anyway.
    macro_rules! has {
        ($e:ty) => {{
            if tx {
                <SqliteStore as OperationStore<Operation<$e>, Hash>>::has_operation_tx(store, &id).await
            } else {
                <SqliteStore as OperationStore<Operation<$e>, Hash>>::has_operation(store, &id).await
            }
        }};
    }
    match op {
        AnyOp::Unit(_) => has!(()),
        AnyOp::Small(_) => has!(Small),
        AnyOp::Deps(_) => has!(Deps),
    }
    .map_err(|e| fx::err_str("has_operation", e))
}

fn check_read(what: &str, got: Option<View>, model: &Model, op: &AnyOp) -> Result<(), String> {
    match (got, model.ops.get(&op.hash())) {
        (None, None) => Ok(()),
        (Some(g), Some(body_present)) => {
            let want = op.view(*body_present);
            ensure_eq!(g.hash, want.hash, "{what}: id of the operation read back differs");
            ensure_eq!(g.header_bytes, want.header_bytes, "{what}: header read back differs");
            ensure_eq!(g.body, want.body, "{what}: body read back differs");
            Ok(())
        }
        (g, m) => Err(format!("{what}: store has it: {}, model has it: {}", g.is_some(), m.is_some())),
    }
}

async fn run(case: &Case) -> CaseResult {
    let store = SqliteStore::temporary().await;
    let pool: Vec<AnyOp> = (0..POOL).map(pool_op).collect();
    let mut model = Model::default();
    let mut flags = Flags::default();

    for (n, step) in case.steps.iter().enumerate() {
        let r: Result<(), String> = async {
            match step {
                Step::Tx(cmds) => {
                    let permit = store.begin().await.map_err(|e| fx::err_str("begin", e))?;
                    let mut wrote = BTreeSet::new();
                    for c in cmds {
                        match c {
                            TxCmd::Insert { op, with_body, log } => {
                                let i = *op as usize % POOL;
                                let any = &pool[i];
                                let log = *log as u64;
                                let r = match any {
                                    AnyOp::Unit(o) => store.insert_operation(&o.hash, &strip(o, *with_body), &log).await,
                                    AnyOp::Small(o) => store.insert_operation(&o.hash, &strip(o, *with_body), &log).await,
                                    AnyOp::Deps(o) => store.insert_operation(&o.hash, &strip(o, *with_body), &log).await,
                                }
                                .map_err(|e| fx::err_str("insert_operation", e))?;
                                let absent = !model.ops.contains_key(&any.hash());
                                ensure_eq!(r, absent, "insert_operation(op {i}) must report true exactly when the id was absent");
                                if absent {
                                    let body_present = *with_body && any.view(true).body.is_some();
                                    model.ops.insert(any.hash(), body_present);
                                    wrote.insert(i);
                                    if flags.life[i] == 2 {
                                        flags.ins_del_ins = true;
                                    }
                                    flags.life[i] = 1;
                                } else {
                                    flags.dup_insert = true;
                                }
                            }
                            TxCmd::Delete { op } => {
                                let i = *op as usize % POOL;
                                let any = &pool[i];
                                let r = <SqliteStore as OperationStore<Operation<()>, Hash>>::delete_operation(&store, &any.hash())
                                    .await
                                    .map_err(|e| fx::err_str("delete_operation", e))?;
                                let present = model.ops.remove(&any.hash()).is_some();
                                ensure_eq!(r, present, "delete_operation(op {i}) must report true exactly when the id was present");
                                if present && flags.life[i] == 1 {
                                    flags.life[i] = 2;
                                }
                            }
                            TxCmd::GetTx { op } => {
                                let i = *op as usize % POOL;
                                if wrote.contains(&i) {
                                    flags.tx_read_own_write = true;
                                }
                                let got = get_any(&store, &pool[i], true).await?;
                                check_read(&format!("get_operation_tx(op {i})"), got, &model, &pool[i])?;
                            }
                            TxCmd::HasTx { op } => {
                                let i = *op as usize % POOL;
                                let got = has_any(&store, &pool[i], true).await?;
                                ensure_eq!(got, model.ops.contains_key(&pool[i].hash()), "has_operation_tx(op {i})");
                            }
                            TxCmd::Associate { topic, author, data } => {
                                let r = <SqliteStore as TopicStore<Topic, VerifyingKey, u64>>::associate(
                                    &store,
                                    &topic_of(*topic),
                                    &fx::key(*author).verifying_key(),
                                    &(*data as u64),
                                )
                                .await
                                .map_err(|e| fx::err_str("associate", e))?;
                                let new = model.topics.insert((*topic, *author, *data));
                                if !new {
                                    flags.dup_assoc = true;
                                }
                                ensure_eq!(r, new, "associate({topic},{author},{data}) must report true exactly when the triple was new");
                            }
                            TxCmd::Remove { topic, author, data } => {
                                let r = <SqliteStore as TopicStore<Topic, VerifyingKey, u64>>::remove(
                                    &store,
                                    &topic_of(*topic),
                                    &fx::key(*author).verifying_key(),
                                    &(*data as u64),
                                )
                                .await
                                .map_err(|e| fx::err_str("remove", e))?;
                                let existed = model.topics.remove(&(*topic, *author, *data));
                                ensure_eq!(r, existed, "remove({topic},{author},{data}) must report true exactly when the triple existed");
                            }
                            TxCmd::SetCursor { name, state } => {
                                let st = cursor_state(state);
                                let cursor = Cursor::new(cursor_name(*name), st.clone());
                                <SqliteStore as CursorStore<VerifyingKey, u64>>::set_cursor(&store, &cursor)
                                    .await
                                    .map_err(|e| fx::err_str("set_cursor", e))?;
                                if model.cursors.insert(*name, st).is_some() {
                                    flags.cursor_overwritten = true;
                                }
                            }
                            TxCmd::DeleteCursor { name } => {
                                <SqliteStore as CursorStore<VerifyingKey, u64>>::delete_cursor(&store, cursor_name(*name))
                                    .await
                                    .map_err(|e| fx::err_str("delete_cursor", e))?;
                                model.cursors.remove(name);
                            }
                        }
                    }
                    store.commit(permit).await.map_err(|e| fx::err_str("commit", e))?;
                }
                Step::Direct(c) => match c {
                    DirectCmd::Get { op } => {
                        let i = *op as usize % POOL;
                        let got = get_any(&store, &pool[i], false).await?;
                        check_read(&format!("get_operation(op {i})"), got, &model, &pool[i])?;
                    }
                    DirectCmd::Has { op } => {
                        let i = *op as usize % POOL;
                        let got = has_any(&store, &pool[i], false).await?;
                        ensure_eq!(got, model.ops.contains_key(&pool[i].hash()), "has_operation(op {i})");
                    }
                    DirectCmd::DeletePayload { op } => {
                        let i = *op as usize % POOL;
                        let r = <SqliteStore as OperationStore<Operation<()>, Hash>>::delete_operation_payload(&store, &pool[i].hash())
                            .await
                            .map_err(|e| fx::err_str("delete_operation_payload", e))?;
                        let present = model.ops.contains_key(&pool[i].hash());
                        ensure_eq!(r, present, "delete_operation_payload(op {i}) must report true exactly when the id was present");
                        if let Some(b) = model.ops.get_mut(&pool[i].hash()) {
                            *b = false;
                        }
                    }
                    DirectCmd::Resolve { topic } => {
                        let got = <SqliteStore as TopicStore<Topic, VerifyingKey, u64>>::resolve(&store, &topic_of(*topic))
                            .await
                            .map_err(|e| fx::err_str("resolve", e))?;
                        let mut got_set: BTreeSet<(VerifyingKey, u64)> = BTreeSet::new();
                        for (a, ids) in &got {
                            ensure!(!ids.is_empty(), "resolve({topic}) lists an author without data ids");
                            for d in ids {
                                ensure!(got_set.insert((*a, *d)), "resolve({topic}) returns the pair ({a}, {d}) twice");
                            }
                        }
                        let want: BTreeSet<(VerifyingKey, u64)> = model
                            .topics
                            .iter()
                            .filter(|(t, _, _)| t == topic)
                            .map(|(_, a, d)| (fx::key(*a).verifying_key(), *d as u64))
                            .collect();
                        ensure_eq!(got_set, want, "resolve({topic}) differs from the set of associated (author, data id) pairs");
                    }
                    DirectCmd::GetCursor { name } => {
                        let got = <SqliteStore as CursorStore<VerifyingKey, u64>>::get_cursor(&store, cursor_name(*name))
                            .await
                            .map_err(|e| fx::err_str("get_cursor", e))?;
                        match (got, model.cursors.get(name)) {
                            (None, None) => {}
                            (Some(c), Some(st)) => {
                                let want_name = cursor_name(*name);
                                ensure_eq!(c.name(), want_name.as_str(), "get_cursor({name}): name of the cursor read back");
                                ensure_eq!(c.state(), st, "get_cursor({name}) is not the last cursor written under that name");
                            }
                            (g, m) => {
                                return Err(format!("get_cursor({name}): store has it: {}, model has it: {}", g.is_some(), m.is_some()));
                            }
                        }
                    }
                },
            }
            Ok(())
        }
        .await;
        if let Err(e) = r {
            return Err(format!("step {n} ({step:?}): {e}"));
        }
    }

    // Final sweep: every collection read back completely.
    for (i, any) in pool.iter().enumerate() {
        let got = get_any(&store, any, false).await?;
        check_read(&format!("final get_operation(op {i})"), got, &model, any)?;
    }
    store.pool().close().await;

    Ok(CaseOk::nontrivial(flags.ins_del_ins || flags.cursor_overwritten)
        .label_if(flags.ins_del_ins, "insert_delete_insert")
        .label_if(flags.cursor_overwritten, "cursor_overwritten")
        .label_if(flags.dup_insert, "duplicate_insert")
        .label_if(flags.dup_assoc, "duplicate_associate")
        .label_if(flags.tx_read_own_write, "tx_read_of_own_write"))
}

fn check(case: &Case) -> CaseResult {
    let rt = fx::runtime();
    let r = rt.block_on(run(case));
    drop(rt);
    r
}

fn op_index() -> impl Strategy<Value = u8> {
    // Biased to a few ids so that insert/delete/insert histories of one id are common.
    prop_oneof![3 => 0u8..3, 2 => 0u8..POOL as u8]
}

fn tx_cmd() -> impl Strategy<Value = TxCmd> {
    let op = op_index().boxed();
    prop_oneof![
        6 => (op.clone(), prop::bool::weighted(0.7), 0u8..3).prop_map(|(op, with_body, log)| TxCmd::Insert { op, with_body, log }),
        4 => op.clone().prop_map(|op| TxCmd::Delete { op }),
        4 => op.clone().prop_map(|op| TxCmd::GetTx { op }),
        1 => op.prop_map(|op| TxCmd::HasTx { op }),
        4 => (0u8..TOPICS, 0u8..AUTHORS, 0u8..DATA_IDS).prop_map(|(topic, author, data)| TxCmd::Associate { topic, author, data }),
        2 => (0u8..TOPICS, 0u8..AUTHORS, 0u8..DATA_IDS).prop_map(|(topic, author, data)| TxCmd::Remove { topic, author, data }),
        4 => (0u8..CURSORS, prop::collection::vec((0u8..AUTHORS, 0u8..4, prop_oneof![0u32..5, any::<u32>()]), 0..5))
            .prop_map(|(name, state)| TxCmd::SetCursor { name, state }),
        1 => (0u8..CURSORS).prop_map(|name| TxCmd::DeleteCursor { name }),
    ]
}

fn direct_cmd() -> impl Strategy<Value = DirectCmd> {
    let op = op_index().boxed();
    prop_oneof![
        3 => op.clone().prop_map(|op| DirectCmd::Get { op }),
        1 => op.clone().prop_map(|op| DirectCmd::Has { op }),
        2 => op.prop_map(|op| DirectCmd::DeletePayload { op }),
        3 => (0u8..TOPICS).prop_map(|topic| DirectCmd::Resolve { topic }),
        3 => (0u8..CURSORS).prop_map(|name| DirectCmd::GetCursor { name }),
    ]
}

fn case(max_steps: usize) -> impl Strategy<Value = Case> {
    prop::collection::vec(
        prop_oneof![
            2 => prop::collection::vec(tx_cmd(), 0..6).prop_map(Step::Tx),
            1 => direct_cmd().prop_map(Step::Direct),
        ],
        1..=max_steps,
    )
    .prop_map(|steps| Case { steps })
}

pub fn run_check(mut ctx: Ctx) -> ! {
    ctx.assume("payload deletion reports true whenever the id is stored (also when the body is already gone): map-update semantics");
    let max_steps = ctx.pick(40, 50);
    ctx.run_prop(
        Part::new(
            "collections_lockstep",
            "command sequences (<=40 steps quick / <=50 thorough; a step is a committed transaction of 0-5 writes/tx-reads or one direct read) over a pool of 8 operations with three extension types, 3 topics x 3 authors x 3 data ids, 3 cursor names with generated states, compared step by step with in-memory map/set models; non-trivial = some operation id sees insert -> delete -> insert, or a cursor is overwritten",
            1_500,
            20_000,
        )
        .min_nontrivial(0.3),
        move || case(max_steps),
        check,
    );
    ctx.finish()
}
