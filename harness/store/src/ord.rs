//! Orderer fixtures shared by C11 and C12: item newtype, dependency-graph cases, the reference
//! model and a probing store wrapper that records which store call a future is suspended in.

use std::cell::{Cell, RefCell};
use std::collections::{BTreeSet, HashSet};
use std::rc::Rc;

use engine::idx;
use engine::proptest::prelude::*;
use p2panda_core::traits::Digest;
use p2panda_core::{Hash, LogId, Operation};
use p2panda_store::operations::OperationStore;
use p2panda_store::orderer::{OrdererStore, OrdererTestExt};
use p2panda_store::sqlite::TransactionPermit;
use p2panda_store::{SqliteError, SqliteStore, Transaction};
use p2panda_stream::orderer::Ordering;
use serde::{Deserialize, Serialize};

use crate::fx;

#[derive(Clone, Debug, PartialEq, Serialize, Deserialize)]
pub struct DepsExt {
    pub dependencies: Vec<Hash>,
    pub index: u32,
}

/// Harness newtype around an operation whose header lists its dependencies.
#[derive(Clone, Debug)]
pub struct Item(pub Operation<DepsExt>);

impl Digest<Hash> for Item {
    fn hash(&self) -> Hash {
        self.0.hash
    }
}

impl Ordering<Hash> for Item {
    fn dependencies(&self) -> &[Hash] {
        &self.0.header.extensions.dependencies
    }
}

// ---------------------------------------------------------------------------------------------
// Cases
// ---------------------------------------------------------------------------------------------

#[derive(Clone, Debug, Serialize, Deserialize)]
pub enum Dep {
    /// Some earlier item (raw value mapped monotonically onto 0..i).
    Earlier(u16),
    /// Earlier item with this index (modulo i).
    Exact(u8),
    /// An item that is never delivered.
    Ghost(u8),
    /// The previous entry of the list once more (a repeated dependency entry).
    Repeat,
}

#[derive(Clone, Debug, Serialize, Deserialize)]
pub struct Graph {
    /// Dependency list of item i (entries refer to items with smaller index: acyclic).
    pub items: Vec<Vec<Dep>>,
    /// Sort keys giving the delivery permutation.
    pub order: Vec<u16>,
    /// Items that are never delivered (missing dependencies for their dependents).
    pub skip: Vec<bool>,
    /// Duplicate deliveries: (item, position in the delivery list).
    pub extras: Vec<(u16, u16)>,
    /// Drain the ready queue after delivery j?
    pub drains: Vec<bool>,
}

/// Resolved form of a graph.
pub struct Resolved {
    /// Dependency lists as item indices; `None` = ghost.
    pub lists: Vec<Vec<Option<usize>>>,
    pub ghosts: Vec<Vec<u8>>,
    /// Delivery sequence (item indices, with duplicates).
    pub deliveries: Vec<usize>,
    pub has_repeat: bool,
    pub has_diamond: bool,
    pub has_ghost: bool,
}

impl Graph {
    pub fn resolve(&self) -> Resolved {
        let n = self.items.len();
        let mut lists: Vec<Vec<Option<usize>>> = Vec::new();
        let mut ghosts: Vec<Vec<u8>> = Vec::new();
        let mut has_repeat = false;
        let mut has_ghost = false;
        for (i, deps) in self.items.iter().enumerate() {
            let mut list: Vec<Option<usize>> = Vec::new();
            let mut glist: Vec<u8> = Vec::new();
            for d in deps {
                match d {
                    Dep::Earlier(raw) if i > 0 => {
                        list.push(Some(idx(*raw, i)));
                        glist.push(0);
                    }
                    Dep::Exact(e) if i > 0 => {
                        list.push(Some(*e as usize % i));
                        glist.push(0);
                    }
                    Dep::Earlier(_) | Dep::Exact(_) => {}
                    Dep::Ghost(g) => {
                        list.push(None);
                        glist.push(*g % 3);
                        has_ghost = true;
                    }
                    Dep::Repeat => {
                        if let (Some(last), Some(gl)) = (list.last().copied(), glist.last().copied()) {
                            list.push(last);
                            glist.push(gl);
                        }
                    }
                }
            }
            // Is some entry present twice?
            let mut seen = BTreeSet::new();
            for (d, g) in list.iter().zip(glist.iter()) {
                if !seen.insert((*d, *g)) {
                    has_repeat = true;
                }
            }
            lists.push(list);
            ghosts.push(glist);
        }
        // Diamond: an item with two distinct (transitive) paths to a common ancestor; the cheap
        // sufficient form used for classification: two distinct direct deps sharing an ancestor.
        let mut anc: Vec<BTreeSet<usize>> = vec![BTreeSet::new(); n];
        for i in 0..n {
            let mut a = BTreeSet::new();
            for d in lists[i].iter().flatten() {
                a.insert(*d);
                a.extend(anc[*d].iter().copied());
            }
            anc[i] = a;
        }
        let mut has_diamond = false;
        for i in 0..n {
            let direct: BTreeSet<usize> = lists[i].iter().flatten().copied().collect();
            let direct: Vec<usize> = direct.into_iter().collect();
            for x in 0..direct.len() {
                for y in x + 1..direct.len() {
                    let ax: BTreeSet<usize> = anc[direct[x]].iter().copied().chain([direct[x]]).collect();
                    let ay: BTreeSet<usize> = anc[direct[y]].iter().copied().chain([direct[y]]).collect();
                    if ax.intersection(&ay).next().is_some() {
                        has_diamond = true;
                    }
                }
            }
        }
        let perm = engine::permutation(&self.order, n);
        let mut deliveries: Vec<usize> = perm.into_iter().filter(|i| !self.skip.get(*i).copied().unwrap_or(false)).collect();
        for (item, pos) in &self.extras {
            if n == 0 {
                break;
            }
            let it = idx(*item, n);
            if self.skip.get(it).copied().unwrap_or(false) {
                continue;
            }
            let p = idx(*pos, deliveries.len() + 1);
            deliveries.insert(p, it);
        }
        Resolved {
            lists,
            ghosts,
            deliveries,
            has_repeat,
            has_diamond,
            has_ghost,
        }
    }
}

impl Resolved {
    /// Builds the items; `dedup` removes repeated entries from every dependency list (keeping the
    /// first occurrence).
    pub fn build(&self, dedup: bool) -> Vec<Item> {
        let sk = fx::key(9);
        let mut out: Vec<Item> = Vec::new();
        for (i, list) in self.lists.iter().enumerate() {
            let mut deps: Vec<Hash> = Vec::new();
            for (d, g) in list.iter().zip(self.ghosts[i].iter()) {
                let h = match d {
                    Some(j) => out[*j].0.hash,
                    None => Hash::digest([0x67, *g]),
                };
                if dedup && deps.contains(&h) {
                    continue;
                }
                deps.push(h);
            }
            let body = [i as u8, 0x11, 0x22];
            // Well-formed header: a backlink exactly when seq_num > 0.
            let backlink = if i == 0 { None } else { Some(Hash::digest([0xb7, i as u8])) };
            let op = fx::make_op(
                &sk,
                i as u32,
                backlink,
                &body,
                true,
                DepsExt {
                    dependencies: deps,
                    index: i as u32,
                },
            );
            out.push(Item(op));
        }
        out
    }

    /// Reference model: least fixed point of "delivered and every dependency (as a set) released".
    pub fn released(&self, delivered: &BTreeSet<usize>) -> BTreeSet<usize> {
        let mut r: BTreeSet<usize> = BTreeSet::new();
        loop {
            let mut changed = false;
            for i in delivered {
                if r.contains(i) {
                    continue;
                }
                let ok = self.lists[*i].iter().all(|d| match d {
                    Some(j) => r.contains(j),
                    None => false,
                });
                if ok {
                    r.insert(*i);
                    changed = true;
                }
            }
            if !changed {
                return r;
            }
        }
    }
}

pub fn graph(max_items: usize) -> impl Strategy<Value = Graph> {
    let dep = prop_oneof![
        6 => any::<u16>().prop_map(Dep::Earlier),
        1 => (0u8..3).prop_map(Dep::Ghost),
        3 => Just(Dep::Repeat),
    ];
    (1..=max_items).prop_flat_map(move |n| {
        (
            prop::collection::vec(prop::collection::vec(dep.clone(), 0..5), n),
            prop::collection::vec(any::<u16>(), n),
            prop::collection::vec(prop::bool::weighted(0.12), n),
            prop::collection::vec((any::<u16>(), any::<u16>()), 0..4),
            prop::collection::vec(prop::bool::weighted(0.4), n + 4),
        )
            .prop_map(|(items, order, skip, extras, drains)| Graph {
                items,
                order,
                skip,
                extras,
                drains,
            })
    })
}

// ---------------------------------------------------------------------------------------------
// Probing store wrapper
// ---------------------------------------------------------------------------------------------

#[derive(Clone, Copy, Debug, PartialEq, Eq)]
pub enum Call {
    Begin,
    Commit,
    Rollback,
    TakeNextReady,
    GetOperation,
    Other,
}

#[derive(Default)]
pub struct Probe {
    inflight: Cell<u32>,
    /// Store call a future is currently suspended in (innermost).
    current: RefCell<Vec<Call>>,
    /// Calls entered since the last `reset`, in order, with completion flag.
    pub entered: RefCell<Vec<Call>>,
    /// Result of the last completed `take_next_ready` since the last `reset`.
    pub took: RefCell<Option<Hash>>,
}

impl Probe {
    pub fn reset(&self) {
        self.entered.borrow_mut().clear();
        *self.took.borrow_mut() = None;
    }

    pub fn inflight(&self) -> u32 {
        self.inflight.get()
    }

    pub fn current(&self) -> Option<Call> {
        self.current.borrow().last().copied()
    }

    pub fn entered_call(&self, c: Call) -> bool {
        self.entered.borrow().contains(&c)
    }
}

struct Guard<'a> {
    probe: &'a Probe,
}

impl Drop for Guard<'_> {
    fn drop(&mut self) {
        self.probe.inflight.set(self.probe.inflight.get() - 1);
        self.probe.current.borrow_mut().pop();
    }
}

/// `SqliteStore` behind the traits the orderer needs, for `Item`s, recording every call.
#[derive(Clone)]
pub struct ProbeStore {
    pub inner: SqliteStore,
    pub probe: Rc<Probe>,
}

impl ProbeStore {
    pub fn new(inner: SqliteStore) -> Self {
        Self {
            inner,
            probe: Rc::new(Probe::default()),
        }
    }

    fn enter(&self, c: Call) -> Guard<'_> {
        self.probe.inflight.set(self.probe.inflight.get() + 1);
        self.probe.current.borrow_mut().push(c);
        self.probe.entered.borrow_mut().push(c);
        Guard { probe: &self.probe }
    }

    /// Number of items waiting in the ready queue (own short transaction).
    pub async fn queue_len(&self) -> Result<usize, String> {
        let permit = self.inner.begin().await.map_err(|e| fx::err_str("begin", e))?;
        let n = self.inner.ready_queue_len().await;
        self.inner.rollback(permit).await.map_err(|e| fx::err_str("rollback", e))?;
        Ok(n)
    }

    /// Stores the operation of an item (what ingest does before the orderer sees it).
    pub async fn store_item(&self, item: &Item) -> Result<(), String> {
        let permit = self.inner.begin().await.map_err(|e| fx::err_str("begin", e))?;
        self.inner
            .insert_operation(&item.0.hash, &item.0, &0u64)
            .await
            .map_err(|e| fx::err_str("insert_operation", e))?;
        self.inner.commit(permit).await.map_err(|e| fx::err_str("commit", e))
    }
}

impl Transaction for ProbeStore {
    type Error = SqliteError;
    type Permit = TransactionPermit;

    async fn begin(&self) -> Result<TransactionPermit, SqliteError> {
        let _g = self.enter(Call::Begin);
        self.inner.begin().await
    }

    async fn rollback(&self, permit: TransactionPermit) -> Result<(), SqliteError> {
        let _g = self.enter(Call::Rollback);
        self.inner.rollback(permit).await
    }

    async fn commit(&self, permit: TransactionPermit) -> Result<(), SqliteError> {
        let _g = self.enter(Call::Commit);
        self.inner.commit(permit).await
    }
}

impl OrdererStore<Hash> for ProbeStore {
    type Error = SqliteError;

    async fn mark_ready(&self, id: Hash) -> Result<bool, SqliteError> {
        let _g = self.enter(Call::Other);
        self.inner.mark_ready(id).await
    }

    async fn mark_pending(&self, id: Hash, dependencies: Vec<Hash>) -> Result<bool, SqliteError> {
        let _g = self.enter(Call::Other);
        self.inner.mark_pending(id, dependencies).await
    }

    async fn get_next_pending(&self, id: Hash) -> Result<Option<HashSet<(Hash, Vec<Hash>)>>, SqliteError> {
        let _g = self.enter(Call::Other);
        self.inner.get_next_pending(id).await
    }

    async fn take_next_ready(&self) -> Result<Option<Hash>, SqliteError> {
        let _g = self.enter(Call::TakeNextReady);
        let r = <SqliteStore as OrdererStore<Hash>>::take_next_ready(&self.inner).await;
        if let Ok(Some(id)) = &r {
            *self.probe.took.borrow_mut() = Some(*id);
        }
        r
    }

    async fn remove_pending(&self, id: Hash) -> Result<bool, SqliteError> {
        let _g = self.enter(Call::Other);
        self.inner.remove_pending(id).await
    }

    async fn ready(&self, keys: &[Hash]) -> Result<bool, SqliteError> {
        let _g = self.enter(Call::Other);
        self.inner.ready(keys).await
    }
}

impl OperationStore<Item, Hash> for ProbeStore {
    type Error = SqliteError;

    async fn insert_operation<L: LogId>(&self, id: &Hash, operation: &Item, log_id: &L) -> Result<bool, SqliteError> {
        let _g = self.enter(Call::Other);
        self.inner.insert_operation(id, &operation.0, log_id).await
    }

    async fn get_operation(&self, id: &Hash) -> Result<Option<Item>, SqliteError> {
        let _g = self.enter(Call::GetOperation);
        let r: Option<Operation<DepsExt>> = self.inner.get_operation(id).await?;
        Ok(r.map(Item))
    }

    async fn get_operation_tx(&self, id: &Hash) -> Result<Option<Item>, SqliteError> {
        let _g = self.enter(Call::Other);
        let r: Option<Operation<DepsExt>> = self.inner.get_operation_tx(id).await?;
        Ok(r.map(Item))
    }

    async fn has_operation(&self, id: &Hash) -> Result<bool, SqliteError> {
        let _g = self.enter(Call::Other);
        <SqliteStore as OperationStore<Operation<DepsExt>, Hash>>::has_operation(&self.inner, id).await
    }

    async fn has_operation_tx(&self, id: &Hash) -> Result<bool, SqliteError> {
        let _g = self.enter(Call::Other);
        <SqliteStore as OperationStore<Operation<DepsExt>, Hash>>::has_operation_tx(&self.inner, id).await
    }

    async fn delete_operation(&self, id: &Hash) -> Result<bool, SqliteError> {
        let _g = self.enter(Call::Other);
        <SqliteStore as OperationStore<Operation<DepsExt>, Hash>>::delete_operation(&self.inner, id).await
    }

    async fn delete_operation_payload(&self, id: &Hash) -> Result<bool, SqliteError> {
        let _g = self.enter(Call::Other);
        <SqliteStore as OperationStore<Operation<DepsExt>, Hash>>::delete_operation_payload(&self.inner, id).await
    }
}
