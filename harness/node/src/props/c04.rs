//! C04 Pruning is authenticated and scoped to the prune operation's own log.
//!
//! Part `pipeline_histories` (high volume): the single function every entry point (sync, import,
//! publish, replay) funnels into – `Pipeline::process(Event::new(op, log_id, topic, prune_flag))`,
//! reached through the hook re-export – is fed a generated stream of honest and hostile
//! operations on a store pre-filled with victims' logs. After *every* operation the entries of
//! *every* (author, log) are read back and compared with the expectation:
//!
//! * if the event's ingest failed (signature forged, link invalid, ...) nothing changed anywhere;
//! * if it completed and carries the prune flag, exactly the entries of its own (author, log)
//!   with a smaller sequence number are gone and the operation itself is stored;
//! * if it completed without the flag, only the operation itself was added.
//!
//! Independent by-construction expectations pin the verdicts of the controlled classes: a header
//! signed by the attacker but claiming a victim must fail; honest next operations must complete.
//!
//! Part `node_histories`: the same through a real `Node` (`StreamPublisher::import`, the node's
//! own `publish`/`prune`, and a replay via `stream_from(Start)`), comparing `node.store()`.

use std::collections::BTreeMap;
use std::time::Duration;

use engine::proptest::prelude::*;
use engine::{CaseOk, CaseResult, Ctx, Part, Watchdog, ensure, ensure_eq, idx};
use futures_util::StreamExt;
use p2panda::node::AckPolicy;
use p2panda::operation::{Extensions, LogId};
use p2panda::processor::verif::{Pipeline, TaskTracker};
use p2panda::processor::{Event, ProcessorError};
use p2panda::streams::{StreamEvent, StreamFrom};
use p2panda_core::{Body, Hash, Header, Operation, SigningKey, Topic, VerifyingKey};
use p2panda_store::SqliteStore;
use p2panda_store::logs::LogStore;
use serde::{Deserialize, Serialize};

type Op = Operation<Extensions>;
type Snapshot = BTreeMap<(usize, usize), Vec<(u32, Hash)>>;

#[derive(Clone, Debug, Serialize, Deserialize)]
enum SeqSel {
    Zero,
    Mid(u16),
    Height,
    Above(u8),
    Max,
}

#[derive(Clone, Debug, Serialize, Deserialize)]
enum Attack {
    /// Signed by the attacker, claims `victim`'s key.
    Forged { victim: u8, topic: u8, seq: SeqSel, prune: bool, body: bool, backlink: bool },
    /// Validly signed by the author, prune flag set, but seq does not extend the log.
    StalePrune { author: u8, topic: u8, seq: SeqSel },
    /// Validly signed, no flag, seq = height + 1, backlink points elsewhere.
    BrokenBacklink { author: u8, topic: u8 },
    /// Validly signed, flagged, seq = height + 1 + gap.
    HonestPrune { author: u8, topic: u8, gap: u8, body: bool },
    /// Validly signed next operation.
    HonestPlain { author: u8, topic: u8 },
    /// An already stored operation of this log again (duplicate).
    Duplicate { author: u8, topic: u8, which: u16 },
    /// Reuses the id (caller-supplied `hash` field), key and signature of a *stored* operation of
    /// the victim but carries another header (prune flag, other seq): must fail validation.
    ForgedStoredId { victim: u8, topic: u8, which: u16, seq: SeqSel, prune: bool },
}

#[derive(Clone, Debug, Serialize, Deserialize)]
struct Case {
    authors: u8,
    topics: u8,
    /// Number of pre-filled operations per (author, topic), row-major.
    prefill: Vec<u8>,
    stream: Vec<Attack>,
}

struct World {
    keys: Vec<SigningKey>, // index `attacker_idx` = attacker
    attacker_idx: usize,
    topics: Vec<Topic>,
    /// Harness' knowledge of what each log's accepted chain looks like (to build honest ops).
    chains: BTreeMap<(usize, usize), Vec<Op>>,
}

impl World {
    fn new(authors: usize, topics: usize) -> World {
        let mut keys: Vec<SigningKey> = (0..authors).map(|i| SigningKey::from_bytes(&[i as u8 + 1; 32])).collect();
        keys.push(SigningKey::from_bytes(&[0xEE; 32]));
        World {
            attacker_idx: keys.len() - 1,
            keys,
            topics: (0..topics).map(|i| Topic::from([i as u8 + 0x70; 32])).collect(),
            chains: BTreeMap::new(),
        }
    }

    fn attacker(&self) -> usize {
        self.attacker_idx
    }

    fn height(&self, a: usize, t: usize) -> Option<u32> {
        self.chains.get(&(a, t)).and_then(|c| c.last()).map(|o| o.header.seq_num)
    }

    fn build(
        &self,
        signer: usize,
        claimed: usize,
        topic: usize,
        seq: u32,
        backlink: Option<Hash>,
        prune: bool,
        body: Option<Vec<u8>>,
    ) -> Op {
        let body = body.map(|b| Body::new(&b));
        let mut header = Header::<Extensions> {
            version: 1,
            verifying_key: self.keys[claimed].verifying_key(),
            signature: None,
            payload_size: body.as_ref().map(|b| b.size()).unwrap_or(0),
            payload_hash: body.as_ref().map(|b| b.hash()),
            seq_num: seq,
            backlink,
            extensions: Extensions::from_topic(self.topics[topic]).set_prune_flag(prune),
        };
        header.sign(&self.keys[signer]);
        // `sign` stores the signer's signature; the claimed key stays as set above.
        header.verifying_key = self.keys[claimed].verifying_key();
        Operation {
            hash: header.hash(),
            header,
            body,
        }
    }

    fn next_honest(&self, a: usize, t: usize, prune: bool, gap: u32, body: bool) -> Op {
        let (seq, backlink) = match self.chains.get(&(a, t)).and_then(|c| c.last()) {
            Some(last) => (last.header.seq_num + 1 + gap, Some(last.hash)),
            None => (gap, if gap > 0 { Some(Hash::digest(b"pruned away")) } else { None }),
        };
        let body = if body { Some(p2panda_core::cbor::encode_cbor(&format!("{a}/{t}/{seq}")).unwrap()) } else { None };
        self.build(a, a, t, seq, backlink, prune, body)
    }

    fn select_seq(&self, sel: &SeqSel, a: usize, t: usize) -> u32 {
        let h = self.height(a, t).unwrap_or(0);
        match sel {
            SeqSel::Zero => 0,
            SeqSel::Mid(r) => idx(*r, h as usize + 1) as u32,
            SeqSel::Height => h,
            SeqSel::Above(d) => h.saturating_add(*d as u32 + 1),
            SeqSel::Max => u32::MAX,
        }
    }

    /// Applies an accepted operation to the harness' chain knowledge.
    fn accept(&mut self, a: usize, t: usize, op: &Op, prune: bool) {
        let chain = self.chains.entry((a, t)).or_default();
        if prune {
            chain.retain(|o| o.header.seq_num >= op.header.seq_num);
        }
        if !chain.iter().any(|o| o.hash == op.hash) {
            chain.push(op.clone());
            chain.sort_by_key(|o| o.header.seq_num);
        }
    }
}

async fn snapshot(store: &SqliteStore, world: &World) -> Result<Snapshot, String> {
    let mut snap = Snapshot::new();
    for (a, key) in world.keys.iter().enumerate() {
        for (t, topic) in world.topics.iter().enumerate() {
            let entries: Option<Vec<(Op, Vec<u8>)>> = LogStore::<Op, VerifyingKey, LogId, u32, Hash>::get_log_entries(
                store,
                &key.verifying_key(),
                &LogId::from_topic(*topic),
                None,
                None,
            )
            .await
            .map_err(|e| format!("get_log_entries: {e}"))?;
            let mut list: Vec<(u32, Hash)> = entries
                .unwrap_or_default()
                .into_iter()
                .map(|(op, _)| (op.header.seq_num, op.hash))
                .collect();
            // Compared as a set: the order of equal sequence numbers is not C04's concern.
            list.sort();
            snap.insert((a, t), list);
        }
    }
    Ok(snap)
}

struct Built {
    op: Op,
    claimed: usize,
    topic: usize,
    /// By-construction expectation: Some(true) must complete, Some(false) must fail ingest.
    must: Option<bool>,
    hostile_prune_on_nonempty: bool,
}

fn build_attack(world: &World, attack: &Attack, n_authors: usize, n_topics: usize) -> Option<Built> {
    let a_of = |x: &u8| (*x as usize) % n_authors;
    let t_of = |x: &u8| (*x as usize) % n_topics;
    Some(match attack {
        Attack::Forged { victim, topic, seq, prune, body, backlink } => {
            let (v, t) = (a_of(victim), t_of(topic));
            let s = world.select_seq(seq, v, t);
            let bl = if *backlink {
                world.chains.get(&(v, t)).and_then(|c| c.last()).map(|o| o.hash).or(Some(Hash::digest(b"x")))
            } else if s > 0 {
                Some(Hash::digest(b"forged backlink"))
            } else {
                None
            };
            let body = if *body { Some(p2panda_core::cbor::encode_cbor(&"forged").unwrap()) } else { None };
            let op = world.build(world.attacker(), v, t, s, bl, *prune, body);
            Built {
                op,
                claimed: v,
                topic: t,
                must: Some(false),
                hostile_prune_on_nonempty: *prune && world.height(v, t).is_some(),
            }
        }
        Attack::StalePrune { author, topic, seq } => {
            let (a, t) = (a_of(author), t_of(topic));
            let h = world.height(a, t)?;
            let s = match seq {
                SeqSel::Above(_) | SeqSel::Max => h,
                other => world.select_seq(other, a, t).min(h),
            };
            let bl = if s > 0 { Some(Hash::digest(b"stale")) } else { None };
            let op = world.build(a, a, t, s, bl, true, None);
            if world.chains.get(&(a, t)).map(|c| c.iter().any(|o| o.hash == op.hash)).unwrap_or(false) {
                return None;
            }
            Built {
                op,
                claimed: a,
                topic: t,
                must: None,
                hostile_prune_on_nonempty: true,
            }
        }
        Attack::BrokenBacklink { author, topic } => {
            let (a, t) = (a_of(author), t_of(topic));
            let h = world.height(a, t)?;
            let op = world.build(a, a, t, h + 1, Some(Hash::digest(b"elsewhere")), false, Some(p2panda_core::cbor::encode_cbor(&"bb").unwrap()));
            Built {
                op,
                claimed: a,
                topic: t,
                must: Some(false),
                hostile_prune_on_nonempty: false,
            }
        }
        Attack::HonestPrune { author, topic, gap, body } => {
            // The attacker may honestly prune its own log too (author index n_authors).
            let a = (*author as usize) % (n_authors + 1);
            let t = t_of(topic);
            let op = world.next_honest(a, t, true, (*gap % 3) as u32, *body);
            Built {
                op,
                claimed: a,
                topic: t,
                must: Some(true),
                hostile_prune_on_nonempty: false,
            }
        }
        Attack::HonestPlain { author, topic } => {
            let a = (*author as usize) % (n_authors + 1);
            let t = t_of(topic);
            let op = world.next_honest(a, t, false, 0, true);
            Built {
                op,
                claimed: a,
                topic: t,
                must: Some(true),
                hostile_prune_on_nonempty: false,
            }
        }
        Attack::ForgedStoredId { victim, topic, which, seq, prune } => {
            let (v, t) = (a_of(victim), t_of(topic));
            let chain = world.chains.get(&(v, t))?;
            if chain.is_empty() {
                return None;
            }
            let stored = &chain[idx(*which, chain.len())];
            let s = world.select_seq(seq, v, t);
            let mut op = stored.clone();
            op.header.seq_num = s;
            op.header.backlink = if s > 0 { Some(Hash::digest(b"forged backlink")) } else { None };
            op.header.extensions = Extensions::from_topic(world.topics[t]).set_prune_flag(*prune);
            if op.header == stored.header {
                return None;
            }
            // `op.hash` and `op.header.signature` stay those of the stored operation.
            Built {
                op,
                claimed: v,
                topic: t,
                must: Some(false),
                hostile_prune_on_nonempty: *prune,
            }
        }
        Attack::Duplicate { author, topic, which } => {
            let (a, t) = (a_of(author), t_of(topic));
            let chain = world.chains.get(&(a, t))?;
            if chain.is_empty() {
                return None;
            }
            let op = chain[idx(*which, chain.len())].clone();
            Built {
                op,
                claimed: a,
                topic: t,
                must: Some(true),
                hostile_prune_on_nonempty: false,
            }
        }
    })
}

fn expected_after(before: &Snapshot, b: &Built, ingest_ok: bool) -> Snapshot {
    let mut after = before.clone();
    if ingest_ok {
        let prune = b.op.header.extensions.prune_flag().is_set();
        let e = after.entry((b.claimed, b.topic)).or_default();
        if prune {
            e.retain(|(s, _)| *s >= b.op.header.seq_num);
        }
        if !e.iter().any(|(_, h)| *h == b.op.hash) {
            e.push((b.op.header.seq_num, b.op.hash));
            e.sort();
        }
    }
    after
}

fn describe(b: &Built) -> String {
    format!(
        "op(claimed author {}, topic {}, seq {}, prune {}, body {})",
        b.claimed,
        b.topic,
        b.op.header.seq_num,
        b.op.header.extensions.prune_flag().is_set(),
        b.op.body.is_some()
    )
}

fn check_pipeline(case: &Case) -> CaseResult {
    let _wd = Watchdog::arm("C04 pipeline case", Duration::from_secs(120));
    let rt = tokio::runtime::Builder::new_current_thread()
        .enable_all()
        .build()
        .map_err(|e| e.to_string())?;
    rt.block_on(async {
        let n_authors = case.authors.clamp(2, 3) as usize;
        let n_topics = case.topics.clamp(1, 2) as usize;
        let mut world = World::new(n_authors, n_topics);
        let store = SqliteStore::temporary().await;
        let pipeline = Pipeline::<LogId, Extensions, Topic>::new(store.clone(), TaskTracker::new());

        let process = |op: Op, topic: Topic| {
            let pipeline = pipeline.clone();
            async move {
                let prune = op.header.extensions.prune_flag();
                pipeline
                    .process(Event::verif_new(op, LogId::from_topic(topic), topic, prune))
                    .await
            }
        };

        // Pre-fill the victims' logs with honest chains.
        for a in 0..n_authors {
            for t in 0..n_topics {
                let n = case.prefill.get(a * n_topics + t).copied().unwrap_or(1) % 7;
                for _ in 0..n {
                    let op = world.next_honest(a, t, false, 0, true);
                    let ev = process(op.clone(), world.topics[t]).await;
                    ensure!(ev.is_completed(), "prefill operation was not accepted: {:?}", ev.failure_reason());
                    world.accept(a, t, &op, false);
                }
            }
        }

        let mut nontrivial = false;
        let mut tainted: std::collections::BTreeSet<(usize, usize)> = Default::default();
        let mut forged_n = 0;
        let mut honest_prunes = 0;
        for (i, attack) in case.stream.iter().enumerate() {
            let Some(b) = build_attack(&world, attack, n_authors, n_topics) else {
                continue;
            };
            let before = snapshot(&store, &world).await?;
            let ev = process(b.op.clone(), world.topics[b.topic]).await;
            let ingest_ok = match ev.failure_reason() {
                None => true,
                Some(ProcessorError::Ingest(_)) => false,
                Some(ProcessorError::LogPrune(e)) => return Err(format!("log prune processor failed at step {i}: {e}")),
            };
            // If a stale prune-flagged operation was accepted into this log before (C03/C05's
            // question), the harness' knowledge of the chain tip is no longer reliable: only the
            // consequences are asserted for that log from then on.
            let must = if tainted.contains(&(b.claimed, b.topic)) { None } else { b.must };
            if let Some(must) = must {
                ensure_eq!(
                    ingest_ok,
                    must,
                    "step {i}: {} ({attack:?}) has the wrong validation verdict ({:?})",
                    describe(&b),
                    ev.failure_reason().map(|e| e.to_string())
                );
            }
            let after = snapshot(&store, &world).await?;
            let expected = expected_after(&before, &b, ingest_ok);
            if after != expected {
                let mut diff = Vec::new();
                for k in expected.keys() {
                    if after.get(k) != expected.get(k) {
                        diff.push(format!(
                            "log(author {}, topic {}): stored seqs {:?}, expected {:?}",
                            k.0,
                            k.1,
                            after[k].iter().map(|e| e.0).collect::<Vec<_>>(),
                            expected[k].iter().map(|e| e.0).collect::<Vec<_>>()
                        ));
                    }
                }
                return Err(format!(
                    "step {i}: after {} {} ({attack:?}) the store differs: {}",
                    if ingest_ok { "ACCEPTED" } else { "REJECTED" },
                    describe(&b),
                    diff.join("; ")
                ));
            }
            if ingest_ok {
                let prune = b.op.header.extensions.prune_flag().is_set();
                world.accept(b.claimed, b.topic, &b.op, prune);
                if matches!(attack, Attack::StalePrune { .. }) {
                    tainted.insert((b.claimed, b.topic));
                }
                if prune {
                    honest_prunes += 1;
                }
            } else if b.hostile_prune_on_nonempty {
                nontrivial = true;
            }
            if matches!(attack, Attack::Forged { .. }) {
                forged_n += 1;
            }
        }
        // Release the pipeline thread and the SQLite connections of this case explicitly (thousands
        // of cases per run would otherwise pile up file descriptors until they are reaped).
        drop(pipeline);
        store.pool().close().await;
        Ok(CaseOk::nontrivial(nontrivial)
            .label_if(forged_n > 0, "has_forged")
            .label_if(!tainted.is_empty(), "stale_prune_was_accepted")
            .label_if(honest_prunes > 0, "has_accepted_prune")
            .label_if(n_topics > 1, "two_topics"))
    })
}

// ---------------------------------------------------------------------------------------------

#[derive(Clone, Debug, Serialize, Deserialize)]
enum NodeStep {
    /// Import a batch (honest chain extensions of foreign authors mixed with forged operations).
    Import(Vec<Attack>),
    /// The node publishes / prunes in its own log.
    Publish,
    Prune(bool),
    /// Re-open the stream from the start (replays every stored operation through the pipeline).
    ReplayFromStart,
}

#[derive(Clone, Debug, Serialize, Deserialize)]
struct NodeCase {
    prefill: Vec<u8>,
    steps: Vec<NodeStep>,
}

fn check_node(case: &NodeCase) -> CaseResult {
    let _wd = Watchdog::arm("C04 node case", Duration::from_secs(180));
    let rt = tokio::runtime::Builder::new_multi_thread()
        .worker_threads(2)
        .enable_all()
        .build()
        .map_err(|e| e.to_string())?;
    rt.block_on(async {
        let n_authors = 2usize;
        let n_topics = 1usize;
        let mut world = World::new(n_authors, n_topics);
        let node_key = SigningKey::from_bytes(&[0x99; 32]);
        let node = p2panda::builder()
            .signing_key(node_key.clone())
            .database_url("sqlite::memory:")
            .ack_policy(AckPolicy::Automatic)
            .spawn()
            .await
            .map_err(|e| format!("node spawn: {e}"))?;
        let topic = world.topics[0];
        // The node itself is one more tracked author (index after the attacker).
        world.keys.push(node_key.clone());
        let node_idx = world.keys.len() - 1;
        let store = node.store();
        let (mut tx, mut rx) = node.stream::<String>(topic).await.map_err(|e| format!("stream: {e}"))?;

        let mut nontrivial = false;
        let mut session = 0u64;

        // Pre-fill through import.
        let mut pre = Vec::new();
        for a in 0..n_authors {
            let n = case.prefill.get(a).copied().unwrap_or(2) % 6 + 1;
            for _ in 0..n {
                let op = world.next_honest(a, 0, false, 0, true);
                world.accept(a, 0, &op, false);
                pre.push(op);
            }
        }
        let mut batches: Vec<(Vec<Op>, Vec<Built>)> = Vec::new();
        batches.push((pre, vec![]));

        // Runs one import to completion and returns the per-operation outcomes.
        async fn run_import(
            tx: &p2panda::streams::StreamPublisher<String>,
            rx: &mut p2panda::streams::StreamSubscription<String>,
            ops: Vec<Op>,
        ) -> Result<Vec<(Hash, bool)>, String> {
            // The import request is only answered once the stream task is past its replay phase,
            // which in turn needs the subscription to be drained: issue it concurrently.
            let tx = tx.clone();
            let request = tokio::spawn(async move {
                match tx.import(futures_util::stream::iter(ops)).await {
                    Ok(import) => {
                        let _ = import.await;
                        Ok(())
                    }
                    Err(e) => Err(format!("import: {e}")),
                }
            });
            let mut outcomes = Vec::new();
            while let Some(ev) = rx.next().await {
                match ev {
                    StreamEvent::Processed { operation, .. } => outcomes.push((operation.id(), true)),
                    StreamEvent::ProcessingFailed { event, .. } => {
                        use p2panda_core::traits::Digest;
                        outcomes.push((event.hash(), false))
                    }
                    StreamEvent::ImportEnded { .. } => break,
                    _ => {}
                }
            }
            request.await.map_err(|e| format!("import task: {e}"))??;
            Ok(outcomes)
        }

        let (pre_ops, _) = batches.pop().unwrap();
        let outcomes = run_import(&tx, &mut rx, pre_ops.clone()).await?;
        ensure!(
            outcomes.iter().filter(|o| o.1).count() == pre_ops.len(),
            "prefill import: {} of {} operations processed",
            outcomes.iter().filter(|o| o.1).count(),
            pre_ops.len()
        );
        session += 1;

        for (si, step) in case.steps.iter().enumerate() {
            let before = snapshot(&store, &world).await?;
            let mut expected = before.clone();
            match step {
                NodeStep::Import(attacks) => {
                    let mut built = Vec::new();
                    for a in attacks {
                        // Node level uses only classes whose verdict is known by construction.
                        let keep = matches!(a, Attack::Forged { .. } | Attack::ForgedStoredId { .. } | Attack::HonestPlain { .. } | Attack::HonestPrune { .. });
                        if !keep {
                            continue;
                        }
                        if let Some(b) = build_attack(&world, a, n_authors, n_topics) {
                            if b.claimed == world.attacker() || b.claimed < n_authors {
                                if b.must == Some(true) {
                                    let prune = b.op.header.extensions.prune_flag().is_set();
                                    world.accept(b.claimed, b.topic, &b.op, prune);
                                }
                                built.push(b);
                            }
                        }
                    }
                    let ops: Vec<Op> = built.iter().map(|b| b.op.clone()).collect();
                    let outcomes = run_import(&tx, &mut rx, ops).await?;
                    session += 1;
                    for b in &built {
                        let ok = b.must == Some(true);
                        expected = expected_after(&expected, b, ok);
                        if !ok && b.hostile_prune_on_nonempty {
                            nontrivial = true;
                        }
                    }
                    // Reported outcomes, per operation id. A forged operation may carry the id of
                    // a genuine one (class ForgedStoredId), so outcomes are compared as counts.
                    let ids: std::collections::BTreeSet<Hash> = built.iter().map(|b| b.op.hash).collect();
                    for id in ids {
                        let honest_with_body = built.iter().filter(|b| b.op.hash == id && b.must == Some(true) && b.op.body.is_some()).count();
                        let honest = built.iter().filter(|b| b.op.hash == id && b.must == Some(true)).count();
                        let forged = built.iter().filter(|b| b.op.hash == id && b.must != Some(true)).count();
                        let processed = outcomes.iter().filter(|o| o.0 == id && o.1).count();
                        let failed = outcomes.iter().filter(|o| o.0 == id && !o.1).count();
                        ensure!(
                            processed <= honest,
                            "step {si}: {processed} Processed events for operation id {id} but only {honest} genuine operation(s) with that id were imported ({forged} forged)"
                        );
                        ensure!(
                            failed >= forged,
                            "step {si}: {forged} forged operation(s) with id {id} were imported but only {failed} ProcessingFailed events were reported"
                        );
                        ensure!(
                            processed >= honest_with_body,
                            "step {si}: {honest_with_body} genuine operation(s) with a body and id {id} were imported but only {processed} were reported as Processed"
                        );
                    }
                }
                NodeStep::Publish | NodeStep::Prune(_) => {
                    let fut = match step {
                        NodeStep::Publish => tx.publish(format!("own-{si}")).await,
                        NodeStep::Prune(with_body) => tx.prune(if *with_body { Some(format!("own-prune-{si}")) } else { None }).await,
                        _ => unreachable!(),
                    }
                    .map_err(|e| format!("publish: {e}"))?;
                    let hash = fut.hash();
                    let ev = fut.await.map_err(|e| format!("publish future: {e}"))?;
                    ensure!(ev.is_completed(), "step {si}: the node's own operation failed: {:?}", ev.failure_reason());
                    let prune = matches!(step, NodeStep::Prune(_));
                    let e = expected.entry((node_idx, 0)).or_default();
                    let seq = ev.header().seq_num;
                    if prune {
                        e.retain(|(s, _)| *s >= seq);
                    }
                    e.push((seq, hash));
                    e.sort();
                }
                NodeStep::ReplayFromStart => {
                    drop(tx);
                    drop(rx);
                    let (ntx, nrx) = node
                        .stream_from::<String>(topic, StreamFrom::Start)
                        .await
                        .map_err(|e| format!("stream_from: {e}"))?;
                    tx = ntx;
                    rx = nrx;
                    // A sentinel import proves that the replay phase is over.
                    let outcomes = run_import(&tx, &mut rx, vec![]).await?;
                    let _ = outcomes;
                    session += 1;
                }
            }
            let after = snapshot(&store, &world).await?;
            if after != expected {
                let diff: Vec<String> = expected
                    .keys()
                    .filter(|k| after.get(*k) != expected.get(*k))
                    .map(|k| {
                        format!(
                            "log(author {}, topic {}): stored seqs {:?}, expected {:?}",
                            k.0,
                            k.1,
                            after[k].iter().map(|e| e.0).collect::<Vec<_>>(),
                            expected[k].iter().map(|e| e.0).collect::<Vec<_>>()
                        )
                    })
                    .collect();
                return Err(format!("node step {si} ({step:?}): the store differs: {}", diff.join("; ")));
            }
        }
        let _ = session;
        Ok(CaseOk::nontrivial(nontrivial)
            .label_if(case.steps.iter().any(|s| matches!(s, NodeStep::ReplayFromStart)), "has_replay")
            .label_if(case.steps.iter().any(|s| matches!(s, NodeStep::Prune(_))), "node_prunes_own_log"))
    })
}

fn seq_sel() -> impl Strategy<Value = SeqSel> {
    prop_oneof![
        Just(SeqSel::Zero),
        any::<u16>().prop_map(SeqSel::Mid),
        Just(SeqSel::Height),
        (0u8..4).prop_map(SeqSel::Above),
        Just(SeqSel::Max),
    ]
}

fn attack() -> impl Strategy<Value = Attack> {
    prop_oneof![
        5 => (0u8..3, 0u8..2, seq_sel(), prop::bool::weighted(0.85), any::<bool>(), any::<bool>())
            .prop_map(|(victim, topic, seq, prune, body, backlink)| Attack::Forged { victim, topic, seq, prune, body, backlink }),
        2 => (0u8..3, 0u8..2, seq_sel()).prop_map(|(author, topic, seq)| Attack::StalePrune { author, topic, seq }),
        1 => (0u8..3, 0u8..2).prop_map(|(author, topic)| Attack::BrokenBacklink { author, topic }),
        2 => (0u8..4, 0u8..2, 0u8..3, any::<bool>()).prop_map(|(author, topic, gap, body)| Attack::HonestPrune { author, topic, gap, body }),
        3 => (0u8..4, 0u8..2).prop_map(|(author, topic)| Attack::HonestPlain { author, topic }),
        1 => (0u8..3, 0u8..2, any::<u16>()).prop_map(|(author, topic, which)| Attack::Duplicate { author, topic, which }),
        2 => (0u8..3, 0u8..2, any::<u16>(), seq_sel(), prop::bool::weighted(0.85))
            .prop_map(|(victim, topic, which, seq, prune)| Attack::ForgedStoredId { victim, topic, which, seq, prune }),
    ]
}

pub fn run(mut ctx: Ctx) -> ! {
    ctx.assume("whether a link-invalid but validly signed operation passes validation is C03/C05's question; here only the consequence is asserted (rejected => nothing deleted; accepted+flag => exactly the smaller entries of its own log deleted)");
    ctx.assume("the operation's extension log id equals the stream's log id, as every caller in p2panda/src/streams does");
    ctx.run_prop(
        Part::new(
            "pipeline_histories",
            "2-3 victims x 1-2 topics pre-filled with 0-6 operations each, then 1-12 operations (forged signature claiming a victim with/without prune flag at seq 0/mid/height/above/u32::MAX, stale or link-invalid validly signed ones, honest prunes with gaps, honest plain, duplicates) through Pipeline::process; every (author, log) compared after every step; non-trivial = a *failing* prune-flagged operation aimed at a non-empty log",
            400,
            // Every Pipeline owns a thread with its own runtime which by design never terminates
            // ("processors never cease operation"): ~3 file descriptors per case stay open until
            // the process exits, so the case count is bounded by RLIMIT_NOFILE (20 000 here).
            4_000,
        )
        .min_nontrivial(0.3),
        || {
            (2u8..=3, 1u8..=2, prop::collection::vec(0u8..7, 6), prop::collection::vec(attack(), 1..=12))
                .prop_map(|(authors, topics, prefill, stream)| Case { authors, topics, prefill, stream })
        },
        check_pipeline,
    );
    ctx.run_prop(
        Part::new(
            "node_histories",
            "real Node (mdns off, in-memory db): victims' logs imported, then 1-6 steps of import batches (forged prune/plain + honest), the node's own publish/prune and a replay from start; node.store() compared with the expectation after every step; non-trivial = a forged prune-flagged operation aimed at a non-empty log was imported",
            24,
            1_000,
        )
        .workers(4, 8)
        .min_nontrivial(0.3),
        || {
            (
                prop::collection::vec(0u8..6, 2),
                prop::collection::vec(
                    prop_oneof![
                        4 => prop::collection::vec(attack(), 1..=5).prop_map(NodeStep::Import),
                        1 => Just(NodeStep::Publish),
                        1 => any::<bool>().prop_map(NodeStep::Prune),
                        1 => Just(NodeStep::ReplayFromStart),
                    ],
                    1..=6,
                ),
            )
                .prop_map(|(prefill, steps)| NodeCase { prefill, steps })
        },
        check_node,
    );
    ctx.finish()
}
