//! C15 Unacknowledged operations are replayed after any crash.
//!
//! A generated history (publish / await processed / prune / import foreign operations / receive
//! / explicit ack) runs on a file-backed `Node` inside a **child process** (`verif-node
//! c15-worker`), which journals every completed observation and calls `std::process::abort()`
//! after the generated crash step (no destructors, like `kill -9`); crash step == number of steps
//! means "clean node drop". Background activity (pipeline thread, SQLite worker, stream tasks) is
//! in whatever state it happens to be in at that moment, so the crash lands while publishing,
//! ingesting, acknowledging or delivering.
//!
//! The parent then inspects the database *before* re-opening (persisted cursor `C` via the
//! `Acked` hook, stored operations `S` of the topic) and re-opens `stream_from(Frontier)` on a
//! fresh node over the same file, collecting the replayed `Processed` events up to a sentinel
//! import (its `ImportStarted` proves that the replay phase is over).
//!
//! Oracle (from the statement; acknowledged == covered by the persisted cursor):
//! 1. replayed == { op in S with a body : no cursor entry for its log, or seq > C[author, log] },
//!    each exactly once, per log in ascending seq order, and nothing with seq <= C;
//! 2. durability of acknowledgements: every `ack` the journal shows as returned `Ok` is covered
//!    by C;
//! 3. (explicit policy) an operation the application never acknowledged – no journaled ack of it
//!    or of a later operation of its log, and no body-less (always auto-acknowledged) operation at
//!    or after it in its log – has seq > C, i.e. is in the replayed set;
//! 4. every operation whose `publish` returned before the crash is still stored unless a later
//!    prune point of its log was published.

use std::collections::{BTreeMap, BTreeSet};
use std::io::Write;
use std::path::{Path, PathBuf};
use std::process::Command;
use std::time::Duration;

use engine::proptest::prelude::*;
use engine::{CaseOk, CaseResult, Ctx, Part, Watchdog, ensure, idx};
use futures_util::StreamExt;
use p2panda::node::AckPolicy;
use p2panda::operation::{Extensions, LogId};
use p2panda::streams::verif::Acked;
use p2panda::streams::{StreamEvent, StreamFrom, StreamPublisher, StreamSubscription};
use p2panda_core::cbor::encode_cbor;
use p2panda_core::{Body, Hash, Header, Operation, SigningKey, Topic, VerifyingKey};
use p2panda_store::SqliteStoreBuilder;
use p2panda_store::logs::LogStore;
use p2panda_store::topics::TopicStore;
use serde::{Deserialize, Serialize};

type Op = Operation<Extensions>;

#[derive(Clone, Debug, Serialize, Deserialize)]
enum Step {
    Publish,
    /// Await the processing result of the oldest pending publish/prune.
    AwaitProcessed,
    /// Prune own log; with or without a body.
    Prune(bool),
    /// Import the next `n` (1-3) operations of foreign author `f` (0/1); `bodyless` makes the last
    /// one a system operation without body.
    Import { f: u8, n: u8, bodyless: bool },
    /// Take the next stream event (waits up to 1.5 s of real time; what arrives is journaled).
    Recv,
    /// Explicitly acknowledge one of the operations received so far.
    Ack(u16),
    /// Give background tasks a little real time.
    Pause(u8),
}

#[derive(Clone, Debug, Serialize, Deserialize)]
struct Case {
    explicit_policy: bool,
    steps: Vec<Step>,
    /// Crash after this many steps (mapped into 0..=len; == len means clean drop).
    crash_raw: u16,
    /// `Some(d)`: do not abort *before* the crash step but start it and abort from a timer
    /// thread `d * 40` microseconds later (or right after the step, whichever comes first), so
    /// that the crash lands inside a publish / ack / import call.
    #[serde(default)]
    crash_inside_us: Option<u8>,
    /// Ack policy of the node that re-opens the stream after the crash (the replay set is defined
    /// by the cursor persisted *before* re-opening, whichever policy replays it).
    #[serde(default)]
    restart_automatic: bool,
}

#[derive(Clone, Debug, Serialize, Deserialize)]
enum Journal {
    Published { hash: String, seq: u32, prune: bool, body: bool },
    Imported { hashes: Vec<String> },
    Received { hash: String, author: String, seq: u32 },
    AckOk { hash: String, author: String, seq: u32 },
    /// Written before an explicit ack is issued (the crash may land inside it).
    AckStart { hash: String, author: String, seq: u32 },
    StepDone(usize),
}

const TOPIC: [u8; 32] = [0x15; 32];

fn node_key() -> SigningKey {
    SigningKey::from_bytes(&[0x51; 32])
}

fn foreign_key(f: u8) -> SigningKey {
    SigningKey::from_bytes(&[0x60 + (f % 2); 32])
}

fn foreign_op(f: u8, seq: u32, backlink: Option<Hash>, body: bool) -> Op {
    let key = foreign_key(f);
    let body = if body {
        Some(Body::new(&encode_cbor(&format!("foreign-{f}-{seq}")).unwrap()))
    } else {
        None
    };
    let mut header = Header::<Extensions> {
        version: 1,
        verifying_key: key.verifying_key(),
        signature: None,
        payload_size: body.as_ref().map(|b| b.size()).unwrap_or(0),
        payload_hash: body.as_ref().map(|b| b.hash()),
        seq_num: seq,
        backlink,
        extensions: Extensions::from_topic(Topic::from(TOPIC)),
    };
    header.sign(&key);
    Operation {
        hash: header.hash(),
        header,
        body,
    }
}

async fn spawn_node(db_url: &str, policy: AckPolicy) -> Result<p2panda::Node, String> {
    p2panda::builder()
        .signing_key(node_key())
        .database_url(db_url)
        .ack_policy(policy)
        .spawn()
        .await
        .map_err(|e| format!("node spawn: {e}"))
}

// ------------------------------------------------------------------------------------------------
// Worker (child process)
// ------------------------------------------------------------------------------------------------

pub fn worker_main() -> ! {
    let args: Vec<String> = std::env::args().collect();
    let case: Case = serde_json::from_str(&std::fs::read_to_string(&args[2]).expect("case file")).expect("case json");
    let db_url = args[3].clone();
    let journal_path = PathBuf::from(&args[4]);
    let crash_at = idx(case.crash_raw, case.steps.len() + 1);
    let rt = tokio::runtime::Builder::new_multi_thread()
        .worker_threads(2)
        .enable_all()
        .build()
        .expect("runtime");
    let code = rt.block_on(async move {
        let mut journal = std::fs::OpenOptions::new().create(true).append(true).open(&journal_path).expect("journal");
        let mut log = |j: Journal| {
            let mut line = serde_json::to_string(&j).unwrap();
            line.push('\n');
            journal.write_all(line.as_bytes()).expect("journal write");
            journal.flush().ok();
        };
        let policy = if case.explicit_policy { AckPolicy::Explicit } else { AckPolicy::Automatic };
        let node = match spawn_node(&db_url, policy).await {
            Ok(n) => n,
            Err(e) => {
                eprintln!("worker: {e}");
                return 3;
            }
        };
        let topic = Topic::from(TOPIC);
        let (tx, mut rx): (StreamPublisher<String>, StreamSubscription<String>) = match node.stream(topic).await {
            Ok(p) => p,
            Err(e) => {
                eprintln!("worker: stream: {e}");
                return 3;
            }
        };
        let mut pending = std::collections::VecDeque::new();
        let mut received: Vec<(Hash, VerifyingKey, u32)> = Vec::new();
        let mut foreign_heads: [Option<(u32, Hash)>; 2] = [None, None];
        let mut counter = 0u32;

        for (i, step) in case.steps.iter().enumerate() {
            if i == crash_at {
                match case.crash_inside_us {
                    None => std::process::abort(),
                    Some(d) => {
                        let delay = Duration::from_micros(d as u64 * 40);
                        std::thread::spawn(move || {
                            std::thread::sleep(delay);
                            std::process::abort();
                        });
                    }
                }
            }
            if i > crash_at {
                // The step the crash was aimed at is over: crash now at the latest.
                std::process::abort();
            }
            match step {
                Step::Publish | Step::Prune(_) => {
                    counter += 1;
                    let res = match step {
                        Step::Publish => tx.publish(format!("own-{counter}")).await,
                        Step::Prune(true) => tx.prune(Some(format!("own-prune-{counter}"))).await,
                        _ => tx.prune(None).await,
                    };
                    match res {
                        Ok(fut) => {
                            // The operation is committed by the forge at this point; its seq is
                            // read back from the store for the journal.
                            let hash = fut.hash();
                            let seq = match p2panda_store::operations::OperationStore::<Op, Hash>::get_operation(&node.store(), &hash).await {
                                Ok(Some(op)) => op.header.seq_num,
                                _ => u32::MAX,
                            };
                            log(Journal::Published {
                                hash: hash.to_hex(),
                                seq,
                                prune: matches!(step, Step::Prune(_)),
                                body: !matches!(step, Step::Prune(false)),
                            });
                            pending.push_back(fut);
                        }
                        Err(e) => eprintln!("worker: publish failed: {e}"),
                    }
                }
                Step::AwaitProcessed => {
                    if let Some(fut) = pending.pop_front() {
                        let _ = tokio::time::timeout(Duration::from_secs(3), fut).await;
                    }
                }
                Step::Import { f, n, bodyless } => {
                    let f = f % 2;
                    let n = (*n % 3) + 1;
                    let mut ops = Vec::new();
                    for k in 0..n {
                        let (seq, backlink) = match foreign_heads[f as usize] {
                            Some((s, h)) => (s + 1, Some(h)),
                            None => (0, None),
                        };
                        let op = foreign_op(f, seq, backlink, !(*bodyless && k == n - 1));
                        foreign_heads[f as usize] = Some((seq, op.hash));
                        ops.push(op);
                    }
                    let hashes = ops.iter().map(|o| o.hash.to_hex()).collect();
                    match tx.import(futures_util::stream::iter(ops)).await {
                        Ok(import) => {
                            log(Journal::Imported { hashes });
                            // The import itself proceeds in the background.
                            tokio::spawn(async move {
                                let _ = import.await;
                            });
                        }
                        Err(e) => eprintln!("worker: import failed: {e}"),
                    }
                }
                Step::Recv => {
                    if let Ok(Some(ev)) = tokio::time::timeout(Duration::from_millis(1500), rx.next()).await {
                        if let StreamEvent::Processed { operation, .. } = ev {
                            let seq = operation.processed().header().seq_num;
                            log(Journal::Received {
                                hash: operation.id().to_hex(),
                                author: operation.author().to_hex(),
                                seq,
                            });
                            received.push((operation.id(), operation.author(), seq));
                        }
                    }
                }
                Step::Ack(which) => {
                    if !received.is_empty() {
                        let (hash, author, seq) = received[idx(*which, received.len())];
                        log(Journal::AckStart {
                            hash: hash.to_hex(),
                            author: author.to_hex(),
                            seq,
                        });
                        if rx.ack(hash).await.is_ok() {
                            // `ack` fails silently for unknown (pruned) operations: only journal
                            // acknowledgements of operations that are still stored.
                            let still_stored = matches!(
                                p2panda_store::operations::OperationStore::<Op, Hash>::has_operation(&node.store(), &hash).await,
                                Ok(true)
                            );
                            if still_stored {
                                log(Journal::AckOk {
                                    hash: hash.to_hex(),
                                    author: author.to_hex(),
                                    seq,
                                });
                            }
                        }
                    }
                }
                Step::Pause(ms) => tokio::time::sleep(Duration::from_millis(*ms as u64 % 40)).await,
            }
            log(Journal::StepDone(i));
        }
        if crash_at >= case.steps.len() {
            // Clean shutdown variant: drop everything in order.
            drop(tx);
            drop(rx);
            drop(node);
            tokio::time::sleep(Duration::from_millis(50)).await;
            return 0;
        }
        std::process::abort();
    });
    std::process::exit(code);
}

// ------------------------------------------------------------------------------------------------
// Parent
// ------------------------------------------------------------------------------------------------

fn read_journal(path: &Path) -> Vec<Journal> {
    std::fs::read_to_string(path)
        .unwrap_or_default()
        .lines()
        .filter_map(|l| serde_json::from_str(l).ok())
        .collect()
}

struct Dirs {
    base: PathBuf,
}

static CASE_COUNTER: std::sync::atomic::AtomicU64 = std::sync::atomic::AtomicU64::new(0);

fn check(case: &Case, tmp: &Path) -> CaseResult {
    let _wd = Watchdog::arm("C15 case", Duration::from_secs(240));
    let n = CASE_COUNTER.fetch_add(1, std::sync::atomic::Ordering::SeqCst);
    let dirs = Dirs {
        base: tmp.join(format!("case-{n}")),
    };
    std::fs::create_dir_all(&dirs.base).map_err(|e| e.to_string())?;
    let result = check_in(case, &dirs.base);
    std::fs::remove_dir_all(&dirs.base).ok();
    result
}

fn check_in(case: &Case, dir: &Path) -> CaseResult {
    let case_path = dir.join("case.json");
    let db_path = dir.join("node.sqlite");
    let journal_path = dir.join("journal.jsonl");
    std::fs::write(&case_path, serde_json::to_string(case).unwrap()).map_err(|e| e.to_string())?;
    let db_url = format!("sqlite://{}", db_path.display());

    let exe = std::env::current_exe().unwrap_or_else(|e| engine::harness_error(&format!("C15: current_exe: {e}")));
    let status = Command::new(exe)
        .arg("c15-worker")
        .arg(&case_path)
        .arg(&db_url)
        .arg(&journal_path)
        .stdout(std::process::Stdio::null())
        .stderr(std::process::Stdio::null())
        .status()
        .unwrap_or_else(|e| engine::harness_error(&format!("C15: cannot run the worker process: {e}")));
    let crash_at = idx(case.crash_raw, case.steps.len() + 1);
    let clean = crash_at >= case.steps.len();
    if clean {
        if !status.success() {
            engine::harness_error(&format!("C15 worker failed without crashing: {status:?}"));
        }
    } else if status.success() || status.code() == Some(3) {
        engine::harness_error(&format!("C15 worker did not abort as planned: {status:?}"));
    }
    let journal = read_journal(&journal_path);

    let rt = tokio::runtime::Builder::new_multi_thread()
        .worker_threads(2)
        .enable_all()
        .build()
        .map_err(|e| e.to_string())?;
    rt.block_on(async {
        let topic = Topic::from(TOPIC);
        let log_id = LogId::from_topic(topic);

        // 1. Inspect the database before re-opening the stream.
        let (cursor, stored) = {
            let store = SqliteStoreBuilder::new()
                .database_url(&db_url)
                .create_database(false)
                .build()
                .await
                .map_err(|e| format!("re-open database: {e}"))?;
            let acked = Acked::new(store.clone(), topic);
            let cursor = acked.cursor().await.map_err(|e| format!("read cursor: {e}"))?;
            let logs: BTreeMap<VerifyingKey, Vec<LogId>> =
                TopicStore::<Topic, VerifyingKey, LogId>::resolve(&store, &topic).await.map_err(|e| format!("resolve: {e}"))?;
            let mut stored: BTreeMap<VerifyingKey, Vec<(u32, Hash, bool)>> = BTreeMap::new();
            for (author, log_ids) in &logs {
                for l in log_ids {
                    ensure!(*l == log_id, "topic resolves to a foreign log id");
                    let entries: Option<Vec<(Op, Vec<u8>)>> =
                        LogStore::<Op, VerifyingKey, LogId, u32, Hash>::get_log_entries(&store, author, l, None, None)
                            .await
                            .map_err(|e| format!("get_log_entries: {e}"))?;
                    stored.insert(
                        *author,
                        entries
                            .unwrap_or_default()
                            .into_iter()
                            .map(|(op, _)| (op.header.seq_num, op.hash, op.body.is_some()))
                            .collect(),
                    );
                }
            }
            store.pool().close().await;
            (cursor, stored)
        };
        let c_of = |author: &VerifyingKey| cursor.log_height(author, &log_id).copied();

        // 2. Restart and collect what is replayed.
        let restart_policy = if case.restart_automatic { AckPolicy::Automatic } else { AckPolicy::Explicit };
        let node = spawn_node(&db_url, restart_policy).await?;
        let (tx, mut rx): (StreamPublisher<String>, StreamSubscription<String>) = node
            .stream_from(topic, StreamFrom::Frontier)
            .await
            .map_err(|e| format!("stream_from(Frontier): {e}"))?;
        // The sentinel import is only answered once the stream task is past its replay phase,
        // which needs the subscription to be drained: issue it concurrently.
        let sentinel_tx = tx.clone();
        let sentinel = tokio::spawn(async move {
            let _ = sentinel_tx.import(futures_util::stream::iter(Vec::<Op>::new())).await;
        });
        let mut replayed: Vec<(VerifyingKey, u32, Hash)> = Vec::new();
        let mut replay_started = false;
        let mut replay_ended = false;
        loop {
            let ev = tokio::time::timeout(Duration::from_secs(120), rx.next())
                .await
                .map_err(|_| "INCONCLUSIVE".to_string());
            let ev = match ev {
                Ok(Some(ev)) => ev,
                Ok(None) => return Err("stream ended before the sentinel import was seen".into()),
                Err(_) => engine::harness_error("C15: no stream event for 120 s after restart"),
            };
            match ev {
                StreamEvent::ReplayStarted { .. } => replay_started = true,
                StreamEvent::ReplayEnded => replay_ended = true,
                StreamEvent::Processed { operation, .. } => {
                    replayed.push((operation.author(), operation.processed().header().seq_num, operation.id()));
                }
                StreamEvent::ReplayFailed { error } => return Err(format!("replay failed: {error}")),
                StreamEvent::ImportStarted { .. } => break,
                _ => {}
            }
        }

        // Oracle 1: replayed set == stored-with-body above the cursor, once, in log order.
        let mut expected: BTreeMap<VerifyingKey, Vec<(u32, Hash)>> = BTreeMap::new();
        for (author, entries) in &stored {
            let c = c_of(author);
            for (seq, hash, has_body) in entries {
                if *has_body && c.map(|c| *seq > c).unwrap_or(true) {
                    expected.entry(*author).or_default().push((*seq, *hash));
                }
            }
        }
        let mut got: BTreeMap<VerifyingKey, Vec<(u32, Hash)>> = BTreeMap::new();
        for (author, seq, hash) in &replayed {
            got.entry(*author).or_default().push((*seq, *hash));
        }
        let fmt = |m: &BTreeMap<VerifyingKey, Vec<(u32, Hash)>>| {
            m.iter()
                .map(|(a, v)| format!("{}:{:?}", &a.to_hex()[..6], v.iter().map(|e| e.0).collect::<Vec<_>>()))
                .collect::<Vec<_>>()
                .join(" ")
        };
        if got != expected {
            return Err(format!(
                "after restart (crash after step {crash_at} of {}, cursor {:?}) replayed {{{}}} but the stored, unacknowledged operations with a body are {{{}}}",
                case.steps.len(),
                stored.keys().map(|a| (a.to_hex()[..6].to_string(), c_of(a))).collect::<Vec<_>>(),
                fmt(&got),
                fmt(&expected)
            ));
        }
        if !expected.is_empty() {
            ensure!(replay_started && replay_ended, "replay delivered operations without ReplayStarted/ReplayEnded");
        }
        for (author, seq, _) in &replayed {
            if let Some(c) = c_of(author) {
                ensure!(*seq > c, "acknowledged operation (seq {seq} <= cursor {c}) was re-delivered");
            }
        }

        // Oracle 2: journaled acknowledgements are durable.
        let mut acked_max: BTreeMap<String, u32> = BTreeMap::new();
        for j in &journal {
            // An acknowledgement that was started may or may not have reached the database.
            if let Journal::AckStart { author, seq, .. } = j {
                let a = acked_max.entry(author.clone()).or_insert(*seq);
                *a = (*a).max(*seq);
            }
        }
        for j in &journal {
            if let Journal::AckOk { author, seq, hash } = j {
                let a = acked_max.entry(author.clone()).or_insert(*seq);
                *a = (*a).max(*seq);
                let key = stored.keys().find(|k| k.to_hex() == *author).copied();
                let covered = key.and_then(|k| c_of(&k)).map(|c| c >= *seq).unwrap_or(false);
                ensure!(
                    covered,
                    "ack of {hash} (seq {seq}) returned Ok before the crash but the persisted cursor is {:?}",
                    key.and_then(|k| c_of(&k))
                );
            }
        }

        // Oracle 3 (explicit policy): never-acknowledged operations are above the cursor.
        let mut unacked_exists = false;
        if case.explicit_policy {
            for (author, entries) in &stored {
                let max_bodyless = entries.iter().filter(|e| !e.2).map(|e| e.0).max();
                let acked = acked_max.get(&author.to_hex()).copied();
                for (seq, hash, has_body) in entries {
                    if !*has_body {
                        continue;
                    }
                    let maybe_acked = acked.map(|a| a >= *seq).unwrap_or(false)
                        || max_bodyless.map(|b| b >= *seq).unwrap_or(false);
                    if !maybe_acked {
                        unacked_exists = true;
                        if let Some(c) = c_of(author) {
                            ensure!(
                                *seq > c,
                                "operation {hash} (seq {seq}) was never acknowledged by the application but the persisted cursor is {c}: it will not be replayed"
                            );
                        }
                    }
                }
            }
        }

        // Oracle 4: published operations survive unless a later prune point was published.
        let own = node_key().verifying_key();
        let own_stored: BTreeSet<String> = stored.get(&own).map(|v| v.iter().map(|e| e.1.to_hex()).collect()).unwrap_or_default();
        let prune_points: Vec<u32> = journal
            .iter()
            .filter_map(|j| match j {
                Journal::Published { prune: true, seq, .. } => Some(*seq),
                _ => None,
            })
            .collect();
        for j in &journal {
            if let Journal::Published { hash, seq, .. } = j {
                if *seq == u32::MAX {
                    continue;
                }
                let pruned_later = prune_points.iter().any(|p| p > seq);
                ensure!(
                    own_stored.contains(hash) || pruned_later,
                    "operation {hash} (seq {seq}) was published (committed) before the crash but is not stored after restart"
                );
            }
        }

        let _ = sentinel.await;
        drop(tx);
        drop(rx);
        drop(node);
        let steps_done = journal.iter().filter(|j| matches!(j, Journal::StepDone(_))).count();
        Ok(CaseOk::nontrivial(!expected.is_empty())
            .label_if(!clean, "process_abort")
            .label_if(!clean && case.crash_inside_us.is_some(), "crash_inside_a_step")
            .label_if(clean, "clean_drop")
            .label_if(case.explicit_policy, "explicit_policy")
            .label_if(case.restart_automatic, "restart_with_automatic_policy")
            .label_if(unacked_exists, "stored_never_acked_operation_at_restart")
            .label_if(cursor.state().values().any(|l| !l.is_empty()), "cursor_non_empty_at_restart")
            .label_if(journal.iter().any(|j| matches!(j, Journal::AckOk { .. })), "journaled_explicit_ack")
            .label_if(steps_done >= 5, "five_or_more_steps_before_crash")
            .label_if(stored.len() >= 2, "foreign_logs_present"))
    })
}

fn step() -> impl Strategy<Value = Step> {
    prop_oneof![
        4 => Just(Step::Publish),
        2 => Just(Step::AwaitProcessed),
        1 => any::<bool>().prop_map(Step::Prune),
        3 => (0u8..2, 0u8..3, prop::bool::weighted(0.25)).prop_map(|(f, n, bodyless)| Step::Import { f, n, bodyless }),
        5 => Just(Step::Recv),
        4 => any::<u16>().prop_map(Step::Ack),
        1 => (0u8..40).prop_map(Step::Pause),
    ]
}

pub fn run(mut ctx: Ctx) -> ! {
    ctx.assume("'acknowledged' means covered by the persisted cursor (cursors_v1); with the Automatic policy the node acknowledges on delivery, so only oracles 1, 2 and 4 apply there");
    ctx.assume("crash = std::process::abort() of the child between two steps of the history while the node's background threads are wherever they are; or a clean drop when the crash step equals the history length");
    let tmp = ctx.tmp_dir();
    let tmp2 = tmp.clone();
    let thorough = ctx.is_thorough();
    ctx.run_prop(
        Part::new(
            "crash_histories",
            "histories of 1-10 steps (publish, await processed, prune with/without body, import of 1-3 operations of 2 foreign authors incl. body-less ones, recv, explicit ack, pause) on a file-backed node in a child process, Explicit or Automatic policy, abort() after a generated step (or clean drop); parent re-opens and compares the replay with cursor and store; non-trivial = a stored un-acknowledged operation with a body exists at restart",
            96,
            // Every node restarted in this (parent) process leaves descriptors open (pipeline thread,
            // actor threads that never terminate): the case count is bounded by RLIMIT_NOFILE.
            1_200,
        )
        .workers(8, 16)
        .min_nontrivial(0.2),
        move || {
            let max = if thorough { 14 } else { 10 };
            let random = (
                prop::bool::weighted(0.6),
                prop::collection::vec(step(), 3..=max),
                // Crash points biased towards the later part of the history.
                prop_oneof![1 => any::<u16>(), 2 => 30_000u16..=u16::MAX],
            )
                .prop_map(|(explicit_policy, steps, crash_raw)| Case {
                    explicit_policy,
                    steps,
                    crash_raw,
                    crash_inside_us: None,
                    restart_automatic: false,
                });
            // Structured histories: deliver and acknowledge a prefix, then produce more
            // operations and crash late – the shape in which the cursor sits strictly inside a
            // log at restart (acknowledged operations below it, unacknowledged ones above).
            let structured = (
                prop::bool::weighted(0.75),
                1usize..=3,
                prop::collection::vec(any::<u16>(), 1..=2),
                prop::collection::vec(
                    prop_oneof![
                        3 => Just(Step::Publish),
                        1 => (0u8..2, 0u8..3, Just(false)).prop_map(|(f, n, bodyless)| Step::Import { f, n, bodyless }),
                        1 => Just(Step::Recv),
                        1 => Just(Step::AwaitProcessed),
                    ],
                    1..=4,
                ),
                any::<bool>(),
                50_000u16..=u16::MAX,
            )
                .prop_map(|(explicit_policy, first, acks, tail, import_first, crash_raw)| {
                    let mut steps = Vec::new();
                    if import_first {
                        steps.push(Step::Import { f: 0, n: 1, bodyless: false });
                    }
                    for _ in 0..first {
                        steps.push(Step::Publish);
                    }
                    for _ in 0..first {
                        steps.push(Step::AwaitProcessed);
                    }
                    for _ in 0..first + usize::from(import_first) * 2 {
                        steps.push(Step::Recv);
                    }
                    for a in acks {
                        steps.push(Step::Ack(a));
                    }
                    steps.extend(tail);
                    Case {
                        explicit_policy,
                        steps,
                        crash_raw,
                        crash_inside_us: None,
                        restart_automatic: false,
                    }
                });
            let base = prop_oneof![1 => random, 1 => structured];
            // 40 %: the crash lands inside the chosen step instead of in front of it.
            (base, prop::option::weighted(0.4, any::<u8>()), any::<bool>()).prop_map(|(mut case, inside, restart_automatic)| {
                case.crash_inside_us = inside;
                case.restart_automatic = restart_automatic;
                case
            })
        },
        move |case| check(case, &tmp2),
    );
    std::fs::remove_dir_all(&tmp).ok();
    ctx.finish()
}
