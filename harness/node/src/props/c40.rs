//! C40 Topic sync metrics count every session's bytes exactly once.
//!
//! Generated: 1–5 sessions, each a lifecycle word from the documented grammar with internally
//! consistent cumulative metrics, interleaved by a generated schedule. The `Aggregator` (private,
//! reached through the `verif` hook re-export) processes the interleaved events.
//!
//! Oracle (independent bookkeeping in the harness):
//! * running sessions == sessions that emitted `SessionStarted` and not yet their terminal event,
//!   after every event;
//! * topic totals are monotone over the event sequence;
//! * after all sessions ended: totals == Σ over sessions that ended with `SessionFinished` of
//!   (sync + live bytes of their final metrics), each counted once, plus for `Failed` sessions a
//!   contribution between "what was already added for it" and "its last known metrics";
//! * the totals reported inside each emitted `SyncEnded`/`OperationReceived` summary equal the
//!   aggregator accessors at that time.

use engine::proptest::prelude::*;
use engine::{CaseOk, CaseResult, Ctx, Part, ensure, ensure_eq, idx};
use p2panda::streams::verif::{Aggregator, VerifSyncSummary};
use p2panda_core::{Body, Header, Operation, SigningKey};
use p2panda_sync::FromSync;
use p2panda_sync::protocols::{Metrics, TopicLogSyncEvent};
use serde::{Deserialize, Serialize};

#[derive(Clone, Debug, Serialize, Deserialize)]
enum Ending {
    /// Session runs to `SessionFinished`.
    Finished,
    /// Session fails after emitting this many of its events (mapped into the word length).
    FailedAt(u16),
}

#[derive(Clone, Debug, Serialize, Deserialize)]
struct SessionSpec {
    /// Emit the documented leading `SessionStarted` (the current code base never does; both
    /// shapes are processed by the aggregator in production and in its unit tests).
    session_started: bool,
    /// Planned totals announced at `SyncStarted`.
    planned: (u16, u16),
    /// Per received operation during sync: growth of (sent, received) bytes.
    sync_ops: Vec<(u16, u16)>,
    /// Extra growth between the last operation and `SyncFinished`.
    sync_tail: (u16, u16),
    /// `Some` = live mode entered; per received live operation growth of (sent, received) bytes.
    live: Option<Vec<(u16, u16)>>,
    /// Extra live growth before `SessionFinished`.
    live_tail: (u16, u16),
    ending: Ending,
}

#[derive(Clone, Debug, Serialize, Deserialize)]
struct Case {
    sessions: Vec<SessionSpec>,
    /// Which session emits its next event (monotone index into the not-yet-finished sessions).
    schedule: Vec<u16>,
}

#[derive(Clone, Debug)]
enum Ev {
    SessionStarted,
    SyncStarted(Metrics),
    Op(Metrics),
    SyncFinished(Metrics),
    LiveModeStarted,
    SessionFinished(Metrics),
    Failed,
}

fn word(spec: &SessionSpec) -> Vec<Ev> {
    let mut w = Vec::new();
    let mut m = Metrics::default();
    if spec.session_started {
        w.push(Ev::SessionStarted);
    }
    m.outbound_sync_bytes = spec.planned.0 as u32;
    m.inbound_sync_bytes = spec.planned.1 as u32;
    m.outbound_sync_operations = spec.sync_ops.len() as u32;
    m.inbound_sync_operations = spec.sync_ops.len() as u32;
    w.push(Ev::SyncStarted(m.clone()));
    for (s, r) in &spec.sync_ops {
        m.sent_sync_bytes += *s as u32;
        m.received_sync_bytes += *r as u32 + 1;
        m.received_sync_operations += 1;
        w.push(Ev::Op(m.clone()));
    }
    m.sent_sync_bytes += spec.sync_tail.0 as u32;
    m.received_sync_bytes += spec.sync_tail.1 as u32;
    w.push(Ev::SyncFinished(m.clone()));
    if let Some(live) = &spec.live {
        w.push(Ev::LiveModeStarted);
        for (s, r) in live {
            m.sent_live_bytes += *s as u32;
            m.received_live_bytes += *r as u32 + 1;
            m.received_live_operations += 1;
            w.push(Ev::Op(m.clone()));
        }
        m.sent_live_bytes += spec.live_tail.0 as u32;
        m.received_live_bytes += spec.live_tail.1 as u32;
    }
    w.push(Ev::SessionFinished(m.clone()));
    if let Ending::FailedAt(raw) = spec.ending {
        // Fail after k events, k in 0..len-1 (so the terminal SessionFinished is replaced).
        let k = idx(raw, w.len());
        // A session that documents SessionStarted emits it before it can fail.
        let k = if spec.session_started { k.max(1) } else { k };
        w.truncate(k);
        w.push(Ev::Failed);
    }
    w
}

fn dummy_operation() -> Operation<()> {
    let key = SigningKey::from_bytes(&[7u8; 32]);
    let body = Body::new(b"c40");
    let mut header = Header::<()> {
        version: 1,
        verifying_key: key.verifying_key(),
        signature: None,
        payload_size: body.size(),
        payload_hash: Some(body.hash()),
        seq_num: 0,
        backlink: None,
        extensions: (),
    };
    header.sign(&key);
    Operation {
        hash: header.hash(),
        header,
        body: Some(body),
    }
}

#[derive(Default, Clone)]
struct SessionModel {
    counted_running: bool,
    ended: bool,
    last_metrics: Metrics,
    /// (sent, received) this session certainly contributed so far according to the statement's
    /// accounting (sync bytes at SyncFinished, everything at SessionFinished).
    sync_finished: Option<(u32, u32)>,
    finished: Option<(u32, u32)>,
    failed: bool,
}

fn check(case: &Case) -> CaseResult {
    let remote = SigningKey::from_bytes(&[9u8; 32]).verifying_key();
    let op = dummy_operation();
    let words: Vec<Vec<Ev>> = case.sessions.iter().map(word).collect();
    let mut pos = vec![0usize; words.len()];
    let mut model = vec![SessionModel::default(); words.len()];
    let mut agg = Aggregator::new();
    let mut prev_totals = (0u32, 0u32);
    let mut step = 0usize;
    let mut interleaved = false;
    let mut last_session: Option<usize> = None;
    let mut switches = 0;

    loop {
        let open: Vec<usize> = (0..words.len()).filter(|i| pos[*i] < words[*i].len()).collect();
        if open.is_empty() {
            break;
        }
        let pick = case.schedule.get(step).copied().unwrap_or(0);
        let s = open[idx(pick, open.len())];
        step += 1;
        if let Some(l) = last_session {
            if l != s {
                switches += 1;
                if pos[l] < words[l].len() {
                    interleaved = true;
                }
            }
        }
        last_session = Some(s);
        let ev = words[s][pos[s]].clone();
        pos[s] += 1;

        let event: TopicLogSyncEvent<()> = match &ev {
            Ev::SessionStarted => TopicLogSyncEvent::SessionStarted,
            Ev::SyncStarted(m) => TopicLogSyncEvent::SyncStarted { metrics: m.clone() },
            Ev::Op(m) => TopicLogSyncEvent::OperationReceived {
                operation: Box::new(op.clone()),
                metrics: m.clone(),
            },
            Ev::SyncFinished(m) => TopicLogSyncEvent::SyncFinished { metrics: m.clone() },
            Ev::LiveModeStarted => TopicLogSyncEvent::LiveModeStarted,
            Ev::SessionFinished(m) => TopicLogSyncEvent::SessionFinished { metrics: m.clone() },
            Ev::Failed => TopicLogSyncEvent::Failed {
                error: "generated failure".into(),
            },
        };
        let summary = agg.verif_process(FromSync {
            session_id: s as u64,
            remote,
            event,
        });

        // Update the reference bookkeeping.
        let sm = &mut model[s];
        match &ev {
            Ev::SessionStarted => sm.counted_running = true,
            Ev::SyncStarted(m) | Ev::Op(m) => sm.last_metrics = m.clone(),
            Ev::SyncFinished(m) => {
                sm.last_metrics = m.clone();
                sm.sync_finished = Some((m.sent_sync_bytes, m.received_sync_bytes));
            }
            Ev::LiveModeStarted => {}
            Ev::SessionFinished(m) => {
                sm.last_metrics = m.clone();
                sm.finished = Some((m.sent_bytes(), m.received_bytes()));
                sm.ended = true;
            }
            Ev::Failed => {
                sm.failed = true;
                sm.ended = true;
            }
        }

        // Running sessions == started - ended (for sessions which announced themselves).
        let expected_running = model.iter().filter(|m| m.counted_running && !m.ended).count() as u32;
        let all_announce = case.sessions.iter().all(|s| s.session_started);
        if all_announce {
            ensure_eq!(
                agg.running_sessions(),
                expected_running,
                "running sessions after event {step} ({ev:?} of session {s})"
            );
        }

        // Totals are monotone and lie between the certain lower and upper bounds.
        let totals = (agg.total_bytes_sent(), agg.total_bytes_received());
        ensure!(
            totals.0 >= prev_totals.0 && totals.1 >= prev_totals.1,
            "topic totals went backwards at event {step}: {prev_totals:?} -> {totals:?}"
        );
        prev_totals = totals;
        let mut lower = (0u32, 0u32);
        let mut upper = (0u32, 0u32);
        for m in &model {
            let certain = m.finished.or(m.sync_finished).unwrap_or((0, 0));
            lower.0 += certain.0;
            lower.1 += certain.1;
            // Upper bound: a finished session contributes exactly its final bytes; a running or
            // failed one at most what its last known metrics say.
            let most = m
                .finished
                .unwrap_or((m.last_metrics.sent_bytes(), m.last_metrics.received_bytes()));
            upper.0 += most.0.max(certain.0);
            upper.1 += most.1.max(certain.1);
        }
        ensure!(
            totals.0 >= lower.0 && totals.1 >= lower.1,
            "topic totals {totals:?} below what sessions certainly transferred {lower:?} after event {step} ({ev:?} of session {s})"
        );
        ensure!(
            totals.0 <= upper.0 && totals.1 <= upper.1,
            "topic totals {totals:?} exceed the bytes the sessions transferred {upper:?} after event {step} ({ev:?} of session {s}): some bytes are counted more than once"
        );

        // Totals reported inside the emitted event equal the accessors.
        match summary {
            Some(VerifSyncSummary::SyncEnded {
                sent_bytes_topic_total,
                received_bytes_topic_total,
                ..
            })
            | Some(VerifSyncSummary::OperationReceived {
                sent_bytes_topic_total,
                received_bytes_topic_total,
                ..
            }) => {
                ensure_eq!(
                    (sent_bytes_topic_total, received_bytes_topic_total),
                    totals,
                    "totals inside the emitted event differ from the aggregator's totals"
                );
            }
            _ => {}
        }
    }

    // Final: exact for sessions that finished, bounded for failed ones.
    let totals = (agg.total_bytes_sent(), agg.total_bytes_received());
    let any_failed = model.iter().any(|m| m.failed);
    if !any_failed {
        let exact = model.iter().fold((0u32, 0u32), |acc, m| {
            let f = m.finished.expect("all sessions finished");
            (acc.0 + f.0, acc.1 + f.1)
        });
        ensure_eq!(totals, exact, "final topic totals differ from the sum of all sessions' transferred bytes");
    }

    let finished_with_bytes = model
        .iter()
        .filter(|m| m.finished.is_some() && m.sync_finished.map(|s| s.0 + s.1 > 0).unwrap_or(false))
        .count();
    Ok(CaseOk::nontrivial(finished_with_bytes >= 1)
        .label_if(interleaved, "sessions_interleaved")
        .label_if(any_failed, "has_failed_session")
        .label_if(model.iter().any(|m| m.failed && m.sync_finished.is_some()), "failed_after_sync_finished")
        .label_if(case.sessions.iter().any(|s| s.live.is_some()), "has_live_phase")
        .label_if(case.sessions.iter().all(|s| s.session_started), "all_sessions_announced")
        .label_if(switches >= 3, "three_or_more_switches")
        .label_if(finished_with_bytes >= 2, "two_or_more_finished_with_bytes"))
}

fn delta() -> impl Strategy<Value = (u16, u16)> {
    (prop_oneof![Just(0u16), 0u16..50, 0u16..5000], prop_oneof![Just(0u16), 0u16..50, 0u16..5000])
}

fn session() -> impl Strategy<Value = SessionSpec> {
    (
        prop::bool::weighted(0.7),
        delta(),
        prop::collection::vec(delta(), 0..4),
        delta(),
        prop::option::weighted(0.5, prop::collection::vec(delta(), 0..4)),
        delta(),
        prop_oneof![3 => Just(Ending::Finished), 1 => any::<u16>().prop_map(Ending::FailedAt)],
    )
        .prop_map(|(session_started, planned, sync_ops, sync_tail, live, live_tail, ending)| SessionSpec {
            session_started,
            planned,
            sync_ops,
            sync_tail,
            live,
            live_tail,
            ending,
        })
}

fn case() -> impl Strategy<Value = Case> {
    (
        prop::collection::vec(session(), 1..=5),
        prop::collection::vec(any::<u16>(), 0..60),
        any::<bool>(),
    )
        .prop_map(|(mut sessions, schedule, uniform)| {
            // Half of the cases: all sessions announce themselves (documented grammar), so the
            // running-session count is asserted; the other half mixes shapes.
            if uniform {
                for s in &mut sessions {
                    s.session_started = true;
                }
            }
            Case { sessions, schedule }
        })
}

pub fn run(mut ctx: Ctx) -> ! {
    ctx.assume("metrics inside one session are cumulative and internally consistent (monotone counters, sync totals fixed at SyncFinished) as produced by TopicLogSync");
    ctx.assume("for sessions ending in Failed only bounds are asserted (bytes after the last reported metrics are unknowable)");
    ctx.assume("the running-session count is asserted only when every session emits the documented leading SessionStarted");
    ctx.run_prop(
        Part::new(
            "aggregator_histories",
            "1-5 sessions, each a lifecycle word (SessionStarted? SyncStarted Op* SyncFinished [LiveModeStarted Op*] SessionFinished | truncated + Failed) with cumulative metrics, interleaved by a generated schedule; non-trivial = at least one session reaches SessionFinished after a SyncFinished with non-zero sync bytes",
            3_000,
            300_000,
        )
        .min_nontrivial(0.3),
        case,
        check,
    );
    ctx.finish()
}
