pub mod c04;
pub mod c07;
pub mod c14;
pub mod c15;
pub mod c16;
pub mod c17;
pub mod c40;
