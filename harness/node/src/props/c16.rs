//! C16 Ephemeral messages are authentic and unique per publish.
//!
//! A victim publisher publishes a generated sequence of messages under generated readings of the
//! (mock) wall clock; the probe gossip captures the wrapped bytes. The captured bytes, mutants of
//! them (field-level, byte-level, re-signed by an attacker under the victim's key) and honest
//! attacker-signed messages are injected towards a subscription.
//!
//! Oracle:
//! * authenticity (both directions on the controlled classes): every yielded message passes an
//!   *independent* check (harness' own CBOR encoding of `(version, key, ts, logical, body)` +
//!   ed25519-dalek `verify_strict`) for the author/timestamp/body it reports; injected bytes
//!   failing that check are never yielded; unmodified honest bytes and honestly attacker-signed
//!   bytes are yielded (attributed to their real signer);
//! * uniqueness: the captured messages of one publisher carry strictly increasing
//!   (timestamp, logical) pairs and are pairwise byte-distinct.

use std::pin::Pin;
use std::sync::Arc;
use std::task::{Context, Poll, Waker};
use std::time::Duration;

use ciborium::Value;
use engine::proptest::prelude::*;
use engine::stepper::CountingWaker;
use engine::{CaseOk, CaseResult, Ctx, Part, ensure, idx};
use futures_util::Stream;
use mock_instant::thread_local::MockClock;
use p2panda::streams::EphemeralStreamSubscription;
use p2panda_core::SigningKey;
use serde::{Deserialize, Serialize};

use crate::eph::{EphEnv, encode_raw, independently_valid, parse_raw, signature_ok, signed_payload};

#[derive(Clone, Debug, Serialize, Deserialize)]
enum Clock {
    Same,
    Forward(u32),
    Backward(u32),
    Zero,
    Set(u64),
}

#[derive(Clone, Debug, Serialize, Deserialize)]
enum Mutation {
    Verbatim,
    Version(u8),
    KeyToAttacker,
    SignatureBit(u16),
    TimestampDelta(i8),
    LogicalDelta(i8),
    BodyAppend(u8),
    ByteFlip(u16, u8),
    /// Signed by the attacker but claiming the victim's key.
    ResignedKeepingVictimKey,
    /// Honest message by the attacker (valid; must be attributed to the attacker).
    AttackerSigned,
    /// Correctly signed by the attacker, but for an unsupported message version.
    AttackerSignedOtherVersion(u8),
}

#[derive(Clone, Debug, Serialize, Deserialize)]
struct Case {
    initial_clock: u64,
    publishes: Vec<(Clock, u8)>,
    /// (which captured message, mutation)
    injections: Vec<(u16, Mutation)>,
}

fn apply_clock(c: &Clock) {
    let now = MockClock::system_time();
    let next = match c {
        Clock::Same => now,
        Clock::Forward(d) => now + Duration::from_micros(*d as u64),
        Clock::Backward(d) => now.saturating_sub(Duration::from_micros(*d as u64)),
        Clock::Zero => Duration::ZERO,
        Clock::Set(v) => Duration::from_micros(*v),
    };
    MockClock::set_system_time(next);
}

fn mutate(bytes: &[u8], m: &Mutation, attacker: &SigningKey) -> Vec<u8> {
    let raw = parse_raw(bytes).expect("captured message parses");
    let body = raw.body.clone().unwrap();
    let text = |s: &str| Value::Text(s.to_string());
    match m {
        Mutation::Verbatim => bytes.to_vec(),
        Mutation::Version(v) => encode_raw(
            if *v == 1 { 0 } else { *v as u64 },
            &raw.key,
            &raw.signature,
            raw.timestamp,
            raw.logical,
            &text(&body),
        ),
        Mutation::KeyToAttacker => encode_raw(
            raw.version,
            attacker.verifying_key().as_bytes(),
            &raw.signature,
            raw.timestamp,
            raw.logical,
            &text(&body),
        ),
        Mutation::SignatureBit(pos) => {
            let mut sig = raw.signature.clone();
            let bit = idx(*pos, sig.len() * 8);
            sig[bit / 8] ^= 1 << (bit % 8);
            encode_raw(raw.version, &raw.key, &sig, raw.timestamp, raw.logical, &text(&body))
        }
        Mutation::TimestampDelta(d) => {
            let d = if *d == 0 { 1 } else { *d };
            encode_raw(
                raw.version,
                &raw.key,
                &raw.signature,
                raw.timestamp.wrapping_add_signed(d as i64),
                raw.logical,
                &text(&body),
            )
        }
        Mutation::LogicalDelta(d) => {
            let d = if *d == 0 { 1 } else { *d };
            encode_raw(
                raw.version,
                &raw.key,
                &raw.signature,
                raw.timestamp,
                raw.logical.wrapping_add_signed(d as i64),
                &text(&body),
            )
        }
        Mutation::BodyAppend(c) => encode_raw(
            raw.version,
            &raw.key,
            &raw.signature,
            raw.timestamp,
            raw.logical,
            &text(&format!("{body}{}", (b'a' + c % 26) as char)),
        ),
        Mutation::ByteFlip(pos, mask) => {
            let mut b = bytes.to_vec();
            let i = idx(*pos, b.len());
            b[i] ^= if *mask == 0 { 1 } else { *mask };
            b
        }
        Mutation::ResignedKeepingVictimKey => {
            let payload = signed_payload(1, &raw.key, raw.timestamp, raw.logical, &body);
            let sig = attacker.sign(&payload);
            encode_raw(1, &raw.key, &sig.to_bytes(), raw.timestamp, raw.logical, &text(&body))
        }
        Mutation::AttackerSignedOtherVersion(v) => {
            let version = if *v == 1 { 2 } else { *v as u64 };
            let key = attacker.verifying_key();
            let payload = signed_payload(version, key.as_bytes(), raw.timestamp, raw.logical, &body);
            let sig = attacker.sign(&payload);
            encode_raw(version, key.as_bytes(), &sig.to_bytes(), raw.timestamp, raw.logical, &text(&body))
        }
        Mutation::AttackerSigned => {
            let key = attacker.verifying_key();
            let payload = signed_payload(1, key.as_bytes(), raw.timestamp, raw.logical, &body);
            let sig = attacker.sign(&payload);
            encode_raw(1, key.as_bytes(), &sig.to_bytes(), raw.timestamp, raw.logical, &text(&body))
        }
    }
}

fn check(case: &Case) -> CaseResult {
    let rt = tokio::runtime::Builder::new_current_thread()
        .enable_all()
        .build()
        .map_err(|e| e.to_string())?;
    // `unconstrained`: the harness polls the subscription by hand many times inside one poll of
    // this block_on task; tokio's cooperative budget (128 operations per task poll) would make
    // the broadcast receiver return Pending with a *deferred* wake-up that only fires when the
    // task yields to the scheduler – an artefact of hand-driving, not of the code under test.
    rt.block_on(tokio::task::unconstrained(async {
        MockClock::set_system_time(Duration::from_micros(case.initial_clock));
        let env = EphEnv::new(64).await;
        let victim = SigningKey::from_bytes(&[0xD1; 32]);
        let attacker = SigningKey::from_bytes(&[0xE2; 32]);
        let (victim_tx, _victim_rx) = env.pair(&victim);

        // 1. Publish sequence under the generated clock walk.
        let mut captured: Vec<Vec<u8>> = Vec::new();
        let mut backwards = false;
        let mut prev_clock = MockClock::system_time();
        for (clock, body) in &case.publishes {
            apply_clock(clock);
            if MockClock::system_time() < prev_clock {
                backwards = true;
            }
            prev_clock = MockClock::system_time();
            victim_tx
                .publish(format!("body-{body}"))
                .await
                .map_err(|e| format!("publish failed: {e}"))?;
            let mut got = env.take_published();
            ensure!(got.len() == 1, "one publish produced {} gossip messages", got.len());
            captured.push(got.pop().unwrap());
        }

        // 2. Uniqueness / monotonicity of what was published.
        let mut stamps = Vec::new();
        for (i, b) in captured.iter().enumerate() {
            let raw = parse_raw(b).ok_or_else(|| format!("published message {i} does not parse"))?;
            ensure!(independently_valid(b), "published message {i} fails the independent authenticity check");
            ensure!(raw.key == victim.verifying_key().as_bytes().to_vec(), "published message {i} carries another key");
            stamps.push((raw.timestamp, raw.logical));
        }
        for i in 1..stamps.len() {
            ensure!(
                stamps[i] > stamps[i - 1],
                "publish {i} carries timestamp {:?} which is not greater than the previous {:?} (clock walk {:?})",
                stamps[i],
                stamps[i - 1],
                case.publishes.iter().map(|p| &p.0).collect::<Vec<_>>()
            );
        }
        for i in 0..captured.len() {
            for j in i + 1..captured.len() {
                ensure!(captured[i] != captured[j], "published messages {i} and {j} are byte-identical");
            }
        }

        // 3. Injection.
        let local = SigningKey::from_bytes(&[0xF3; 32]);
        let (_tx, sub) = env.pair(&local);
        let mut sub: Pin<Box<EphemeralStreamSubscription<String>>> = Box::pin(sub);
        let counter = Arc::new(CountingWaker::default());
        let waker = Waker::from(counter.clone());

        let mut decodable_mutant = false;
        let mut valid_mutant_rejected = 0;
        let mut injected_n = 0;
        if !captured.is_empty() {
            for (which, m) in &case.injections {
                let base = &captured[idx(*which, captured.len())];
                let bytes = mutate(base, m, &attacker);
                let valid = independently_valid(&bytes);
                let is_mutant = !matches!(m, Mutation::Verbatim | Mutation::AttackerSigned);
                if is_mutant && parse_raw(&bytes).is_some() {
                    decodable_mutant = true;
                }
                env.inject(bytes.clone());
                injected_n += 1;

                // Friendly executor: poll a few times regardless of wake-ups (stalls are C17's topic).
                let mut yielded = None;
                for _ in 0..3 {
                    let mut cx = Context::from_waker(&waker);
                    match Stream::poll_next(sub.as_mut(), &mut cx) {
                        Poll::Ready(Some(msg)) => {
                            yielded = Some(msg);
                            break;
                        }
                        Poll::Ready(None) => return Err("subscription ended".into()),
                        Poll::Pending => {}
                    }
                }

                match yielded {
                    Some(msg) => {
                        let raw = parse_raw(&bytes)
                            .ok_or_else(|| format!("a message was yielded for injected bytes that do not even parse as a wrapped tuple ({m:?})"))?;
                        let author = msg.author();
                        let payload = signed_payload(1, author.as_bytes(), msg.timestamp(), raw.logical, msg.body());
                        ensure!(
                            signature_ok(author.as_bytes(), &raw.signature, &payload),
                            "yielded message (author {author}, ts {}, body {:?}) does not carry a valid signature of the reported author over version/timestamp/body; injected mutation {m:?}",
                            msg.timestamp(),
                            msg.body()
                        );
                        ensure!(valid, "yielded a message the independent check rejects ({m:?})");
                        if matches!(m, Mutation::AttackerSigned) {
                            ensure!(author == attacker.verifying_key(), "attacker-signed message attributed to {author}");
                        }
                        if matches!(m, Mutation::Verbatim) {
                            ensure!(author == victim.verifying_key(), "victim's message attributed to {author}");
                        }
                    }
                    None => {
                        if matches!(m, Mutation::Verbatim | Mutation::AttackerSigned) {
                            return Err(format!("an authentic message was not yielded ({m:?})"));
                        }
                        if valid {
                            valid_mutant_rejected += 1;
                        }
                    }
                }
            }
        }

        Ok(CaseOk::nontrivial(backwards || decodable_mutant)
            .label_if(backwards, "clock_stepped_backwards")
            .label_if(decodable_mutant, "mutant_still_decodes")
            .label_if(valid_mutant_rejected > 0, "mutant_valid_by_harness_but_rejected")
            .label_if(injected_n > 0, "has_injections")
            .label_if(case.publishes.len() >= 5, "five_or_more_publishes"))
    }))
}

fn clock() -> impl Strategy<Value = Clock> {
    prop_oneof![
        3 => Just(Clock::Same),
        3 => (1u32..5_000_000).prop_map(Clock::Forward),
        3 => (1u32..5_000_000).prop_map(Clock::Backward),
        1 => Just(Clock::Zero),
        1 => prop_oneof![Just(0u64), 1u64..10_000, Just(1_800_000_000_000_000u64), Just(4_000_000_000_000_000u64)].prop_map(Clock::Set),
    ]
}

fn mutation() -> impl Strategy<Value = Mutation> {
    prop_oneof![
        3 => Just(Mutation::Verbatim),
        1 => any::<u8>().prop_map(Mutation::Version),
        1 => Just(Mutation::KeyToAttacker),
        2 => any::<u16>().prop_map(Mutation::SignatureBit),
        1 => any::<i8>().prop_map(Mutation::TimestampDelta),
        1 => any::<i8>().prop_map(Mutation::LogicalDelta),
        1 => any::<u8>().prop_map(Mutation::BodyAppend),
        3 => (any::<u16>(), any::<u8>()).prop_map(|(p, m)| Mutation::ByteFlip(p, m)),
        2 => Just(Mutation::ResignedKeepingVictimKey),
        1 => Just(Mutation::AttackerSigned),
        2 => prop_oneof![Just(2u8), Just(0u8), any::<u8>()].prop_map(Mutation::AttackerSignedOtherVersion),
    ]
}

fn case() -> impl Strategy<Value = Case> {
    (
        prop_oneof![Just(0u64), 0u64..10_000_000, Just(1_790_000_000_000_000u64)],
        prop::collection::vec((clock(), 0u8..3), 1..=20),
        prop::collection::vec((any::<u16>(), mutation()), 0..=16),
    )
        .prop_map(|(initial_clock, publishes, injections)| Case {
            initial_clock,
            publishes,
            injections,
        })
}

/// Writes a few authentic wrapped messages as seed corpus of the `c16_wrapped` fuzz target.
fn seed_corpus(ctx: &Ctx) {
    let dir = ctx.verif_dir.join("fuzz").join("corpus").join("c16_wrapped");
    if dir.exists() {
        return;
    }
    std::fs::create_dir_all(&dir).ok();
    let rt = tokio::runtime::Builder::new_current_thread().enable_all().build().unwrap();
    rt.block_on(async {
        MockClock::set_system_time(Duration::from_micros(1_700_000_000_000_000));
        let env = EphEnv::new(64).await;
        let (tx, _rx) = env.pair(&SigningKey::from_bytes(&[0xD1; 32]));
        for (i, body) in ["", "a", "hello panda", "üñí", "0123456789012345678901234567890123456789"].iter().enumerate() {
            tx.publish(body.to_string()).await.unwrap();
            for b in env.take_published() {
                std::fs::write(dir.join(format!("seed-{i}")), b).ok();
            }
        }
    });
}

pub fn run(mut ctx: Ctx) -> ! {
    seed_corpus(&ctx);
    ctx.run_fuzz(
        engine::fuzz::FuzzSpec {
            target: "c16_wrapped",
            rule: "libFuzzer over the wrapped-message decoder (hook verif_wrapped_from_bytes): whatever bytes it accepts must carry a valid signature of the reported author over (version, timestamp, logical, body) by the independent check; corpus + saved crash inputs are re-checked in every tier, the campaign runs in thorough; non-trivial = input parses as a wrapped tuple",
            thorough_secs: 90,
        },
        crate::fuzz_c16::c16_oracle,
    );
    ctx.assume("wall clock = p2panda-core's mock clock (feature test_utils), set from the generated case; readings stay far below u64::MAX");
    ctx.assume("mutants the independent check accepts but the code rejects are only counted (label), not asserted");
    ctx.run_prop(
        Part::new(
            "publish_and_tamper",
            "1-20 publishes under a generated clock walk (same/forward/backward/zero/absolute) followed by 0-16 injections (verbatim, field mutations, byte flips, re-signed under the victim's key, honest attacker message); non-trivial = the clock stepped backwards between publishes or a mutant still parses as a wrapped tuple",
            800,
            50_000,
        )
        .min_nontrivial(0.3),
        case,
        check,
    );
    ctx.finish()
}
