//! C17 An ephemeral subscription never stalls on invalid messages.
//!
//! The subscription is driven by a *specification-compliant executor* written in the harness: it
//! polls once at start, again immediately after every yielded item, and otherwise only when the
//! waker it handed to `poll_next` has fired. Items arrive on the underlying broadcast channel in
//! generated batches (valid, undecodable, wrong-signature, wrong-version, truncated items and
//! overflow of the channel capacity = lag markers).
//!
//! Oracle: a second raw receiver of the same broadcast channel, subscribed at the same moment and
//! drained at the same quiescence points, says which authentic items the channel still retained;
//! the subscription must have yielded exactly those, in order. If it yielded fewer while
//! returning `Pending` without a wake-up having been arranged, that is a stall.

use std::pin::Pin;
use std::sync::Arc;
use std::task::{Context, Poll, Waker};

use engine::proptest::prelude::*;
use engine::stepper::CountingWaker;
use engine::{CaseOk, CaseResult, Ctx, Part, ensure, idx};
use futures_util::Stream;
use p2panda_core::SigningKey;
use serde::{Deserialize, Serialize};
use tokio::sync::broadcast::error::TryRecvError;

use crate::eph::{EphEnv, encode_raw, independently_valid, parse_raw};

#[derive(Clone, Debug, Serialize, Deserialize)]
enum Item {
    /// Authentic message number n of the pool (each used at most once per case position).
    Valid(u16),
    Garbage(Vec<u8>),
    FlipSignatureBit(u16, u16),
    WrongVersion(u16, u8),
    Truncated(u16, u16),
    BodyChanged(u16),
    Empty,
}

#[derive(Clone, Debug, Serialize, Deserialize)]
struct Case {
    /// Broadcast capacity = 2^(1 + cap_pow % 7)  (2 .. 128; the real gossip channel holds 128).
    cap_pow: u8,
    /// Poll the subscription once before the first batch arrives.
    poll_first: bool,
    batches: Vec<Vec<Item>>,
}

const POOL: usize = 12;

fn build_bytes(item: &Item, pool: &[Vec<u8>]) -> Vec<u8> {
    let pick = |n: &u16| &pool[idx(*n, pool.len())];
    match item {
        Item::Valid(n) => pick(n).clone(),
        Item::Garbage(b) => b.clone(),
        Item::Empty => vec![],
        Item::FlipSignatureBit(n, pos) => {
            let raw = parse_raw(pick(n)).expect("pool message parses");
            let mut sig = raw.signature.clone();
            let bit = idx(*pos, sig.len() * 8);
            sig[bit / 8] ^= 1 << (bit % 8);
            encode_raw(raw.version, &raw.key, &sig, raw.timestamp, raw.logical, &ciborium::Value::Text(raw.body.unwrap()))
        }
        Item::WrongVersion(n, v) => {
            let raw = parse_raw(pick(n)).expect("pool message parses");
            let version = if *v as u64 == 1 { 2 } else { *v as u64 };
            encode_raw(version, &raw.key, &raw.signature, raw.timestamp, raw.logical, &ciborium::Value::Text(raw.body.unwrap()))
        }
        Item::Truncated(n, at) => {
            let b = pick(n);
            b[..idx(*at, b.len())].to_vec()
        }
        Item::BodyChanged(n) => {
            let raw = parse_raw(pick(n)).expect("pool message parses");
            encode_raw(raw.version, &raw.key, &raw.signature, raw.timestamp, raw.logical, &ciborium::Value::Text(format!("{}!", raw.body.unwrap())))
        }
    }
}

fn check(case: &Case) -> CaseResult {
    let rt = tokio::runtime::Builder::new_current_thread()
        .enable_all()
        .build()
        .map_err(|e| e.to_string())?;
    // `unconstrained`: the harness polls the subscription by hand many times inside one poll of
    // this block_on task; tokio's cooperative budget (128 operations per task poll) would make
    // the broadcast receiver return Pending with a *deferred* wake-up that only fires when the
    // task yields to the scheduler – an artefact of hand-driving, not of the code under test.
    rt.block_on(tokio::task::unconstrained(async {
        let capacity = 1usize << (1 + (case.cap_pow % 7));
        let env = EphEnv::new(capacity).await;
        // Pool of authentic messages from a "remote" publisher (captured from the probe).
        let remote_key = SigningKey::from_bytes(&[0xB1; 32]);
        let (remote_tx, _remote_rx) = env.pair(&remote_key);
        for i in 0..POOL {
            remote_tx.publish(format!("m{i}")).await.map_err(|e| format!("publish: {e}"))?;
        }
        let pool = env.take_published();
        ensure!(pool.len() == POOL, "probe captured {} of {POOL} published messages", pool.len());
        for b in &pool {
            ensure!(independently_valid(b), "harness precondition: published message fails the independent check");
        }

        // The subscription under test and the reference receiver, subscribed back to back.
        let local_key = SigningKey::from_bytes(&[0xC2; 32]);
        let (_tx, sub) = env.pair(&local_key);
        let mut reference = env.raw_receiver();
        let mut sub = Box::pin(sub);

        let counter = Arc::new(CountingWaker::default());
        let waker = Waker::from(counter.clone());
        let mut seen_wakes = 0u64;
        let mut started = false;
        let mut last_pending = false;

        let mut nontrivial = false;
        let mut lag_seen = false;
        let mut total_valid = 0usize;
        let mut total_invalid = 0usize;

        // Runs the compliant executor until it would go to sleep; returns what was yielded.
        let mut run_executor = |sub: &mut Pin<Box<p2panda::streams::EphemeralStreamSubscription<String>>>, started: &mut bool, last_pending: &mut bool, seen: &mut u64| -> Result<Vec<(Vec<u8>, String)>, String> {
            let mut out = Vec::new();
            let mut polls = 0;
            loop {
                let must_poll = !*started || !*last_pending || counter.count() > *seen;
                if !must_poll {
                    return Ok(out);
                }
                polls += 1;
                ensure!(polls < 10_000, "subscription keeps waking itself without progress (busy loop)");
                *started = true;
                *seen = counter.count();
                let mut cx = Context::from_waker(&waker);
                let s = sub.as_mut();
                match Stream::poll_next(s, &mut cx) {
                    Poll::Ready(Some(msg)) => {
                        let msg: p2panda::streams::EphemeralMessage<String> = msg;
                        *last_pending = false;
                        out.push((msg.author().as_bytes().to_vec(), msg.body().clone()));
                    }
                    Poll::Ready(None) => return Err("subscription ended although the channel is open".into()),
                    Poll::Pending => *last_pending = true,
                }
            }
        };

        if case.poll_first {
            let y = run_executor(&mut sub, &mut started, &mut last_pending, &mut seen_wakes)?;
            ensure!(y.is_empty(), "yielded {} items before anything was sent", y.len());
        }

        for (bi, batch) in case.batches.iter().enumerate() {
            let mut invalid_before_valid = false;
            let mut seen_invalid = false;
            for item in batch {
                let bytes = build_bytes(item, &pool);
                if independently_valid(&bytes) {
                    total_valid += 1;
                    if seen_invalid {
                        invalid_before_valid = true;
                    }
                } else {
                    total_invalid += 1;
                    seen_invalid = true;
                }
                env.inject(bytes);
            }
            if batch.len() > capacity {
                lag_seen = true;
            }
            nontrivial |= invalid_before_valid;

            let yielded = run_executor(&mut sub, &mut started, &mut last_pending, &mut seen_wakes)?;

            // What did the channel retain for a receiver at the same position?
            let mut expected: Vec<(Vec<u8>, String)> = Vec::new();
            loop {
                match reference.try_recv() {
                    Ok(bytes) => {
                        if independently_valid(&bytes) {
                            let raw = parse_raw(&bytes).unwrap();
                            expected.push((raw.key, raw.body.unwrap()));
                        }
                    }
                    Err(TryRecvError::Lagged(_)) => continue,
                    Err(TryRecvError::Empty) => break,
                    Err(TryRecvError::Closed) => break,
                }
            }

            if yielded != expected {
                let is_prefix = yielded.len() < expected.len() && expected[..yielded.len()] == yielded[..];
                if is_prefix {
                    return Err(format!(
                        "stall in batch {bi}: {} authentic item(s) are available on the channel but poll_next returned Pending and the waker was not fired (yielded {:?}, available {:?})",
                        expected.len() - yielded.len(),
                        yielded.iter().map(|y| &y.1).collect::<Vec<_>>(),
                        expected.iter().map(|y| &y.1).collect::<Vec<_>>()
                    ));
                }
                return Err(format!(
                    "batch {bi}: yielded {:?} but the channel retained the authentic items {:?}",
                    yielded.iter().map(|y| &y.1).collect::<Vec<_>>(),
                    expected.iter().map(|y| &y.1).collect::<Vec<_>>()
                ));
            }
        }

        Ok(CaseOk::nontrivial(nontrivial)
            .label_if(lag_seen, "batch_overflows_capacity_lag")
            .label_if(case.poll_first, "polled_before_first_arrival")
            .label_if(case.batches.len() >= 2, "arrivals_interleaved_with_polls")
            .label_if(case.batches.iter().any(|b| b.len() >= 16), "run_of_16_or_more_buffered_items")
            .label_if(total_valid > 0 && total_invalid > 0, "mixed_valid_invalid")
            .label_if(total_valid == 0, "no_valid_item"))
    }))
}

fn item() -> impl Strategy<Value = Item> {
    prop_oneof![
        4 => any::<u16>().prop_map(Item::Valid),
        1 => prop::collection::vec(any::<u8>(), 0..40).prop_map(Item::Garbage),
        2 => (any::<u16>(), any::<u16>()).prop_map(|(n, p)| Item::FlipSignatureBit(n, p)),
        1 => (any::<u16>(), any::<u8>()).prop_map(|(n, v)| Item::WrongVersion(n, v)),
        1 => (any::<u16>(), any::<u16>()).prop_map(|(n, a)| Item::Truncated(n, a)),
        1 => any::<u16>().prop_map(Item::BodyChanged),
        1 => Just(Item::Empty),
    ]
}

fn invalid_item() -> impl Strategy<Value = Item> {
    prop_oneof![
        2 => prop::collection::vec(any::<u8>(), 0..40).prop_map(Item::Garbage),
        2 => (any::<u16>(), any::<u16>()).prop_map(|(n, p)| Item::FlipSignatureBit(n, p)),
        1 => (any::<u16>(), any::<u8>()).prop_map(|(n, v)| Item::WrongVersion(n, v)),
        1 => any::<u16>().prop_map(Item::BodyChanged),
        1 => Just(Item::Empty),
    ]
}

fn case() -> impl Strategy<Value = Case> {
    (
        any::<u8>(),
        any::<bool>(),
        prop::collection::vec(prop::collection::vec(item(), 0..8), 1..5),
        prop::option::weighted(0.15, prop::collection::vec(item(), 17..22)),
        // A flood: a long run of invalid items already buffered when the consumer is polled,
        // followed by authentic ones (per-poll skip budgets, lag followed by garbage, ...).
        prop::option::weighted(
            0.35,
            (
                prop::collection::vec(invalid_item(), 9..150),
                prop::collection::vec(any::<u16>().prop_map(Item::Valid), 1..3),
                any::<u16>(),
            ),
        ),
    )
        .prop_map(|(cap_pow, poll_first, mut batches, big, flood)| {
            if let Some(b) = big {
                batches.push(b); // a batch larger than the small capacities: guaranteed lag
            }
            if let Some((mut run, valid, at)) = flood {
                run.extend(valid);
                let pos = idx(at, batches.len() + 1);
                batches.insert(pos, run);
            }
            Case {
                cap_pow,
                poll_first,
                batches,
            }
        })
}

pub fn run(mut ctx: Ctx) -> ! {
    ctx.assume("the executor model is the Future/Stream contract: after Pending, a task is polled again only if the waker passed to that poll was woken");
    ctx.assume("which items a lagging receiver still sees is taken from a second tokio broadcast receiver at the same position (tokio's retention rule is not re-modelled)");
    ctx.run_prop(
        Part::new(
            "channel_sequences",
            "1-6 batches of 0-8 (sometimes 17-21, sometimes a flood of 9-150 invalid items followed by authentic ones) items (authentic, garbage, flipped signature bit, wrong version, truncated, changed body, empty) on a broadcast channel of capacity 2..128, subscription polled by a spec-compliant executor between batches; non-trivial = an authentic item preceded by an invalid one inside the same batch (already buffered at poll time)",
            2_000,
            100_000,
        )
        .min_nontrivial(0.2),
        case,
        check,
    );
    ctx.finish()
}
