//! C14 Every pipeline submission completes with its own result.
//!
//! Part `gate_schedules` (deciding part): the harness owns the schedule. Submitters mirror what
//! `Pipeline::process` does (`track(id)`, hand the input to the pipeline queue, `task.ready()`);
//! the "pipeline thread" is an action which pops one queued input and calls
//! `TaskTracker::mark_as_done(id, result)` – exactly the calls of `Pipeline::new`'s loop. The hook
//! gate inside `Task::ready` (between the result check and the wait registration) makes that
//! window a schedule point. Oracle: at quiescence every submitter has finished and returned the
//! result attached to its own id; an unfinished submitter that is neither at a gate nor woken is
//! a lost wake-up.
//!
//! Part `pipeline_threads` (exploratory, real worker thread): concurrent `Pipeline::process` calls
//! for same/different operations on a multi-thread runtime; every returned event must carry the
//! hash that was submitted. A hang there trips the watchdog (exit 2, inconclusive) – the
//! deterministic detection is the gate part.

use std::cell::RefCell;
use std::collections::VecDeque;
use std::time::Duration;

use engine::proptest::prelude::*;
use engine::sched::{Actor, ActorState};
use engine::{CaseOk, CaseResult, Ctx, Part, Watchdog, ensure, ensure_eq, idx};
use p2panda::operation::{Extensions, LogId};
use p2panda::processor::Event;
use p2panda::processor::verif::{Pipeline, TaskTracker};
use p2panda_core::{Body, Header, Operation, PruneFlag, SigningKey, Topic};
use p2panda_net::verif_gate;
use p2panda_store::SqliteStore;
use serde::{Deserialize, Serialize};

#[derive(Clone, Debug, Serialize, Deserialize)]
struct GateCase {
    /// Id (0 or 1) each submitter submits.
    submitters: Vec<u8>,
    /// Picks: index into the currently enabled moves (runnable submitters, then the completer).
    schedule: Vec<u16>,
}

type R = (u8, u32); // (id, completion serial)

fn check_gate(case: &GateCase) -> CaseResult {
    let tracker: TaskTracker<R, u8> = TaskTracker::new();
    let queue: RefCell<VecDeque<u8>> = RefCell::new(VecDeque::new());
    verif_gate::enable(true);
    let take = || verif_gate::take_last();

    let mut actors: Vec<Actor<'_, R>> = case
        .submitters
        .iter()
        .enumerate()
        .map(|(i, id)| {
            let tracker = tracker.clone();
            let queue = &queue;
            let id = *id;
            Actor::new(format!("submitter{i}(id={id})"), async move {
                // == Pipeline::process
                let task = tracker.track(id).await;
                queue.borrow_mut().push_back(id);
                task.ready().await
            })
        })
        .collect();

    let mut serial = 0u32;
    let mut done_while_at_gate = false;
    let mut trace: Vec<String> = Vec::new();

    // One move of the "pipeline thread": pop one input, mark it done.
    let mut run_completer = |actors: &mut Vec<Actor<'_, R>>, trace: &mut Vec<String>| -> Result<(), String> {
        let Some(id) = queue.borrow_mut().pop_front() else {
            return Ok(());
        };
        serial += 1;
        for (i, a) in actors.iter().enumerate() {
            if matches!(a.state, ActorState::AtGate(_)) && case.submitters[i] == id {
                done_while_at_gate = true;
            }
        }
        trace.push(format!("mark_as_done({id})"));
        let mut fut = engine::stepper::Stepper::new(tracker.mark_as_done(id, (id, serial)));
        ensure!(fut.step(), "mark_as_done did not complete in one poll (unexpected contention)");
        Ok(())
    };

    for pick in &case.schedule {
        let runnable: Vec<usize> = (0..actors.len()).filter(|i| actors[*i].runnable()).collect();
        let completer_enabled = !queue.borrow().is_empty();
        let moves = runnable.len() + usize::from(completer_enabled);
        if moves == 0 {
            break;
        }
        let m = idx(*pick, moves);
        if m < runnable.len() {
            let a = runnable[m];
            let st = actors[a].step(&take);
            trace.push(format!("{} -> {:?}", actors[a].name, st));
        } else {
            run_completer(&mut actors, &mut trace)?;
        }
    }

    // Drain: any fair executor keeps going until nothing can move.
    let mut guard = 0;
    loop {
        guard += 1;
        ensure!(guard < 10_000, "drain did not terminate");
        let mut progressed = false;
        while !queue.borrow().is_empty() {
            run_completer(&mut actors, &mut trace)?;
            progressed = true;
        }
        for a in 0..actors.len() {
            if actors[a].runnable() {
                let st = actors[a].step(&take);
                trace.push(format!("{} -> {:?}", actors[a].name, st));
                progressed = true;
            }
        }
        if !progressed {
            break;
        }
    }
    verif_gate::enable(false);

    for (i, a) in actors.iter_mut().enumerate() {
        if !a.is_done() {
            return Err(format!(
                "lost wake-up: {} never finishes (state {:?}) although every queued input was marked done; trace: {}",
                a.name,
                a.state,
                trace.join("; ")
            ));
        }
        let (rid, _) = *a.stepper.output().expect("done actor has output");
        ensure_eq!(rid, case.submitters[i], "{} returned the result of another id", a.name);
    }

    let same_id_twice = {
        let mut c = [0; 2];
        for s in &case.submitters {
            c[(*s & 1) as usize] += 1;
        }
        c.iter().any(|n| *n >= 2)
    };
    Ok(CaseOk::nontrivial(done_while_at_gate)
        .label_if(same_id_twice, "same_id_submitted_concurrently")
        .label_if(case.submitters.len() >= 3, "three_or_more_submitters")
        .label_if(done_while_at_gate, "mark_as_done_inside_check_wait_window"))
}

#[derive(Clone, Debug, Serialize, Deserialize)]
struct CoopCase {
    submitters: Vec<u8>,
    /// (pick among enabled moves, cooperative budget the picked submitter is polled with).
    schedule: Vec<(u16, u8)>,
}

/// Like `check_gate`, but the actors are polled *inside* a tokio runtime with a generated
/// cooperative-scheduling budget: with `k` units left, the (k+1)-th tokio primitive a submitter
/// touches in that poll (lock acquire, notification) yields instead of proceeding. Every await on a
/// tokio primitive inside `track`/`ready` thereby becomes a preemption point the schedule can
/// choose – without any hook – exactly as it is one on a loaded runtime.
fn check_coop(case: &CoopCase) -> CaseResult {
    let rt = tokio::runtime::Builder::new_current_thread().enable_all().build().map_err(|e| e.to_string())?;
    rt.block_on(async {
        let tracker: TaskTracker<R, u8> = TaskTracker::new();
        let queue: RefCell<VecDeque<u8>> = RefCell::new(VecDeque::new());
        verif_gate::enable(true);
        let take = || verif_gate::take_last();
        let mut actors: Vec<Actor<'_, R>> = case
            .submitters
            .iter()
            .enumerate()
            .map(|(i, id)| {
                let tracker = tracker.clone();
                let queue = &queue;
                let id = *id;
                Actor::new(format!("submitter{i}(id={id})"), async move {
                    let task = tracker.track(id).await;
                    queue.borrow_mut().push_back(id);
                    task.ready().await
                })
            })
            .collect();
        let mut serial = 0u32;
        let mut trace: Vec<String> = Vec::new();
        let mut preempted = 0usize;
        let mut steps = case.schedule.iter();
        let mut guard = 0;
        loop {
            guard += 1;
            ensure!(guard < 10_000, "coop run did not terminate");
            // Root yield: flushes deferred (budget) wake-ups and gives this poll a fresh budget of 128.
            tokio::task::yield_now().await;
            let runnable: Vec<usize> = (0..actors.len()).filter(|i| actors[*i].runnable()).collect();
            let completer_enabled = !queue.borrow().is_empty();
            let moves = runnable.len() + usize::from(completer_enabled);
            if moves == 0 {
                break;
            }
            // After the generated schedule: fair drain (completer first, full budget).
            let (pick, budget) = steps.next().copied().unwrap_or((u16::MAX, 200));
            let m = idx(pick, moves);
            if m < runnable.len() {
                let a = runnable[m];
                if budget < 120 {
                    for _ in 0..(128 - budget as usize) {
                        if !tokio::task::coop::has_budget_remaining() {
                            break;
                        }
                        tokio::task::consume_budget().await;
                    }
                }
                let st = actors[a].step(&take);
                if !tokio::task::coop::has_budget_remaining() && !matches!(st, ActorState::Done) {
                    preempted += 1;
                }
                trace.push(format!("{}[budget {}] -> {:?}", actors[a].name, budget, st));
            } else {
                let id = queue.borrow_mut().pop_front().expect("enabled");
                serial += 1;
                trace.push(format!("mark_as_done({id})"));
                tracker.mark_as_done(id, (id, serial)).await;
            }
        }
        verif_gate::enable(false);
        for (i, a) in actors.iter_mut().enumerate() {
            if !a.is_done() {
                return Err(format!(
                    "lost submission: {} never finishes (state {:?}) although every queued input was marked done; trace: {}",
                    a.name,
                    a.state,
                    trace.join("; ")
                ));
            }
            let (rid, _) = *a.stepper.output().expect("done actor has output");
            ensure_eq!(rid, case.submitters[i], "{} returned the result of another id", a.name);
        }
        let mut c = [0; 2];
        for s in &case.submitters {
            c[(*s & 1) as usize] += 1;
        }
        let same_id_twice = c.iter().any(|n| *n >= 2);
        Ok(CaseOk::nontrivial(preempted > 0 && same_id_twice)
            .label_if(preempted > 0, "submitter_preempted_at_tokio_primitive")
            .label_if(preempted >= 3, "three_or_more_preemptions")
            .label_if(same_id_twice, "same_id_submitted_concurrently"))
    })
}

fn gate_case(max_submitters: usize, max_picks: usize) -> impl Strategy<Value = GateCase> {
    (
        prop::collection::vec(0u8..2, 1..=max_submitters),
        prop::collection::vec(any::<u16>(), 0..=max_picks),
    )
        .prop_map(|(submitters, schedule)| GateCase { submitters, schedule })
}

/// All schedules of `picks` binary/ternary choices for two submitters on the same id: the pick
/// alphabet {0, 1<<14, 1<<15, 3<<14} covers every index for up to 4 enabled moves.
fn exhaustive_cases(picks: usize) -> Vec<GateCase> {
    let alphabet = [0u16, 21846, 43691, 65535]; // thirds: indexes 0,1,2 of 3 moves; 0/1 of 2 moves
    let mut out = Vec::new();
    let total = 3usize.pow(picks as u32);
    for submitters in [vec![0u8, 0u8], vec![0u8, 1u8]] {
        for mut n in 0..total {
            let mut schedule = Vec::with_capacity(picks);
            for _ in 0..picks {
                schedule.push(alphabet[n % 3]);
                n /= 3;
            }
            out.push(GateCase {
                submitters: submitters.clone(),
                schedule,
            });
        }
    }
    out
}

#[derive(Clone, Debug, Serialize, Deserialize)]
struct ThreadCase {
    /// For each concurrent submitter: which of 3 operations it submits.
    submitters: Vec<u8>,
    rounds: u8,
}

fn make_op(key: &SigningKey, topic: Topic, seq: u64, body: &[u8]) -> Operation<Extensions> {
    let body = Body::new(body);
    let mut header = Header::<Extensions> {
        version: 1,
        verifying_key: key.verifying_key(),
        signature: None,
        payload_size: body.size(),
        payload_hash: Some(body.hash()),
        seq_num: seq as u32,
        backlink: None,
        extensions: Extensions::from_topic(topic),
    };
    header.sign(key);
    Operation {
        hash: header.hash(),
        header,
        body: Some(body),
    }
}

fn check_threads(case: &ThreadCase) -> CaseResult {
    let _wd = Watchdog::arm("C14 pipeline_threads case", Duration::from_secs(60));
    let rt = tokio::runtime::Builder::new_multi_thread()
        .worker_threads(4)
        .enable_all()
        .build()
        .map_err(|e| e.to_string())?;
    rt.block_on(async {
        let store = SqliteStore::temporary().await;
        let tasks = TaskTracker::new();
        let pipeline = Pipeline::<LogId, Extensions, Topic>::new(store, tasks);
        let topic = Topic::from([3u8; 32]);
        // Three independent single-operation logs (seq 0, distinct authors).
        let ops: Vec<Operation<Extensions>> = (0..3u8)
            .map(|i| make_op(&SigningKey::from_bytes(&[i + 1; 32]), topic, 0, &[i]))
            .collect();
        for _ in 0..case.rounds.max(1) {
            let mut handles = Vec::new();
            for s in &case.submitters {
                let op = ops[(*s % 3) as usize].clone();
                let pipeline = pipeline.clone();
                handles.push(tokio::spawn(async move {
                    let hash = op.hash;
                    let prune = op.header.extensions.prune_flag();
                    let event = pipeline
                        .process(Event::verif_new(op, LogId::from_topic(topic), topic, prune))
                        .await;
                    (hash, event)
                }));
            }
            for h in handles {
                let (hash, event) = h.await.map_err(|e| format!("submitter task failed: {e}"))?;
                use p2panda_core::traits::Digest;
                ensure_eq!(event.hash(), hash, "Pipeline::process returned the event of another operation");
                ensure!(
                    event.is_completed() || event.is_failed(),
                    "returned event was not processed: {event:?}"
                );
            }
        }
        let distinct: std::collections::BTreeSet<u8> = case.submitters.iter().map(|s| s % 3).collect();
        Ok(CaseOk::nontrivial(case.submitters.len() > distinct.len())
            .label_if(distinct.len() >= 2, "different_operations_concurrently"))
    })
}

pub fn run(mut ctx: Ctx) -> ! {
    let _ = PruneFlag::default();
    ctx.assume("interleavings are explored at gate granularity: between gates the tracker's shared state is only touched under its tokio locks, which no actor holds across a gate");
    let picks = ctx.pick(7, 10);
    ctx.run_exhaustive(
        "gate_exhaustive_two_submitters",
        "every schedule of N ternary picks (N=7 quick, 10 thorough) for two submitters on the same id and on different ids, moves = runnable submitters + the pipeline's mark_as_done; non-trivial = a mark_as_done ran while a submitter of that id sat in the check->wait window",
        exhaustive_cases(picks),
        check_gate,
    );
    ctx.run_prop(
        Part::new(
            "gate_schedules",
            "1-4 submitters over ids {0,1} (incl. several on one id and re-submission after completion), schedule of <=24 picks among runnable submitters and the pipeline's mark_as_done, then a fair drain; non-trivial = a mark_as_done ran while a submitter of that id sat in the check->wait window",
            3_000,
            200_000,
        )
        .min_nontrivial(0.05),
        || gate_case(4, 24),
        check_gate,
    );
    ctx.run_prop(
        Part::new(
            "coop_preemption",
            "1-4 submitters over ids {0,1} hand-polled inside a tokio runtime; each pick also chooses the cooperative budget (0-5 units, or unlimited) the submitter is polled with, so any tokio lock/notify await inside track()/ready() can be the point where it is preempted; moves = runnable submitters + mark_as_done, then a fair drain; non-trivial = a submitter was preempted by the budget and two submitters share an id",
            3_000,
            150_000,
        )
        .min_nontrivial(0.2),
        || {
            (
                prop::collection::vec(0u8..2, 1..=4),
                prop::collection::vec((any::<u16>(), prop_oneof![4 => 0u8..6, 1 => Just(200u8)]), 0..=24),
            )
                .prop_map(|(submitters, schedule)| CoopCase { submitters, schedule })
        },
        check_coop,
    );
    ctx.run_prop(
        Part::new(
            "pipeline_threads",
            "real Pipeline (worker thread + SQLite) with 2-6 concurrent Pipeline::process calls over 3 operations for 1-3 rounds on a multi-thread runtime; non-trivial = the same operation submitted concurrently",
            40,
            1_500,
        )
        .workers(2, 8)
        .min_nontrivial(0.2),
        || {
            (prop::collection::vec(0u8..3, 2..=6), 1u8..=3)
                .prop_map(|(submitters, rounds)| ThreadCase { submitters, rounds })
        },
        check_threads,
    );
    ctx.finish()
}
