//! C07 Stream cursors only move forward and only for their own topic.
//!
//! Part `cursor_advance`: generated sequences of `Cursor::advance` calls; the state must equal
//! the pointwise maximum of all advances (closed form) and be the same for every order in which
//! the same multiset of advances is applied (all permutations for short sequences, generated
//! permutations for longer ones).
//!
//! Part `acked_histories`: the node's `Acked` tracker (private; hook re-export) on a SQLite store.
//! Generated histories of `ack(header)` calls for own-topic and foreign-topic headers, issued
//! through two clones of the same `Acked`, interleaved with reads of the persisted cursor.
//! Reference model: pointwise maximum of the own-topic acks. After every step the persisted
//! cursor equals the model (hence never moves backwards); a foreign-topic ack returns
//! `AckedError::InvalidTopic` and leaves the persisted cursor unchanged.

use std::collections::BTreeMap;

use engine::proptest::prelude::*;
use engine::{CaseOk, CaseResult, Ctx, Part, ensure, ensure_eq, permutation};
use p2panda::operation::{Extensions, LogId};
use p2panda::streams::verif::Acked;
use p2panda::streams::{AckedError, StreamFrom};
use p2panda_core::logs::LogHeights;
use p2panda_core::{Cursor, Header, SigningKey, Topic, VerifyingKey};
use p2panda_store::SqliteStore;
use serde::{Deserialize, Serialize};

#[derive(Clone, Debug, PartialEq, Eq, PartialOrd, Ord, Hash, Serialize, Deserialize)]
struct A(u8);
impl p2panda_core::identity::Author for A {}

#[derive(Clone, Debug, Serialize, Deserialize)]
struct AdvanceCase {
    advances: Vec<(u8, u8, u32)>,
    /// Sort keys of an alternative application order.
    order: Vec<u16>,
}

fn apply(advances: impl Iterator<Item = (u8, u8, u32)>) -> BTreeMap<(u8, u8), u32> {
    let mut c: Cursor<A, u8> = Cursor::new("c07", LogHeights::default());
    for (a, l, h) in advances {
        c.advance(A(a), l, h);
    }
    c.state()
        .iter()
        .flat_map(|(a, logs)| logs.iter().map(move |(l, h)| ((a.0, *l), *h)))
        .collect()
}

fn all_permutations(n: usize) -> Vec<Vec<usize>> {
    fn rec(cur: &mut Vec<usize>, used: &mut Vec<bool>, n: usize, out: &mut Vec<Vec<usize>>) {
        if cur.len() == n {
            out.push(cur.clone());
            return;
        }
        for i in 0..n {
            if !used[i] {
                used[i] = true;
                cur.push(i);
                rec(cur, used, n, out);
                cur.pop();
                used[i] = false;
            }
        }
    }
    let mut out = vec![];
    rec(&mut vec![], &mut vec![false; n], n, &mut out);
    out
}

fn check_advance(case: &AdvanceCase) -> CaseResult {
    let mut expected: BTreeMap<(u8, u8), u32> = BTreeMap::new();
    let mut lower_after_higher = false;
    for (a, l, h) in &case.advances {
        let e = expected.entry((*a, *l)).or_insert(*h);
        if *h < *e {
            lower_after_higher = true;
        }
        *e = (*e).max(*h);
    }
    let got = apply(case.advances.iter().copied());
    ensure_eq!(got, expected, "cursor state differs from the pointwise maximum of all advances");

    let n = case.advances.len();
    if n <= 5 {
        for p in all_permutations(n) {
            let got = apply(p.iter().map(|i| case.advances[*i]));
            ensure_eq!(got, expected, "cursor state depends on the order of advances (order {p:?})");
        }
    } else {
        let p = permutation(&case.order, n);
        let got = apply(p.iter().map(|i| case.advances[*i]));
        ensure_eq!(got, expected, "cursor state depends on the order of advances (order {p:?})");
        let rev = apply(case.advances.iter().rev().copied());
        ensure_eq!(rev, expected, "cursor state depends on the order of advances (reversed)");
    }
    Ok(CaseOk::nontrivial(lower_after_higher)
        .label_if(n <= 5, "all_permutations_checked")
        .label_if(case.advances.iter().any(|a| a.2 == 0), "height_zero")
        .label_if(case.advances.iter().any(|a| a.2 == u32::MAX), "height_max"))
}

#[derive(Clone, Debug, Serialize, Deserialize)]
enum Step {
    /// ack(header of author, topic index, seq) through clone 0 or 1.
    Ack { author: u8, topic: u8, seq: u32, clone: bool },
    /// `nacked_log_ranges(StreamFrom::Start)`: documented irreversible reset of the cursor.
    ResetToStart,
    /// `nacked_log_ranges(StreamFrom::Frontier)`: must not change anything.
    ReadFrontier,
    /// Several own-topic acks issued concurrently (joined futures) through clones of the same
    /// `Acked` – the semaphore they share serialises the read-modify-write of the cursor.
    ConcurrentAcks(Vec<(u8, u32)>),
    /// Own-topic ack issued (sequentially) through a second, *independent* `Acked` of the same
    /// topic and cursor name – what a re-subscription (`node.stream(topic)` called again) creates
    /// while operation handles of the first subscription are still around.
    AckResubscribed { author: u8, seq: u32 },
}

#[derive(Clone, Debug, Serialize, Deserialize)]
struct AckedCase {
    custom_name: bool,
    steps: Vec<Step>,
}

fn header(author: &SigningKey, topic: Topic, seq: u32) -> Header<Extensions> {
    Header::<Extensions> {
        version: 1,
        verifying_key: author.verifying_key(),
        signature: None,
        payload_size: 0,
        payload_hash: None,
        seq_num: seq,
        backlink: None,
        extensions: Extensions::from_topic(topic),
    }
}

fn flat(c: &Cursor<VerifyingKey, LogId>) -> BTreeMap<(VerifyingKey, LogId), u32> {
    c.state()
        .iter()
        .flat_map(|(a, logs)| logs.iter().map(move |(l, h)| ((*a, *l), *h)))
        .collect()
}

fn check_acked(case: &AckedCase) -> CaseResult {
    let rt = tokio::runtime::Builder::new_current_thread()
        .enable_all()
        .build()
        .map_err(|e| e.to_string())?;
    rt.block_on(async {
        let store = SqliteStore::temporary().await;
        let topics = [Topic::from([1u8; 32]), Topic::from([2u8; 32])];
        let own = topics[0];
        let authors: Vec<SigningKey> = (0..3u8).map(|i| SigningKey::from_bytes(&[i + 10; 32])).collect();
        let acked0 = if case.custom_name {
            Acked::from_name(store.clone(), own, "c07-custom")
        } else {
            Acked::new(store.clone(), own)
        };
        let acked1 = acked0.clone();
        let resubscribed = if case.custom_name {
            Acked::from_name(store.clone(), own, "c07-custom")
        } else {
            Acked::new(store.clone(), own)
        };
        let mut via_resubscribed = 0usize;
        let mut alternations = 0usize;
        let mut last_instance = 0u8;
        // A tracker for the *other* topic on the same store must not be influenced either.
        let other = Acked::new(store.clone(), topics[1]);

        let mut model: BTreeMap<(VerifyingKey, LogId), u32> = BTreeMap::new();
        let mut foreign_between_own = false;
        let mut lower_after_higher = false;
        let mut own_acks = 0;
        let mut last_was_foreign_after_own = false;
        let mut concurrent_batches = 0;

        for (i, step) in case.steps.iter().enumerate() {
            let before = flat(&acked0.cursor().await.map_err(|e| e.to_string())?);
            ensure_eq!(before, model, "persisted cursor differs from the model before step {i}");
            match step {
                Step::Ack { author, topic, seq, clone } => {
                    let a = &authors[(*author % 3) as usize];
                    let t = topics[(*topic % 2) as usize];
                    let h = header(a, t, *seq);
                    let acked = if *clone { &acked1 } else { &acked0 };
                    let res = acked.ack(&h).await;
                    if t == own {
                        res.map_err(|e| format!("own-topic ack failed at step {i}: {e}"))?;
                        let key = (a.verifying_key(), LogId::from_topic(own));
                        let e = model.entry(key).or_insert(*seq);
                        if *seq < *e {
                            lower_after_higher = true;
                        }
                        *e = (*e).max(*seq);
                        own_acks += 1;
                        if last_instance != 0 {
                            alternations += 1;
                        }
                        last_instance = 0;
                        if last_was_foreign_after_own {
                            foreign_between_own = true;
                        }
                        last_was_foreign_after_own = false;
                    } else {
                        match res {
                            Err(AckedError::InvalidTopic(_)) => {}
                            Err(e) => return Err(format!("foreign-topic ack failed with an unexpected error at step {i}: {e}")),
                            Ok(()) => return Err(format!("ack of an operation of another topic was accepted at step {i}")),
                        }
                        if own_acks > 0 {
                            last_was_foreign_after_own = true;
                        }
                    }
                }
                Step::AckResubscribed { author, seq } => {
                    let a = &authors[(*author % 3) as usize];
                    let h = header(a, own, *seq);
                    resubscribed
                        .ack(&h)
                        .await
                        .map_err(|e| format!("own-topic ack through the re-subscribed tracker failed at step {i}: {e}"))?;
                    let key = (a.verifying_key(), LogId::from_topic(own));
                    let e = model.entry(key).or_insert(*seq);
                    if *seq < *e {
                        lower_after_higher = true;
                    }
                    *e = (*e).max(*seq);
                    own_acks += 1;
                    via_resubscribed += 1;
                    if last_instance != 1 {
                        alternations += 1;
                    }
                    last_instance = 1;
                }
                Step::ConcurrentAcks(acks) => {
                    let headers: Vec<Header<Extensions>> =
                        acks.iter().map(|(a, seq)| header(&authors[(*a % 3) as usize], own, *seq)).collect();
                    let clones: Vec<Acked> = headers.iter().map(|_| acked0.clone()).collect();
                    let results = futures_util::future::join_all(
                        headers.iter().zip(&clones).map(|(h, acked)| async move { acked.ack(h).await }),
                    )
                    .await;
                    for (k, r) in results.into_iter().enumerate() {
                        r.map_err(|e| format!("concurrent own-topic ack {k} failed at step {i}: {e}"))?;
                    }
                    for (a, seq) in acks {
                        let key = (authors[(*a % 3) as usize].verifying_key(), LogId::from_topic(own));
                        let e = model.entry(key).or_insert(*seq);
                        *e = (*e).max(*seq);
                        own_acks += 1;
                    }
                    if acks.len() >= 2 {
                        concurrent_batches += 1;
                    }
                }
                Step::ResetToStart => {
                    acked0
                        .nacked_log_ranges(StreamFrom::Start)
                        .await
                        .map_err(|e| format!("nacked_log_ranges(Start): {e}"))?;
                    model.clear();
                }
                Step::ReadFrontier => {
                    acked1
                        .nacked_log_ranges(StreamFrom::Frontier)
                        .await
                        .map_err(|e| format!("nacked_log_ranges(Frontier): {e}"))?;
                }
            }
            let after = flat(&acked1.cursor().await.map_err(|e| e.to_string())?);
            ensure_eq!(after, model, "persisted cursor differs from the model after step {i} ({step:?})");
            if !matches!(step, Step::ResetToStart) {
                for (k, h) in &before {
                    ensure!(
                        after.get(k).map(|x| x >= h).unwrap_or(false),
                        "cursor moved backwards for {k:?} at step {i} ({step:?})"
                    );
                }
            }
            let other_state = flat(&other.cursor().await.map_err(|e| e.to_string())?);
            ensure!(other_state.is_empty(), "cursor of another topic was changed by step {i} ({step:?})");
        }
        Ok(CaseOk::nontrivial(lower_after_higher || foreign_between_own)
            .label_if(lower_after_higher, "lower_height_after_higher")
            .label_if(foreign_between_own, "foreign_ack_between_own_acks")
            .label_if(case.steps.iter().any(|s| matches!(s, Step::ResetToStart)), "has_reset")
            .label_if(concurrent_batches > 0, "concurrent_acks_through_clones")
            .label_if(via_resubscribed > 0, "acks_through_resubscribed_tracker")
            .label_if(alternations >= 2, "trackers_alternate_twice_or_more")
            .label_if(case.custom_name, "custom_cursor_name"))
    })
}

fn seq() -> impl Strategy<Value = u32> {
    prop_oneof![4 => 0u32..8, 1 => any::<u32>(), 1 => Just(u32::MAX), 1 => Just(0u32)]
}

pub fn run(mut ctx: Ctx) -> ! {
    ctx.assume("two *independent* Acked instances acking concurrently under one cursor name are outside the quantifier; concurrent acks through clones of one Acked (which share its semaphore) are generated");
    ctx.assume("StreamFrom::Start / StreamFrom::Cursor replace the cursor by documented design; only ack() is required to be monotone");
    ctx.run_prop(
        Part::new(
            "cursor_advance",
            "sequences of <=40 Cursor::advance calls over 3 authors x 3 logs (heights incl. 0, repeats, u32::MAX), re-applied in every permutation (n<=5) or a generated permutation and reversed; non-trivial = a lower height arrives after a higher one for the same log",
            3_000,
            100_000,
        )
        .min_nontrivial(0.2),
        || {
            (
                prop_oneof![
                    prop::collection::vec((0u8..3, 0u8..3, seq()), 0..=5),
                    prop::collection::vec((0u8..3, 0u8..3, seq()), 6..=40)
                ],
                prop::collection::vec(any::<u16>(), 40),
            )
                .prop_map(|(advances, order)| AdvanceCase { advances, order })
        },
        check_advance,
    );
    ctx.run_prop(
        Part::new(
            "acked_histories",
            "histories of <=30 steps on one SQLite store: ack(header) for own/foreign topic by 3 authors through two clones of one Acked and (sequentially) through a second independent Acked of the same cursor name (re-subscription), irreversible reset (StreamFrom::Start), frontier reads; persisted cursor compared with the max-model after every step; non-trivial = lower seq acked after a higher one, or a foreign-topic ack between two own-topic acks",
            300,
            9_000,
        )
        .min_nontrivial(0.3),
        || {
            (
                any::<bool>(),
                prop::collection::vec(
                    prop_oneof![
                        12 => (0u8..3, prop_oneof![3 => Just(0u8), 1 => Just(1u8)], seq(), any::<bool>())
                            .prop_map(|(author, topic, seq, clone)| Step::Ack { author, topic, seq, clone }),
                        1 => Just(Step::ResetToStart),
                        1 => Just(Step::ReadFrontier),
                        3 => prop::collection::vec((0u8..3, seq()), 2..=5).prop_map(Step::ConcurrentAcks),
                        4 => (0u8..3, seq()).prop_map(|(author, seq)| Step::AckResubscribed { author, seq }),
                    ],
                    1..=30,
                ),
            )
                .prop_map(|(custom_name, steps)| AckedCase { custom_name, steps })
        },
        check_acked,
    );
    ctx.finish()
}
