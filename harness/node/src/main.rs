//! Checks of the node group: C04, C07, C14, C15, C16, C17, C40.
mod eph;
mod eph_oracle;
#[path = "../../../fuzz/oracles/c16.rs"]
mod fuzz_c16;
mod props;

fn main() {
    // C15 re-executes this binary as a crash worker.
    if std::env::args().nth(1).as_deref() == Some("c15-worker") {
        props::c15::worker_main();
    }
    let ctx = engine::Ctx::from_args();
    match ctx.id.as_str() {
        "C04" => props::c04::run(ctx),
        "C07" => props::c07::run(ctx),
        "C14" => props::c14::run(ctx),
        "C15" => props::c15::run(ctx),
        "C16" => props::c16::run(ctx),
        "C17" => props::c17::run(ctx),
        "C40" => props::c40::run(ctx),
        other => engine::harness_error(&format!("property {other} is not served by verif-node")),
    }
}
