//! Independent authenticity check of wrapped ephemeral messages (own CBOR handling +
//! ed25519-dalek `verify_strict`). Self-contained (ciborium, ed25519-dalek only) so that the
//! libFuzzer target `c16_wrapped` can include it with `#[path]`.

use ciborium::Value;
use ed25519_dalek::{Signature as DalekSignature, VerifyingKey as DalekKey};

/// Fields of a wrapped message as found in the raw bytes (lenient extraction, mirrors what a serde
/// byte-buffer accepts: bytes, text or array of small integers).
#[derive(Clone, Debug, PartialEq, Eq)]
pub struct RawWrapped {
    pub version: u64,
    pub key: Vec<u8>,
    pub signature: Vec<u8>,
    pub timestamp: u64,
    pub logical: u64,
    pub body: Option<String>,
}

fn value_bytes(v: &Value) -> Option<Vec<u8>> {
    match v {
        Value::Bytes(b) => Some(b.clone()),
        Value::Text(t) => Some(t.as_bytes().to_vec()),
        Value::Array(a) => a
            .iter()
            .map(|x| x.as_integer().and_then(|i| u8::try_from(i).ok()))
            .collect(),
        _ => None,
    }
}

fn value_u64(v: &Value) -> Option<u64> {
    v.as_integer().and_then(|i| u64::try_from(i).ok())
}

pub fn parse_raw(bytes: &[u8]) -> Option<RawWrapped> {
    // Read the six leading elements the way a serde tuple visitor does (it takes six elements
    // and neither checks the declared array length nor trailing data), so that the harness can
    // extract the fields of everything the implementation's decoder is able to read.
    let (version, key, signature, timestamp, logical, body): (Value, Value, Value, Value, Value, Value) =
        ciborium::from_reader(bytes).ok()?;
    Some(RawWrapped {
        version: value_u64(&version)?,
        key: value_bytes(&key)?,
        signature: value_bytes(&signature)?,
        timestamp: value_u64(&timestamp)?,
        logical: value_u64(&logical)?,
        body: body.as_text().map(|s| s.to_string()),
    })
}

/// Canonical signed payload `(version, key, timestamp, logical, body)` encoded by the harness.
pub fn signed_payload(version: u64, key: &[u8], timestamp: u64, logical: u64, body: &str) -> Vec<u8> {
    let v = Value::Array(vec![
        Value::Integer(version.into()),
        Value::Bytes(key.to_vec()),
        Value::Integer(timestamp.into()),
        Value::Integer(logical.into()),
        Value::Text(body.to_string()),
    ]);
    let mut out = Vec::new();
    ciborium::into_writer(&v, &mut out).expect("encode");
    out
}

/// Independent check: does `signature` verify (strictly) for `key` over the canonical payload?
pub fn signature_ok(key: &[u8], signature: &[u8], payload: &[u8]) -> bool {
    let Ok(key): Result<[u8; 32], _> = key.try_into() else {
        return false;
    };
    let Ok(sig): Result<[u8; 64], _> = signature.try_into() else {
        return false;
    };
    let Ok(key) = DalekKey::from_bytes(&key) else {
        return false;
    };
    key.verify_strict(payload, &DalekSignature::from_bytes(&sig)).is_ok()
}

/// Is this byte string an authentic version-1 wrapped `String` message by the harness' standards?
pub fn independently_valid(bytes: &[u8]) -> bool {
    let Some(raw) = parse_raw(bytes) else {
        return false;
    };
    let Some(body) = &raw.body else {
        return false;
    };
    raw.version == 1
        && signature_ok(
            &raw.key,
            &raw.signature,
            &signed_payload(raw.version, &raw.key, raw.timestamp, raw.logical, body),
        )
}

/// Re-encodes a wrapped message tuple from raw fields (used by the mutators).
pub fn encode_raw(version: u64, key: &[u8], signature: &[u8], timestamp: u64, logical: u64, body: &Value) -> Vec<u8> {
    let v = Value::Array(vec![
        Value::Integer(version.into()),
        Value::Bytes(key.to_vec()),
        Value::Bytes(signature.to_vec()),
        Value::Integer(timestamp.into()),
        Value::Integer(logical.into()),
        body.clone(),
    ]);
    let mut out = Vec::new();
    ciborium::into_writer(&v, &mut out).expect("encode");
    out
}
