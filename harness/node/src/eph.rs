//! Shared fixture for the ephemeral stream checks (C16, C17): a publisher/subscription pair over
//! the probe gossip (hook `p2panda_net::gossip::verif`), plus an *independent* authenticity check
//! of wrapped messages (own CBOR handling + ed25519-dalek `verify_strict`).

use p2panda::streams::{EphemeralStreamPublisher, EphemeralStreamSubscription};
use p2panda_core::{SigningKey, Topic};
use p2panda_net::gossip::verif::{Probe, probe_gossip_local};
use p2panda_net::gossip::{Gossip, GossipConfig, GossipHandle};
use p2panda_store::SqliteStore;

pub struct EphEnv {
    pub gossip: Gossip,
    pub probe: Probe,
    pub topic: Topic,
    pub handle: GossipHandle,
    pub store: SqliteStore,
}

impl EphEnv {
    /// Must be called inside a current-thread tokio runtime.
    pub async fn new(broadcast_capacity: usize) -> EphEnv {
        let node_key = SigningKey::from_bytes(&[0xA0; 32]);
        let (gossip, probe) =
            probe_gossip_local(node_key.verifying_key(), GossipConfig::default(), broadcast_capacity).await;
        let topic = Topic::from([0x42u8; 32]);
        let handle = gossip.stream(topic).await.expect("probe gossip stream");
        let store = SqliteStore::temporary().await;
        EphEnv {
            gossip,
            probe,
            topic,
            handle,
            store,
        }
    }

    pub fn pair(&self, key: &SigningKey) -> (EphemeralStreamPublisher<String>, EphemeralStreamSubscription<String>) {
        p2panda::streams::verif::ephemeral_stream::<String>(
            self.topic,
            key.clone(),
            self.store.clone(),
            self.handle.clone(),
        )
    }

    /// Takes everything handles of generation 0 published so far.
    pub fn take_published(&self) -> Vec<Vec<u8>> {
        let mut probe = self.probe.lock().unwrap();
        let ch = &mut probe.channels.get_mut(&self.topic).expect("topic subscribed")[0];
        let mut out = Vec::new();
        while let Ok(bytes) = ch.published_rx.try_recv() {
            out.push(bytes);
        }
        out
    }

    /// Injects bytes towards all subscriptions (what the gossip overlay does on receipt).
    pub fn inject(&self, bytes: Vec<u8>) {
        let probe = self.probe.lock().unwrap();
        let ch = &probe.channels.get(&self.topic).expect("topic subscribed")[0];
        let _ = ch.inject_tx.send(bytes);
    }

    pub fn raw_receiver(&self) -> tokio::sync::broadcast::Receiver<Vec<u8>> {
        let probe = self.probe.lock().unwrap();
        probe.channels.get(&self.topic).expect("topic subscribed")[0].inject_tx.subscribe()
    }
}


pub use crate::eph_oracle::*;
