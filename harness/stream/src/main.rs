//! Checks of the stream group: C13.
mod props;

fn main() {
    let ctx = engine::Ctx::from_args();
    match ctx.id.as_str() {
        "C13" => props::c13::run(ctx),
        other => engine::harness_error(&format!("property {other} is not served by verif-stream")),
    }
}
