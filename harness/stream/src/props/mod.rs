pub mod c13;
