//! C13 Processor streams deliver every output exactly once and in order.
//!
//! Under tokio's paused clock a generated input sequence (arrival gaps) is pushed through 1–3
//! harness-defined FIFO processors in one of three shapes (single `layer`, stacked
//! `.layer().layer()`, composed `PipelineBuilder…build()`); a scripted consumer polls the
//! resulting `ProcessorStream` with generated poll windows (a window that elapses cancels the
//! consumer's `next` future) and pauses. The oracle is a closed-form model of the chain written
//! from the case alone: every input has exactly one outcome – `Ok(item tagged by every layer)` or
//! the one failure the spec assigns to it – and by a *virtual-time* deadline the consumer must
//! have seen exactly that multiset, each once, nothing extra, `Ok` items in input order.
//!
//! The harness processors are cancel-safe in `next` (optional delay, then pop-or-wait; nothing is
//! held across an await), like the repository's own `Ingest` / `LogPrune` / test processors.

use std::cell::RefCell;
use std::collections::{BTreeMap, VecDeque};
use std::pin::Pin;
use std::rc::Rc;
use std::time::Duration;

use engine::proptest::prelude::*;
use engine::{CaseOk, CaseResult, Ctx, Part};
use futures_util::stream::{self, LocalBoxStream, Stream, StreamExt};
use p2panda_stream::{ComposedError, PipelineBuilder, Processor, ProcessorExt, StreamLayerExt};
use serde::{Deserialize, Serialize};
use tokio::sync::{Notify, mpsc};
use tokio::time::{self, Instant};

const K_C13: &str = "K-C13";

// ------------------------------------------------------------------------------------------------
// Case
// ------------------------------------------------------------------------------------------------

#[derive(Clone, Copy, Debug, PartialEq, Eq, Serialize, Deserialize)]
pub enum Shape {
    /// `source.layer(p0)` (only the first layer spec is used).
    Single,
    /// `source.layer(p0).filter_map(ok).layer(p1)…` – one buffer task per layer.
    Stacked,
    /// `source.layer(PipelineBuilder::<Item>::new().layer(p0).layer(p1)….build())` – one buffer task.
    Composed,
}

/// Suspension code used for all generated delays: 0 = no await point that suspends,
/// 1 = `yield_now()` (suspends without time passing), n >= 2 = `sleep(n - 1 ms)` of virtual time.
type Susp = u8;

#[derive(Clone, Debug, Serialize, Deserialize)]
pub struct LayerSpec {
    /// Suspension inside `process`, per item id (missing entries = 0).
    process: Vec<Susp>,
    /// Suspension at the start of every `next` call (before pop-or-wait), like the repository's
    /// `SlowProcessor::next`.
    next: Susp,
    /// FIFO hold, per item id: the item is released only once this layer has seen that many
    /// *further* inputs (capped by the number of inputs that ever reach the layer).
    hold: Vec<u8>,
    /// Per item id: 0 = passes, 1 = `process` returns an error, 2 = `next` returns an error.
    fail: Vec<u8>,
}

#[derive(Clone, Debug, Serialize, Deserialize)]
pub struct Case {
    shape: Shape,
    layers: Vec<LayerSpec>,
    /// One entry per input: suspension before the item is made available to the stream.
    gaps: Vec<Susp>,
    /// Source is `stream::iter` (everything available at once, then `None`) instead of a channel.
    source_iter: bool,
    /// Channel source only: close the channel after the last item (stream yields `None`).
    close_input: bool,
    /// Scripted consumer steps `(poll window, pause)`; a window that elapses drops the consumer's
    /// `next` future. After the script the consumer polls until the virtual deadline.
    consumer: Vec<(Susp, Susp)>,
    /// Harness-side fault injection used by the oracle self-test only (never generated).
    #[serde(default)]
    lifo_layer: Option<u8>,
}

impl Case {
    fn n_layers(&self) -> usize {
        match self.shape {
            Shape::Single => 1,
            _ => self.layers.len().clamp(1, 3),
        }
    }
}

fn at(v: &[u8], id: usize) -> u8 {
    v.get(id).copied().unwrap_or(0)
}

fn susp_ms(s: Susp) -> u64 {
    if s >= 2 { (s - 1) as u64 } else { 0 }
}

async fn suspend(s: Susp) {
    match s {
        0 => {}
        1 => tokio::task::yield_now().await,
        n => time::sleep(Duration::from_millis((n - 1) as u64)).await,
    }
}

// ------------------------------------------------------------------------------------------------
// Items, failures, model
// ------------------------------------------------------------------------------------------------

#[derive(Clone, Debug, PartialEq, Eq, PartialOrd, Ord)]
pub struct Item {
    id: u32,
    /// Layer indices that processed this item, in order.
    tags: Vec<u8>,
}

#[derive(Clone, Copy, Debug, PartialEq, Eq, PartialOrd, Ord)]
pub enum Stage {
    Process,
    Next,
}

#[derive(Clone, Debug, PartialEq, Eq, PartialOrd, Ord)]
pub struct Fail {
    id: u32,
    layer: u8,
    stage: Stage,
}

type Outcome = Result<Item, Fail>;

/// Flattens the nested error type of composed pipelines.
pub trait Flatten {
    fn flat(self) -> Fail;
}

impl Flatten for Fail {
    fn flat(self) -> Fail {
        self
    }
}

impl<A: Flatten, B: Flatten> Flatten for ComposedError<A, B> {
    fn flat(self) -> Fail {
        match self {
            ComposedError::First(a) => a.flat(),
            ComposedError::Second(b) => b.flat(),
        }
    }
}

/// The model: outcome of every input and how many inputs reach each layer. Written from the case
/// spec only.
struct Model {
    outcomes: Vec<Outcome>,
    arrivals: Vec<u32>,
    /// K-C13 signature (static form): composed shape and some item reaches a later layer whose
    /// `process` suspends for it.
    later_process_suspends: bool,
}

fn model(case: &Case) -> Model {
    let n_layers = case.n_layers();
    let mut arrivals = vec![0u32; n_layers];
    let mut outcomes = Vec::new();
    let mut later_process_suspends = false;
    for id in 0..case.gaps.len() {
        let mut item = Item {
            id: id as u32,
            tags: vec![],
        };
        let mut outcome = None;
        for (k, spec) in case.layers.iter().take(n_layers).enumerate() {
            arrivals[k] += 1;
            if k >= 1 && at(&spec.process, id) != 0 {
                later_process_suspends = true;
            }
            match at(&spec.fail, id) {
                1 => {
                    outcome = Some(Err(Fail {
                        id: id as u32,
                        layer: k as u8,
                        stage: Stage::Process,
                    }));
                    break;
                }
                2 => {
                    outcome = Some(Err(Fail {
                        id: id as u32,
                        layer: k as u8,
                        stage: Stage::Next,
                    }));
                    break;
                }
                _ => item.tags.push(k as u8),
            }
        }
        outcomes.push(outcome.unwrap_or(Ok(item)));
    }
    Model {
        outcomes,
        arrivals,
        later_process_suspends: later_process_suspends && case.shape == Shape::Composed,
    }
}

// ------------------------------------------------------------------------------------------------
// Instrumented harness processor
// ------------------------------------------------------------------------------------------------

#[derive(Default, Debug)]
struct Trace {
    /// Items handed to layer 0.
    entered: u32,
    /// Items that left the chain (returned by the last layer's `next`, or failed anywhere).
    exited: u32,
    /// `next` futures of harness processors dropped while pending.
    next_cancelled: u32,
    /// … at a moment when an item was inside the chain.
    next_cancelled_inflight: u32,
    /// … of the last layer.
    outer_next_cancelled_inflight: u32,
    /// `process` futures dropped before completion, per layer class.
    process_cancelled_first: u32,
    process_cancelled_later: u32,
    /// Some process call found the previous `next` future of the same processor still alive
    /// (never happens with the repository's buffer; recorded to keep the harness honest).
    concurrent_process_and_next: u32,
}

struct Queued {
    item: Item,
    need_seen: u32,
    fail_next: bool,
}

struct TestProc {
    layer: u8,
    last: bool,
    spec: LayerSpec,
    total_arrivals: u32,
    lifo: bool,
    seen: RefCell<u32>,
    queue: RefCell<VecDeque<Queued>>,
    notify: Notify,
    live_next: RefCell<u32>,
    trace: Rc<RefCell<Trace>>,
}

impl TestProc {
    fn new(case: &Case, model: &Model, layer: usize, trace: Rc<RefCell<Trace>>) -> Self {
        TestProc {
            layer: layer as u8,
            last: layer + 1 == case.n_layers(),
            spec: case.layers[layer].clone(),
            total_arrivals: model.arrivals[layer],
            lifo: case.lifo_layer == Some(layer as u8),
            seen: RefCell::new(0),
            queue: RefCell::new(VecDeque::new()),
            notify: Notify::new(),
            live_next: RefCell::new(0),
            trace,
        }
    }
}

struct ProcessGuard<'a> {
    p: &'a TestProc,
    done: bool,
}

impl Drop for ProcessGuard<'_> {
    fn drop(&mut self) {
        if !self.done {
            let mut t = self.p.trace.borrow_mut();
            if self.p.layer == 0 {
                t.process_cancelled_first += 1;
            } else {
                t.process_cancelled_later += 1;
            }
        }
    }
}

struct NextGuard<'a> {
    p: &'a TestProc,
    done: bool,
}

impl Drop for NextGuard<'_> {
    fn drop(&mut self) {
        *self.p.live_next.borrow_mut() -= 1;
        if !self.done {
            let mut t = self.p.trace.borrow_mut();
            t.next_cancelled += 1;
            if t.entered > t.exited {
                t.next_cancelled_inflight += 1;
                if self.p.last {
                    t.outer_next_cancelled_inflight += 1;
                }
            }
        }
    }
}

impl Processor<Item> for TestProc {
    type Output = Item;
    type Error = Fail;

    async fn process(&self, mut input: Item) -> Result<(), Fail> {
        let mut guard = ProcessGuard { p: self, done: false };
        let id = input.id as usize;
        {
            let mut t = self.trace.borrow_mut();
            if self.layer == 0 {
                t.entered += 1;
            }
            if *self.live_next.borrow() > 0 {
                t.concurrent_process_and_next += 1;
            }
        }
        suspend(at(&self.spec.process, id)).await;
        let ordinal = {
            let mut seen = self.seen.borrow_mut();
            *seen += 1;
            *seen - 1
        };
        let fail = at(&self.spec.fail, id);
        guard.done = true;
        if fail == 1 {
            self.trace.borrow_mut().exited += 1;
            // A failed input still counts as "seen" for the hold rule of queued items.
            self.notify.notify_one();
            return Err(Fail {
                id: input.id,
                layer: self.layer,
                stage: Stage::Process,
            });
        }
        input.tags.push(self.layer);
        let need_seen = (ordinal + 1 + at(&self.spec.hold, id) as u32).min(self.total_arrivals);
        self.queue.borrow_mut().push_back(Queued {
            item: input,
            need_seen,
            fail_next: fail == 2,
        });
        self.notify.notify_one();
        Ok(())
    }

    async fn next(&self) -> Result<Item, Fail> {
        *self.live_next.borrow_mut() += 1;
        let mut guard = NextGuard { p: self, done: false };
        suspend(self.spec.next).await;
        loop {
            let popped = {
                let mut q = self.queue.borrow_mut();
                let seen = *self.seen.borrow();
                let ready = if self.lifo {
                    q.back().map(|e| e.need_seen <= seen).unwrap_or(false)
                } else {
                    q.front().map(|e| e.need_seen <= seen).unwrap_or(false)
                };
                if ready {
                    if self.lifo { q.pop_back() } else { q.pop_front() }
                } else {
                    None
                }
            };
            if let Some(e) = popped {
                guard.done = true;
                if e.fail_next {
                    self.trace.borrow_mut().exited += 1;
                    return Err(Fail {
                        id: e.item.id,
                        layer: self.layer,
                        stage: Stage::Next,
                    });
                }
                if self.last {
                    self.trace.borrow_mut().exited += 1;
                }
                return Ok(e.item);
            }
            // Nothing is held across this await: cancelling here loses nothing.
            self.notify.notified().await;
        }
    }
}

// ------------------------------------------------------------------------------------------------
// Execution under the paused clock
// ------------------------------------------------------------------------------------------------

struct Run {
    /// Everything the processor streams yielded, in the order it was observed, with the virtual
    /// time (ms since start). For the stacked shape the errors yielded by inner layers are
    /// observed at the `filter_map` between the layers.
    received: Vec<(u64, Outcome)>,
    /// The outermost stream returned `None` (processor streams are documented to never end).
    ended: bool,
    trace: Trace,
    deadline_ms: u64,
}

type Source = LocalBoxStream<'static, Item>;

/// Builds the input stream. The returned guard keeps the channel open when `close_input` is off.
fn source(case: &Case) -> (Source, Option<mpsc::UnboundedSender<Item>>) {
    let n = case.gaps.len();
    if case.source_iter {
        let items: Vec<Item> = (0..n).map(|id| Item { id: id as u32, tags: vec![] }).collect();
        return (stream::iter(items).boxed_local(), None);
    }
    let (tx, mut rx) = mpsc::unbounded_channel::<Item>();
    let keep = if case.close_input { None } else { Some(tx.clone()) };
    let gaps = case.gaps.clone();
    tokio::task::spawn_local(async move {
        for (id, gap) in gaps.into_iter().enumerate() {
            suspend(gap).await;
            let _ = tx.send(Item { id: id as u32, tags: vec![] });
        }
    });
    let s = stream::poll_fn(move |cx| rx.poll_recv(cx));
    (s.boxed_local(), keep)
}

fn into_outcomes<S, E>(s: S) -> LocalBoxStream<'static, Outcome>
where
    S: Stream<Item = Result<Item, E>> + 'static,
    E: Flatten + 'static,
{
    s.map(|r| r.map_err(|e| e.flat())).boxed_local()
}

fn execute(case: &Case) -> Result<Run, String> {
    let m = model(case);
    let n_layers = case.n_layers();
    if case.layers.len() < n_layers {
        engine::harness_error("C13: case has fewer layer specs than layers");
    }
    let mut builder = tokio::runtime::Builder::new_current_thread();
    builder.enable_all().start_paused(true);
    // `tokio::select!` (buffered.rs, composed.rs) starts polling at a branch chosen by the runtime's
    // RNG, which tokio seeds from OS randomness. It can only be seeded when tokio is built with
    // `--cfg tokio_unstable`; then the seed is a function of the case and the whole execution is
    // reproducible. Without the flag the branch choice is the one input of an execution that the
    // harness does not own; no oracle depends on it (on code where the property holds every choice
    // gives the same verdict).
    #[cfg(tokio_unstable)]
    builder.rng_seed(tokio::runtime::RngSeed::from_bytes(
        serde_json::to_string(case).unwrap_or_default().as_bytes(),
    ));
    let rt = builder
        .build()
        .unwrap_or_else(|e| engine::harness_error(&format!("C13: runtime: {e}")));
    let local = tokio::task::LocalSet::new();
    let trace = Rc::new(RefCell::new(Trace::default()));
    let side: Rc<RefCell<Vec<(u64, Outcome)>>> = Rc::new(RefCell::new(Vec::new()));

    // Virtual-time budget: every delay of the case, three times over, plus a second.
    let n = case.gaps.len() as u64;
    let sum_gaps: u64 = case.gaps.iter().map(|g| susp_ms(*g) + 1).sum();
    let per_item: u64 = case
        .layers
        .iter()
        .take(n_layers)
        .map(|l| l.process.iter().map(|p| susp_ms(*p)).max().unwrap_or(0) + susp_ms(l.next) + 1)
        .sum();
    let budget_ms = (sum_gaps + (n + 2) * per_item) * 3 + 1000;

    let run = local.block_on(&rt, {
        let trace = trace.clone();
        let side = side.clone();
        async move {
            let start = Instant::now();
            let now_ms = move || start.elapsed().as_millis() as u64;
            let (src, keep_open) = source(case);
            let procs: Vec<TestProc> = (0..n_layers).map(|k| TestProc::new(case, &m, k, trace.clone())).collect();
            let mut procs = procs.into_iter();
            let mut p = || procs.next().expect("layer");

            let mut out: LocalBoxStream<'static, Outcome> = match (case.shape, n_layers) {
                (Shape::Single, _) => into_outcomes(p().into_stream(src)),
                (Shape::Stacked, _) => {
                    let mut s: Source = src;
                    for _ in 0..n_layers - 1 {
                        let side = side.clone();
                        s = s
                            .layer(p())
                            .filter_map(move |r| {
                                let side = side.clone();
                                async move {
                                    match r {
                                        Ok(item) => Some(item),
                                        Err(f) => {
                                            side.borrow_mut().push((now_ms(), Err(f)));
                                            None
                                        }
                                    }
                                }
                            })
                            .boxed_local();
                    }
                    into_outcomes(s.layer(p()))
                }
                (Shape::Composed, 1) => into_outcomes(src.layer(PipelineBuilder::<Item>::new().layer(p()).build())),
                (Shape::Composed, 2) => into_outcomes(src.layer(PipelineBuilder::<Item>::new().layer(p()).layer(p()).build())),
                (Shape::Composed, _) => {
                    into_outcomes(src.layer(PipelineBuilder::<Item>::new().layer(p()).layer(p()).layer(p()).build()))
                }
            };

            let expected_total = case.gaps.len();
            let mut received: Vec<(u64, Outcome)> = Vec::new();
            let mut ended = false;
            let count = |received: &Vec<(u64, Outcome)>| received.len() + side.borrow().len();

            // Scripted phase.
            for (window, pause) in &case.consumer {
                if ended {
                    break;
                }
                match time::timeout(Duration::from_millis(susp_ms(*window)), out.next()).await {
                    Ok(Some(o)) => received.push((now_ms(), o)),
                    Ok(None) => ended = true,
                    Err(_) => {}
                }
                suspend(*pause).await;
            }
            // Drain phase until everything expected arrived or the virtual deadline passed.
            let deadline = Instant::now() + Duration::from_millis(budget_ms);
            while !ended && count(&received) < expected_total {
                match time::timeout_at(deadline, out.next()).await {
                    Ok(Some(o)) => received.push((now_ms(), o)),
                    Ok(None) => ended = true,
                    Err(_) => break,
                }
            }
            // Grace phase: anything that still comes out is an extra.
            let grace = Instant::now() + Duration::from_millis(budget_ms);
            while !ended {
                match time::timeout_at(grace, out.next()).await {
                    Ok(Some(o)) => received.push((now_ms(), o)),
                    Ok(None) => ended = true,
                    Err(_) => break,
                }
            }
            // Snapshot before teardown (dropping the stream aborts the buffer tasks, which drops
            // their pending `next` futures; that is not a cancellation of interest).
            let snapshot = std::mem::take(&mut *trace.borrow_mut());
            drop(out);
            drop(keep_open);
            (received, ended, snapshot)
        }
    });
    drop(local);
    drop(rt);

    let (mut received, ended, trace) = run;
    // Merge the side channel (errors of inner stacked layers) by observation time; the relative
    // order of `Ok` items is untouched by this.
    received.extend(side.borrow_mut().drain(..));
    received.sort_by_key(|(t, _)| *t);
    Ok(Run {
        received,
        ended,
        trace,
        deadline_ms: budget_ms,
    })
}

// ------------------------------------------------------------------------------------------------
// Oracle
// ------------------------------------------------------------------------------------------------

#[derive(Debug, Default)]
struct Verdict {
    missing: Vec<Outcome>,
    problems: Vec<String>,
}

/// Pure oracle: `expected` = model outcomes in input order, `received` = what the streams yielded.
fn judge(expected: &[Outcome], received: &[Outcome]) -> Verdict {
    let mut v = Verdict::default();
    let mut want: BTreeMap<&Outcome, u32> = BTreeMap::new();
    for e in expected {
        *want.entry(e).or_default() += 1;
    }
    let mut got: BTreeMap<&Outcome, u32> = BTreeMap::new();
    for r in received {
        *got.entry(r).or_default() += 1;
    }
    for (r, c) in &got {
        match want.get(r) {
            None => v.problems.push(format!("output {r:?} is not an output of the processor chain for any input")),
            Some(w) if c > w => v.problems.push(format!("output {r:?} was yielded {c} times (expected {w})")),
            _ => {}
        }
    }
    for (e, w) in &want {
        let c = got.get(e).copied().unwrap_or(0);
        for _ in c..*w {
            v.missing.push((*e).clone());
        }
    }
    // FIFO processors: successfully processed items come out in input order.
    let ok_ids: Vec<u32> = received.iter().filter_map(|r| r.as_ref().ok().map(|i| i.id)).collect();
    if let Some(w) = ok_ids.windows(2).find(|w| w[0] > w[1]) {
        v.problems.push(format!(
            "order not preserved: item {} was yielded before item {} (yield order {:?})",
            w[0], w[1], ok_ids
        ));
    }
    v
}

fn check_case(case: &Case, k_c13_open: bool) -> CaseResult {
    let m = model(case);
    let run = execute(case)?;
    let received: Vec<Outcome> = run.received.iter().map(|(_, o)| o.clone()).collect();
    let verdict = judge(&m.outcomes, &received);
    let excluded = k_c13_open && m.later_process_suspends;

    if let Some(p) = verdict.problems.first() {
        return Err(format!("{p}; received (virtual ms, outcome) = {:?}", run.received));
    }
    if !verdict.missing.is_empty() && !excluded {
        return Err(format!(
            "{} of {} outputs never yielded within {} ms of virtual time after the consumer script{}: missing {:?}; received {:?}; trace {:?}",
            verdict.missing.len(),
            m.outcomes.len(),
            run.deadline_ms,
            if run.ended { " (stream ended with None)" } else { "" },
            verdict.missing,
            run.received,
            run.trace,
        ));
    }
    if !excluded && run.trace.process_cancelled_later > 0 && !m.later_process_suspends {
        engine::harness_error("C13: a later-layer process future was cancelled although it has no await point");
    }

    let t = &run.trace;
    let n_layers = case.n_layers();
    let multi = n_layers >= 2;
    let has_err = m.outcomes.iter().any(|o| o.is_err());
    let has_hold = case
        .layers
        .iter()
        .take(n_layers)
        .any(|l| (0..case.gaps.len()).any(|id| at(&l.hold, id) > 0));
    let nontrivial = t.next_cancelled_inflight > 0 && !excluded;
    let mut ok = CaseOk::nontrivial(nontrivial)
        .label(match case.shape {
            Shape::Single => "shape_single",
            Shape::Stacked => "shape_stacked",
            Shape::Composed => "shape_composed",
        })
        .label_if(case.gaps.is_empty(), "no_inputs")
        .label_if(multi, "multi_layer")
        .label_if(n_layers == 3, "three_layers")
        .label_if(has_err, "has_error_items")
        .label_if(has_hold, "has_hold")
        .label_if(case.source_iter, "source_iter")
        .label_if(!case.source_iter && case.close_input, "input_closed")
        .label_if(t.next_cancelled > 0, "next_cancelled")
        .label_if(t.next_cancelled_inflight > 0, "next_cancelled_with_item_in_chain")
        .label_if(multi && t.outer_next_cancelled_inflight > 0, "multi_layer_outer_next_cancelled_with_item_in_chain")
        .label_if(
            case.shape == Shape::Composed && multi && t.next_cancelled_inflight > 0 && !excluded,
            "composed_multi_next_cancelled_with_item_in_chain",
        )
        .label_if(t.process_cancelled_later > 0, "later_layer_process_cancelled")
        .label_if(t.concurrent_process_and_next > 0, "process_called_while_next_alive")
        .label_if(excluded && !verdict.missing.is_empty(), "excluded_and_items_lost")
        .label_if(excluded && verdict.missing.is_empty(), "excluded_but_complete");
    if excluded {
        ok = ok.excluded();
    }
    Ok(ok)
}

// ------------------------------------------------------------------------------------------------
// Generator
// ------------------------------------------------------------------------------------------------

fn susp() -> impl Strategy<Value = Susp> {
    prop_oneof![
        5 => Just(0u8),
        1 => Just(1u8),
        3 => 2u8..8,
        1 => 8u8..24,
    ]
}

fn layer_spec(max_inputs: usize) -> impl Strategy<Value = LayerSpec> {
    (
        prop_oneof![
            2 => Just(vec![]),
            1 => susp().prop_map(move |s| vec![s; max_inputs]),
            2 => prop::collection::vec(susp(), 0..=max_inputs),
        ],
        susp(),
        prop_oneof![
            3 => Just(vec![]),
            2 => prop::collection::vec(prop_oneof![2 => Just(0u8), 2 => 1u8..3, 1 => Just(200u8)], 0..=max_inputs),
        ],
        prop_oneof![
            3 => Just(vec![]),
            2 => prop::collection::vec(prop_oneof![6 => Just(0u8), 1 => Just(1u8), 1 => Just(2u8)], 0..=max_inputs),
        ],
    )
        .prop_map(|(process, next, hold, fail)| LayerSpec {
            process,
            next,
            hold,
            fail,
        })
}

fn case_strategy(max_inputs: usize) -> impl Strategy<Value = Case> {
    (
        prop_oneof![1 => Just(Shape::Single), 2 => Just(Shape::Stacked), 3 => Just(Shape::Composed)],
        prop::collection::vec(layer_spec(max_inputs), 1..=3),
        prop::collection::vec(susp(), 0..=max_inputs),
        prop::bool::weighted(0.2),
        any::<bool>(),
        prop::collection::vec((susp(), susp()), 0..=8),
        // Half of the composed cases keep later-layer `process` free of await points (the
        // population that stays asserted while K-C13 is open).
        any::<bool>(),
    )
        .prop_map(|(shape, mut layers, gaps, source_iter, close_input, consumer, instant_later)| {
            if shape == Shape::Composed && instant_later {
                for l in layers.iter_mut().skip(1) {
                    l.process.clear();
                }
            }
            Case {
                shape,
                layers,
                gaps,
                source_iter,
                close_input,
                consumer,
                lifo_layer: None,
            }
        })
}

// ------------------------------------------------------------------------------------------------
// Probe of K-C13 and oracle self-test
// ------------------------------------------------------------------------------------------------

fn plain_layer() -> LayerSpec {
    LayerSpec {
        process: vec![],
        next: 0,
        hold: vec![],
        fail: vec![],
    }
}

/// Five inputs 3 ms apart through a composed two-layer pipeline whose second layer's `process`
/// takes 10 ms.
fn probe_case() -> Case {
    Case {
        shape: Shape::Composed,
        layers: vec![
            plain_layer(),
            LayerSpec {
                process: vec![11; 5],
                ..plain_layer()
            },
        ],
        gaps: vec![4; 5],
        source_iter: false,
        close_input: false,
        consumer: vec![],
        lifo_layer: None,
    }
}

fn probe(ctx: &mut Ctx) {
    let case = probe_case();
    let m = model(&case);
    match execute(&case) {
        Ok(run) => {
            let received: Vec<Outcome> = run.received.iter().map(|(_, o)| o.clone()).collect();
            let v = judge(&m.outcomes, &received);
            let ids: Vec<u32> = received.iter().filter_map(|r| r.as_ref().ok().map(|i| i.id)).collect();
            let detail = format!(
                "composed 2-layer pipeline, 5 inputs 3 ms apart, second layer process = 10 ms: {} of 5 items yielded (ids {:?}), {} later-layer process futures dropped in flight",
                ids.len(),
                ids,
                run.trace.process_cancelled_later
            );
            let reproduced = !v.missing.is_empty();
            if ctx.is_open(K_C13) {
                ctx.known_finding(K_C13, reproduced, &detail);
            } else {
                println!("probe K-C13 (not listed as open): {detail}");
            }
        }
        Err(e) => engine::harness_error(&format!("K-C13 probe failed to run: {e}")),
    }
}

/// The oracle must reject reordered, duplicated, missing and foreign outputs, and a LIFO processor
/// run through the real pipeline must be reported as an order violation.
fn self_test() {
    let ok = |id: u32| -> Outcome { Ok(Item { id, tags: vec![0] }) };
    let expected = vec![ok(0), ok(1), ok(2)];
    let clean = judge(&expected, &expected);
    if !clean.problems.is_empty() || !clean.missing.is_empty() {
        engine::harness_error("C13 oracle self-test: exact delivery rejected");
    }
    let reordered = judge(&expected, &[ok(1), ok(0), ok(2)]);
    let duplicated = judge(&expected, &[ok(0), ok(1), ok(1), ok(2)]);
    let foreign = judge(&expected, &[ok(0), ok(1), ok(2), ok(7)]);
    let missing = judge(&expected, &[ok(0), ok(2)]);
    if reordered.problems.is_empty() || duplicated.problems.is_empty() || foreign.problems.is_empty() || missing.missing.len() != 1 {
        engine::harness_error("C13 oracle self-test: a corrupted delivery was accepted");
    }
    for shape in [Shape::Single, Shape::Stacked, Shape::Composed] {
        // A 5 ms `next` delay on the faulty layer lets all four items queue up before its first pop.
        let slow_next = LayerSpec {
            next: 6,
            ..plain_layer()
        };
        let mut case = Case {
            shape,
            layers: if shape == Shape::Single { vec![slow_next] } else { vec![plain_layer(), slow_next] },
            gaps: vec![0; 4],
            source_iter: true,
            close_input: false,
            consumer: vec![],
            lifo_layer: Some(if shape == Shape::Single { 0 } else { 1 }),
        };
        let lifo = check_case(&case, false);
        case.lifo_layer = None;
        let fifo = check_case(&case, false);
        match (lifo, fifo) {
            (Err(msg), Ok(_)) if msg.contains("order not preserved") => {}
            // The FIFO twin failing is a failure of the code under test, not of the oracle: leave
            // it to the generated part, which reports it as a violation with a replay file.
            (_, Err(_)) => {}
            (lifo, fifo) => engine::harness_error(&format!(
                "C13 oracle self-test ({shape:?}): LIFO processor gave {lifo:?}, FIFO twin gave {fifo:?}"
            )),
        }
    }
}

pub fn run(mut ctx: Ctx) -> ! {
    let _watchdog = engine::Watchdog::arm("C13 (whole run)", Duration::from_secs(ctx.pick(900, 7200)));
    self_test();
    let open = ctx.is_open(K_C13);
    ctx.assume("harness processors are FIFO and cancel-safe in `next` (optional delay, then pop-or-wait; nothing held across an await), like Ingest/LogPrune");
    ctx.assume("all delays are virtual (tokio paused clock); 'never yielded' is decided by a virtual-time deadline of 3x the sum of all delays of the case + 1 s after the consumer script");
    if cfg!(tokio_unstable) {
        ctx.assume("tokio built with tokio_unstable: the select! RNG of every case runtime is seeded from the case, executions are reproducible");
    } else {
        ctx.assume("tokio::select! inside buffered.rs/composed.rs picks its first branch with tokio's per-runtime RNG (OS-seeded; seedable only with --cfg tokio_unstable); no oracle depends on that choice, but a defect that needs one particular choice is found in some executions of a case only");
    }
    ctx.assume("a process error is forwarded as soon as it happens, so only the relative order of Ok outputs is asserted");
    if open {
        ctx.assume("K-C13 open: composed cases in which an item reaches a later layer whose `process` suspends are excluded from the completeness assertion only (duplicates, foreign outputs and order are still asserted)");
    }
    probe(&mut ctx);
    let max_inputs = ctx.pick(12usize, 16usize);
    ctx.run_prop(
        Part::new(
            "schedules",
            "0..=12 (thorough 16) inputs with generated arrival gaps through 1-3 FIFO harness processors (per-item process suspension none/yield/sleep, next delay, FIFO hold until later inputs were seen, process/next error items) as single layer, stacked layers or composed pipeline, channel or iter source, consumer with generated poll windows (elapsed window = cancelled next) and pauses, all under the paused clock; non-trivial = a processor's `next` future was cancelled while an item was inside the chain (and the case is not excluded by an open finding)",
            300_000,
            5_000_000,
        )
        .min_nontrivial(0.3)
        .shrink_iters(2000),
        || case_strategy(max_inputs),
        |case| check_case(case, open),
    );
    ctx.finish()
}
