//! Shared plain-data types of the auth group: condition types, operations, access specs and the
//! thin wrappers around `GroupCrdt::process`.

use std::panic::{AssertUnwindSafe, catch_unwind};

use p2panda_auth::group::resolver::StrongRemove;
use p2panda_auth::group::{GroupAction, GroupCrdt, GroupCrdtError, GroupCrdtState, GroupMember};
use p2panda_auth::traits::{Conditions, Operation};
use p2panda_auth::{Access, AccessLevel};
use serde::{Deserialize, Serialize};

/// Totally ordered access condition (derived lexicographic order on one `u8`).
#[derive(Clone, Debug, PartialEq, Eq, PartialOrd, Ord, Hash, Serialize, Deserialize)]
pub struct Cond(pub u8);
impl Conditions for Cond {}

/// The two condition types the checks are instantiated with.
pub trait CondKind: Conditions + Eq + Send + Sync + 'static {
    const NAME: &'static str;
    /// `0` is "no condition"; `n > 0` is condition `n - 1` where the type has conditions.
    fn mk(raw: u8) -> Option<Self>;
    fn raw(c: &Self) -> u8;
}

impl CondKind for () {
    const NAME: &'static str = "unit";
    fn mk(_raw: u8) -> Option<Self> {
        None
    }
    fn raw(_c: &Self) -> u8 {
        0
    }
}

impl CondKind for Cond {
    const NAME: &'static str = "u8";
    fn mk(raw: u8) -> Option<Self> {
        if raw == 0 { None } else { Some(Cond(raw - 1)) }
    }
    fn raw(c: &Self) -> u8 {
        c.0
    }
}

/// Serializable access spec: level 0..=3 (Pull, Read, Write, Manage), cond 0 = none, n = Some(n-1).
#[derive(Clone, Copy, Debug, PartialEq, Eq, PartialOrd, Ord, Hash, Serialize, Deserialize)]
pub struct Acc {
    pub level: u8,
    pub cond: u8,
}

/// Canonical, totally ordered rendering of an access value: (level, condition).
pub type CanonAcc = (u8, Option<u8>);

pub fn level_of(l: u8) -> AccessLevel {
    match l & 3 {
        0 => AccessLevel::Pull,
        1 => AccessLevel::Read,
        2 => AccessLevel::Write,
        _ => AccessLevel::Manage,
    }
}

pub fn level_num(l: &AccessLevel) -> u8 {
    match l {
        AccessLevel::Pull => 0,
        AccessLevel::Read => 1,
        AccessLevel::Write => 2,
        AccessLevel::Manage => 3,
    }
}

pub fn access<C: CondKind>(a: Acc) -> Access<C> {
    Access {
        level: level_of(a.level),
        conditions: C::mk(a.cond),
    }
}

pub fn canon<C: CondKind>(a: &Access<C>) -> CanonAcc {
    (level_num(&a.level), a.conditions.as_ref().map(C::raw))
}

/// Canonical member: (is_group, id).
pub type Member = (bool, char);

pub fn member_of(m: Member) -> GroupMember<char> {
    if m.0 { GroupMember::Group(m.1) } else { GroupMember::Individual(m.1) }
}

pub fn canon_member(m: &GroupMember<char>) -> Member {
    (m.is_group(), m.id())
}

/// Group operation over the ids the crate's own `test_utils` use (`char` actors/groups, `u32`
/// operation ids) but generic over the condition type.
#[derive(Clone, Debug)]
pub struct Op<C> {
    pub id: u32,
    pub author: char,
    pub deps: Vec<u32>,
    pub group: char,
    pub action: GroupAction<char, C>,
}

impl<C: CondKind> Operation<char, u32, C> for Op<C> {
    fn id(&self) -> u32 {
        self.id
    }
    fn author(&self) -> char {
        self.author
    }
    fn dependencies(&self) -> Vec<u32> {
        self.deps.clone()
    }
    fn group_id(&self) -> char {
        self.group
    }
    fn action(&self) -> GroupAction<char, C> {
        self.action.clone()
    }
}

pub type Resolver<C> = StrongRemove<char, u32, Op<C>, C>;
pub type Crdt<C> = GroupCrdt<char, u32, Op<C>, C, Resolver<C>>;
pub type State<C> = GroupCrdtState<char, u32, Op<C>, C>;

/// Why `process` did not accept an operation.
#[derive(Clone, Debug, PartialEq, Eq)]
pub enum Rej {
    Duplicate,
    Cycle,
    ManagerGroup,
    StateChange(String),
    Other(String),
    Panic(String),
}

impl Rej {
    pub fn is_panic(&self) -> bool {
        matches!(self, Rej::Panic(_))
    }
}

/// `GroupCrdt::process` on a copy of `y` (the caller keeps `y`: a rejected operation leaves the
/// replica at its previous value, which is how every caller in the workspace uses the API).
pub fn try_process<C: CondKind>(y: &State<C>, op: &Op<C>) -> Result<State<C>, Rej> {
    let copy = y.clone();
    match catch_unwind(AssertUnwindSafe(|| Crdt::<C>::process(copy, op))) {
        Ok(Ok(y)) => Ok(y),
        Ok(Err(e)) => Err(match e {
            GroupCrdtError::DuplicateOperation(..) => Rej::Duplicate,
            GroupCrdtError::GroupCycle(..) => Rej::Cycle,
            GroupCrdtError::ManagerGroupsNotAllowed(..) => Rej::ManagerGroup,
            GroupCrdtError::StateChangeError(_, e) => Rej::StateChange(format!("{e:?}")),
            other => Rej::Other(format!("{other}")),
        }),
        Err(p) => {
            let msg = if let Some(s) = p.downcast_ref::<&str>() {
                s.to_string()
            } else if let Some(s) = p.downcast_ref::<String>() {
                s.clone()
            } else {
                "<non-string panic>".to_string()
            };
            Err(Rej::Panic(msg))
        }
    }
}

/// Deterministic, bijective scrambling of a creation counter into an operation id, so that the
/// numeric order of ids is unrelated to causal order (as with hashes).
pub fn op_id(counter: u32) -> u32 {
    counter.wrapping_add(1).wrapping_mul(2_654_435_761)
}

pub type Obs = Vec<(Member, CanonAcc)>;

/// Sorted `root_members(group)`.
pub fn obs_root<C: CondKind>(y: &State<C>, group: char) -> Obs {
    let mut v: Obs = y.root_members(group).iter().map(|(m, a)| (canon_member(m), canon(a))).collect();
    v.sort();
    v
}

/// Sorted `members(group)` (transitive individuals).
pub fn obs_members<C: CondKind>(y: &State<C>, group: char) -> Obs {
    let mut v: Obs = y.members(group).iter().map(|(m, a)| ((false, *m), canon(a))).collect();
    v.sort();
    v
}

/// Sorted `groups(group)` (transitive sub-groups).
pub fn obs_groups<C: CondKind>(y: &State<C>, group: char) -> Obs {
    let mut v: Obs = y.groups(group).iter().map(|(m, a)| ((true, *m), canon(a))).collect();
    v.sort();
    v
}

pub fn sorted_heads<C: CondKind>(y: &State<C>) -> Vec<u32> {
    let mut h = y.heads();
    h.sort();
    h
}
