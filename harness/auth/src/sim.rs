//! Simulated replicas that author group operations against their own current heads, exchange them
//! and process them through `GroupCrdt::process`. Everything is driven by plain generated data
//! (`History`), so cases serialise, shrink and replay. Used by C31 and C33.

use std::collections::{BTreeMap, BTreeSet};

use engine::idx;
use engine::proptest::prelude::*;
use p2panda_auth::group::{GroupAction, GroupMember};
use serde::{Deserialize, Serialize};

use crate::common::*;
use crate::model::Act;

pub const ACTORS: [char; 6] = ['A', 'B', 'C', 'D', 'E', 'F'];
pub const ROOT: char = '0';
pub const SUBS: [char; 2] = ['1', '2'];
/// A group id that is never created / an actor that never appears in a create or add by a manager.
pub const UNKNOWN_GROUP: char = '9';

#[derive(Clone, Debug, Serialize, Deserialize)]
pub enum Step {
    /// One actor authors an operation on top of its own replica's heads.
    Act {
        /// Which actor (mapped onto the actors that are managers of the group in their own view
        /// unless `any_actor`).
        actor: u16,
        /// 0 = root, 1.. = sub-groups (mapped onto the existing ones); 255 = the unknown group.
        group: u8,
        /// 0 add individual, 1 add group, 2 remove, 3 change access (promote/demote by direction),
        /// 4 self-remove, 5 promote (as given), 6 demote (as given).
        kind: u8,
        target: u16,
        acc: Acc,
        /// Author chosen among all actors, authorised or not.
        any_actor: bool,
        /// Target chosen among all conceivable members instead of the sensible candidates.
        wild: bool,
    },
    /// Replica `to` receives everything replica `from` has accepted, in `from`'s order.
    Sync { from: u8, to: u8 },
    SyncAll,
}

#[derive(Clone, Debug, Serialize, Deserialize)]
pub struct History {
    pub actors: u8,
    pub subs: u8,
    /// Further initial members of the root group (actor index 1.., access); actor 0 creates the
    /// root group and is a manager.
    pub initial: Vec<(u8, Acc)>,
    /// Further initial members of each sub-group besides its creator (actor index, access).
    pub sub_initial: Vec<Vec<(u8, Acc)>>,
    pub steps: Vec<Step>,
}

impl History {
    pub fn actor_ids(&self) -> Vec<char> {
        ACTORS[..(self.actors.clamp(2, 6) as usize)].to_vec()
    }
    pub fn group_ids(&self) -> Vec<char> {
        let mut g = vec![ROOT];
        g.extend_from_slice(&SUBS[..(self.subs.min(2) as usize)]);
        g
    }
}

pub struct OpInfo<C> {
    pub op: Op<C>,
    /// Creation index (0..).
    pub index: usize,
    pub act: Act,
    /// All causal predecessors (transitive), as operation ids.
    pub ancestors: BTreeSet<u32>,
    /// Accepted by its author's replica.
    pub accepted: bool,
    pub rejection: Option<Rej>,
}

pub struct Replica<C: CondKind> {
    pub y: State<C>,
    /// Accepted operations in processing order.
    pub log: Vec<u32>,
    pub has: BTreeSet<u32>,
}

impl<C: CondKind> Replica<C> {
    pub fn new() -> Self {
        Replica {
            y: State::<C>::new(),
            log: vec![],
            has: BTreeSet::new(),
        }
    }

    /// Processes `op`; on acceptance the replica advances, otherwise it keeps its previous value.
    pub fn process(&mut self, op: &Op<C>) -> Result<(), Rej> {
        let y = try_process(&self.y, op)?;
        self.y = y;
        self.log.push(op.id);
        self.has.insert(op.id);
        Ok(())
    }
}

pub struct World<C: CondKind> {
    pub actors: Vec<char>,
    pub groups: Vec<char>,
    pub replicas: Vec<Replica<C>>,
    pub ops: BTreeMap<u32, OpInfo<C>>,
    /// Ids in creation order.
    pub order: Vec<u32>,
    /// Deliveries of accepted operations whose author was no manager (any more) in the receiving
    /// replica's current view: once-authorised operations that must still be accepted.
    pub stale_deliveries: usize,
}

pub fn act_of<C: CondKind>(a: &GroupAction<char, C>) -> Act {
    match a {
        GroupAction::Create { initial_members } => Act::Create(initial_members.iter().map(|(m, a)| (canon_member(m), canon(a))).collect()),
        GroupAction::Add { member, access } => Act::Add(canon_member(member), canon(access)),
        GroupAction::Remove { member } => Act::Remove(canon_member(member)),
        GroupAction::Promote { member, access } => Act::Promote(canon_member(member), canon(access)),
        GroupAction::Demote { member, access } => Act::Demote(canon_member(member), canon(access)),
    }
}

/// Nested adds the generator allows: any sub-group into the root, the two sub-groups into each
/// other (a 2-cycle can arise from concurrent adds; it is the only possible cycle and every group
/// on it has a single group member, so the code's depth-bounded traversal stays linear). The root
/// is never a member.
pub fn nesting_allowed(parent: char, child: char) -> bool {
    child != ROOT && child != parent && (parent == ROOT || SUBS.contains(&parent)) && (SUBS.contains(&child) || child == UNKNOWN_GROUP)
}

impl<C: CondKind> World<C> {
    /// Creates the root group and the sub-groups and hands the creates to every replica.
    pub fn new(h: &History) -> Result<World<C>, String> {
        let actors = h.actor_ids();
        let groups = h.group_ids();
        let mut w = World {
            replicas: actors.iter().map(|_| Replica::new()).collect(),
            actors,
            groups,
            ops: BTreeMap::new(),
            order: vec![],
            stale_deliveries: 0,
        };
        // Root group by actor 0.
        let mut initial = vec![(GroupMember::Individual(w.actors[0]), access::<C>(Acc { level: 3, cond: 0 }))];
        for (i, acc) in &h.initial {
            let who = w.actors[idx_u8(*i, w.actors.len())];
            if !initial.iter().any(|(m, _)| m.id() == who) {
                initial.push((GroupMember::Individual(who), access::<C>(*acc)));
            }
        }
        w.author(0, ROOT, GroupAction::Create { initial_members: initial })
            .map_err(|e| format!("creating the root group was rejected: {e:?}"))?;
        // Sub-group k by actor (k+1) mod n, on top of the creator's heads after a full sync.
        w.sync_all()?;
        for k in 0..w.groups.len().saturating_sub(1) {
            let creator = (k + 1) % w.actors.len();
            let mut initial = vec![(GroupMember::Individual(w.actors[creator]), access::<C>(Acc { level: 3, cond: 0 }))];
            if let Some(extra) = h.sub_initial.get(k) {
                for (i, acc) in extra {
                    let who = w.actors[idx_u8(*i, w.actors.len())];
                    if !initial.iter().any(|(m, _)| m.id() == who) {
                        initial.push((GroupMember::Individual(who), access::<C>(*acc)));
                    }
                }
            }
            let g = w.groups[k + 1];
            w.author(creator, g, GroupAction::Create { initial_members: initial })
                .map_err(|e| format!("creating sub-group {g} was rejected: {e:?}"))?;
            w.sync_all()?;
        }
        Ok(w)
    }

    /// Actor `a` authors `action` on top of its replica's heads. Returns the op id and whether its
    /// own replica accepted it. Rejected operations are kept in `ops` (not in any log).
    pub fn author(&mut self, a: usize, group: char, action: GroupAction<char, C>) -> Result<u32, Rej> {
        let id = op_id(self.order.len() as u32);
        let deps = sorted_heads(&self.replicas[a].y);
        let mut ancestors = BTreeSet::new();
        for d in &deps {
            ancestors.insert(*d);
            ancestors.extend(self.ops[d].ancestors.iter().copied());
        }
        let op = Op {
            id,
            author: self.actors[a],
            deps,
            group,
            action,
        };
        let res = self.replicas[a].process(&op);
        let info = OpInfo {
            act: act_of(&op.action),
            op,
            index: self.order.len(),
            ancestors,
            accepted: res.is_ok(),
            rejection: res.clone().err(),
        };
        self.ops.insert(id, info);
        self.order.push(id);
        res.map(|_| id)
    }

    /// Delivers one accepted operation to replica `r` (all dependencies must be there).
    pub fn deliver(&mut self, r: usize, id: u32) -> Result<(), String> {
        if self.replicas[r].has.contains(&id) {
            return Ok(());
        }
        let info = &self.ops[&id];
        debug_assert!(info.op.deps.iter().all(|d| self.replicas[r].has.contains(d)));
        if !matches!(info.act, Act::Create(_)) {
            let self_remove = matches!(info.act, Act::Remove(m) if m == (false, info.op.author));
            let manager = obs_root(&self.replicas[r].y, info.op.group).iter().any(|(m, a)| *m == (false, info.op.author) && a.0 == 3);
            if !manager && !self_remove {
                self.stale_deliveries += 1;
            }
        }
        self.replicas[r].process(&info.op).map_err(|rej| {
            format!(
                "operation #{} ({}) was accepted by its author's replica but rejected by replica {} which holds all its dependencies: {:?}",
                info.index,
                describe(info),
                self.actors[r],
                rej
            )
        })
    }

    pub fn sync(&mut self, from: usize, to: usize) -> Result<(), String> {
        if from == to {
            return Ok(());
        }
        for id in self.replicas[from].log.clone() {
            self.deliver(to, id)?;
        }
        Ok(())
    }

    pub fn sync_all(&mut self) -> Result<(), String> {
        let n = self.replicas.len();
        // Two rounds of a ring make everybody complete, each in a different order.
        for _ in 0..2 {
            for from in 0..n {
                self.sync(from, (from + 1) % n)?;
            }
        }
        for from in 0..n {
            for to in 0..n {
                self.sync(from, to)?;
            }
        }
        Ok(())
    }

    pub fn accepted_ids(&self) -> Vec<u32> {
        self.order.iter().copied().filter(|id| self.ops[id].accepted).collect()
    }

    /// Chooses the acting actor and builds the action from the actor's own view.
    #[allow(clippy::too_many_arguments)]
    pub fn plan(&self, actor: u16, group: u8, kind: u8, target: u16, acc: Acc, any_actor: bool, wild: bool) -> Option<(usize, char, GroupAction<char, C>)> {
        let g = if group == 255 {
            UNKNOWN_GROUP
        } else {
            self.groups[idx_u8(group, self.groups.len())]
        };
        // Who acts.
        let a = if any_actor {
            idx(actor, self.actors.len())
        } else {
            let managers: Vec<usize> = (0..self.actors.len())
                .filter(|i| obs_root(&self.replicas[*i].y, g).iter().any(|(m, a)| *m == (false, self.actors[*i]) && a.0 == 3))
                .collect();
            if managers.is_empty() {
                idx(actor, self.actors.len())
            } else {
                managers[idx(actor, managers.len())]
            }
        };
        let me = self.actors[a];
        let view = obs_root(&self.replicas[a].y, g);
        let active: Vec<Member> = view.iter().map(|(m, _)| *m).collect();
        let universe: Vec<Member> = {
            let mut u: Vec<Member> = self.actors.iter().map(|c| (false, *c)).collect();
            u.push((false, 'Z'));
            for s in SUBS.iter().chain([UNKNOWN_GROUP].iter()) {
                if nesting_allowed(g, *s) || (wild && *s == g && g != ROOT) {
                    u.push((true, *s));
                }
            }
            u
        };
        let pick = |c: &Vec<Member>| -> Option<Member> { if c.is_empty() { None } else { Some(c[idx(target, c.len())]) } };
        let a_c = access::<C>(acc);
        let action = match kind {
            0 => {
                let cands: Vec<Member> = if wild {
                    universe.iter().copied().filter(|m| !m.0).collect()
                } else {
                    self.actors.iter().map(|c| (false, *c)).filter(|m| !active.contains(m)).collect()
                };
                GroupAction::Add {
                    member: member_of(pick(&cands)?),
                    access: a_c,
                }
            }
            1 => {
                let cands: Vec<Member> = if wild {
                    universe.iter().copied().filter(|m| m.0).collect()
                } else {
                    self.groups.iter().filter(|s| nesting_allowed(g, **s)).map(|s| (true, *s)).filter(|m| !active.contains(m)).collect()
                };
                // Groups may not be managers: the generator asks for that only in wild mode.
                let mut acc = acc;
                if !wild && acc.level == 3 {
                    acc.level = 2;
                }
                GroupAction::Add {
                    member: member_of(pick(&cands)?),
                    access: access::<C>(acc),
                }
            }
            2 => {
                let cands = if wild { universe.clone() } else { active.clone() };
                GroupAction::Remove {
                    member: member_of(pick(&cands)?),
                }
            }
            3 | 5 | 6 => {
                let cands = if wild { universe.clone() } else { active.clone() };
                let m = pick(&cands)?;
                let mut acc = acc;
                if m.0 && acc.level == 3 {
                    // never ask for a manager group through promote/demote
                    acc.level = 2;
                }
                let current = view.iter().find(|(x, _)| *x == m).map(|(_, a)| a.0);
                let promote = match kind {
                    5 => true,
                    6 => false,
                    _ => current.map(|c| acc.level >= c).unwrap_or(true),
                };
                // Keep the direction honest where the author can see the current level (callers
                // promote upwards and demote downwards).
                let promote = match current {
                    Some(c) if acc.level > c => true,
                    Some(c) if acc.level < c => false,
                    _ => promote,
                };
                if promote {
                    GroupAction::Promote {
                        member: member_of(m),
                        access: access::<C>(acc),
                    }
                } else {
                    GroupAction::Demote {
                        member: member_of(m),
                        access: access::<C>(acc),
                    }
                }
            }
            _ => GroupAction::Remove {
                member: GroupMember::Individual(me),
            },
        };
        Some((a, g, action))
    }
}

pub fn idx_u8(raw: u8, len: usize) -> usize {
    if len == 0 { 0 } else { (raw as usize) % len }
}

pub fn describe<C>(info: &OpInfo<C>) -> String {
    format!("{} in group {}: {:?}, deps {:?}", info.op.author, info.op.group, info.act, info.op.deps)
}

/// Are two accepted operations concurrent?
pub fn concurrent<C>(a: &OpInfo<C>, b: &OpInfo<C>) -> bool {
    a.op.id != b.op.id && !a.ancestors.contains(&b.op.id) && !b.ancestors.contains(&a.op.id)
}

// ---------------------------------------------------------------------------------------------
// Strategies

pub fn acc_strategy(max_cond: u8) -> impl Strategy<Value = Acc> {
    (prop_oneof![3 => 0u8..4, 2 => Just(3u8)], prop_oneof![1 => Just(0u8), 1 => 0u8..=max_cond]).prop_map(|(level, cond)| Acc { level, cond })
}

#[derive(Clone, Copy, Debug)]
pub struct StepWeights {
    /// Percentage of actions whose author is chosen among all actors (authorised or not).
    pub unauthorised: u32,
    /// Percentage of actions whose target is chosen among all conceivable members.
    pub wild: u32,
    /// Weight (against 9) of actions on a group id that is never created.
    pub unknown_group: u32,
}

fn percent(p: u32) -> BoxedStrategy<bool> {
    if p == 0 {
        Just(false).boxed()
    } else if p >= 100 {
        Just(true).boxed()
    } else {
        prop_oneof![(100 - p) => Just(false), p => Just(true)].boxed()
    }
}

pub fn step_strategy(max_cond: u8, w: StepWeights) -> impl Strategy<Value = Step> {
    let group: BoxedStrategy<u8> = if w.unknown_group == 0 {
        prop_oneof![6 => Just(0u8), 3 => 1u8..3].boxed()
    } else {
        prop_oneof![6 => Just(0u8), 3 => 1u8..3, w.unknown_group => Just(255u8)].boxed()
    };
    let kind = prop_oneof![
        4 => Just(0u8),
        2 => Just(1u8),
        4 => Just(2u8),
        5 => Just(3u8),
        1 => Just(4u8),
        1 => Just(5u8),
        1 => Just(6u8),
    ];
    let act = (any::<u16>(), group, kind, any::<u16>(), acc_strategy(max_cond), percent(w.unauthorised), percent(w.wild)).prop_map(
        |(actor, group, kind, target, acc, any_actor, wild)| Step::Act {
            actor,
            group,
            kind,
            target,
            acc,
            any_actor,
            wild,
        },
    );
    prop_oneof![
        12 => act,
        5 => (0u8..6, 0u8..6).prop_map(|(from, to)| Step::Sync { from, to }),
        1 => Just(Step::SyncAll),
    ]
}

pub fn history_strategy(max_cond: u8, max_steps: usize, w: StepWeights) -> impl Strategy<Value = History> {
    (
        3u8..=6,
        0u8..=2,
        prop::collection::vec((1u8..6, acc_strategy(max_cond)), 0..=4),
        prop::collection::vec(prop::collection::vec((0u8..6, acc_strategy(max_cond)), 0..=2), 2),
        prop::collection::vec(step_strategy(max_cond, w), 3..=max_steps),
    )
        .prop_map(|(actors, subs, initial, sub_initial, steps)| History {
            actors,
            subs,
            initial,
            sub_initial,
            steps,
        })
}
