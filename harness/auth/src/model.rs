//! Independent sequential model of the documented group state rules (written from the doc
//! comments of `state::{create, add, remove, promote, demote}` and `GroupCrdt::validate`, not from
//! their bodies): who may do what, and what the result is. Used by C33.

use std::collections::{BTreeMap, BTreeSet};

use crate::common::{CanonAcc, Member};

pub const MANAGE: u8 = 3;
pub const PULL: u8 = 0;

#[derive(Clone, Debug, PartialEq, Eq, PartialOrd, Ord, Hash)]
pub struct Rec {
    pub active: bool,
    pub acc: CanonAcc,
}

/// Action as plain data.
#[derive(Clone, Debug, PartialEq, Eq)]
pub enum Act {
    Create(Vec<(Member, CanonAcc)>),
    Add(Member, CanonAcc),
    Remove(Member),
    Promote(Member, CanonAcc),
    Demote(Member, CanonAcc),
}

impl Act {
    pub fn target(&self) -> Option<Member> {
        match self {
            Act::Create(_) => None,
            Act::Add(m, _) | Act::Remove(m) | Act::Promote(m, _) | Act::Demote(m, _) => Some(*m),
        }
    }

    /// Does this action hand `Manage` to individual `who`?
    pub fn grants_manage_to(&self, who: char) -> bool {
        match self {
            Act::Create(init) => init.iter().any(|(m, a)| *m == (false, who) && a.0 == MANAGE),
            Act::Add(m, a) | Act::Promote(m, a) | Act::Demote(m, a) => *m == (false, who) && a.0 == MANAGE,
            Act::Remove(_) => false,
        }
    }

    /// Does this action introduce `who` as a member (create or add)?
    pub fn introduces(&self, who: Member) -> bool {
        match self {
            Act::Create(init) => init.iter().any(|(m, _)| *m == who),
            Act::Add(m, _) => *m == who,
            _ => false,
        }
    }
}

/// Direct membership of one group. A member is "known" once it has an entry.
#[derive(Clone, Debug, Default, PartialEq, Eq, PartialOrd, Ord, Hash)]
pub struct GroupModel {
    pub members: BTreeMap<Member, Rec>,
}

impl GroupModel {
    pub fn is_active(&self, m: Member) -> bool {
        self.members.get(&m).map(|r| r.active).unwrap_or(false)
    }

    pub fn is_manager(&self, who: char) -> bool {
        self.members.get(&(false, who)).map(|r| r.active && r.acc.0 == MANAGE).unwrap_or(false)
    }

    pub fn active(&self) -> Vec<(Member, CanonAcc)> {
        self.members.iter().filter(|(_, r)| r.active).map(|(m, r)| (*m, r.acc)).collect()
    }

    /// The author may change this group: active member with `Manage`.
    fn authorised(&self, author: char) -> Result<(), &'static str> {
        match self.members.get(&(false, author)) {
            None => Err("actor unknown to the group"),
            Some(r) if !r.active => Err("actor inactive"),
            Some(r) if r.acc.0 != MANAGE => Err("actor lacks manage access"),
            _ => Ok(()),
        }
    }

    /// Applies a non-create action by `author` following the documented rules; `Err` leaves the
    /// model unchanged.
    pub fn apply(&mut self, author: char, act: &Act) -> Result<(), &'static str> {
        match act {
            Act::Create(_) => Err("create is handled by the caller"),
            Act::Add(m, acc) => {
                self.authorised(author)?;
                if self.is_active(*m) {
                    return Err("added member is already active");
                }
                self.members.insert(*m, Rec { active: true, acc: *acc });
                Ok(())
            }
            Act::Remove(m) => {
                match self.members.get(&(false, author)) {
                    None => return Err("actor unknown to the group"),
                    Some(r) if !r.active => return Err("actor inactive"),
                    Some(r) if r.acc.0 != MANAGE && *m != (false, author) => return Err("actor lacks manage access and is not removing itself"),
                    _ => {}
                }
                match self.members.get_mut(m) {
                    None => Err("removed member unknown"),
                    Some(r) if !r.active => Err("removed member already inactive"),
                    Some(r) => {
                        r.active = false;
                        Ok(())
                    }
                }
            }
            Act::Promote(m, acc) | Act::Demote(m, acc) => {
                let noop_level = if matches!(act, Act::Promote(..)) { MANAGE } else { PULL };
                if !self.members.contains_key(m) {
                    return Err("modified member unknown");
                }
                self.authorised(author)?;
                let r = self.members.get_mut(m).unwrap();
                if !r.active {
                    return Err("modified member inactive");
                }
                if r.acc.0 != noop_level {
                    r.acc = *acc;
                }
                Ok(())
            }
        }
    }
}

/// All groups of one replica (linear histories).
#[derive(Clone, Debug, Default)]
pub struct Model {
    pub groups: BTreeMap<char, GroupModel>,
}

impl Model {
    fn reaches(&self, from: char, to: char) -> bool {
        let mut stack = vec![from];
        let mut seen = BTreeSet::new();
        while let Some(g) = stack.pop() {
            if !seen.insert(g) {
                continue;
            }
            if g == to {
                return true;
            }
            if let Some(gm) = self.groups.get(&g) {
                for (m, _) in gm.active() {
                    if m.0 {
                        stack.push(m.1);
                    }
                }
            }
        }
        false
    }

    /// `Ok` iff the documented rules accept the operation in this state; applies it then.
    pub fn apply(&mut self, group: char, author: char, act: &Act) -> Result<(), &'static str> {
        if let Act::Create(init) = act {
            if self.groups.contains_key(&group) {
                return Err("group already exists (outside the claimed domain)");
            }
            let mut gm = GroupModel::default();
            for (m, a) in init {
                gm.members.insert(*m, Rec { active: true, acc: *a });
            }
            self.groups.insert(group, gm);
            return Ok(());
        }
        // Groups may not be managers.
        if let Act::Add(m, a) | Act::Promote(m, a) = act {
            if m.0 && a.0 == MANAGE {
                return Err("manager groups are not allowed");
            }
        }
        if !self.groups.contains_key(&group) {
            return Err("unknown group");
        }
        if let Act::Add(m, _) = act {
            if m.0 && self.reaches(m.1, group) {
                return Err("nested group cycle");
            }
        }
        self.groups.get_mut(&group).unwrap().apply(author, act)
    }

    /// Transitive individuals of `group` with plain levels (only meaningful when no access in the
    /// traversal carries a condition): the access along a path is capped by every group access on
    /// the way, several paths give the highest.
    pub fn transitive(&self, group: char) -> (BTreeMap<char, u8>, BTreeMap<char, u8>, bool) {
        let mut individuals = BTreeMap::new();
        let mut groups = BTreeMap::new();
        let mut conditioned = false;
        self.walk(group, None, &mut individuals, &mut groups, &mut conditioned, 0);
        (individuals, groups, conditioned)
    }

    fn walk(&self, group: char, cap: Option<u8>, ind: &mut BTreeMap<char, u8>, grp: &mut BTreeMap<char, u8>, conditioned: &mut bool, depth: u32) {
        if depth > 8 {
            return;
        }
        let Some(gm) = self.groups.get(&group) else {
            return;
        };
        for (m, acc) in gm.active() {
            if acc.1.is_some() {
                *conditioned = true;
            }
            let level = cap.map(|c| c.min(acc.0)).unwrap_or(acc.0);
            let slot = if m.0 { grp.entry(m.1) } else { ind.entry(m.1) };
            let e = slot.or_insert(level);
            *e = (*e).max(level);
            if m.0 {
                self.walk(m.1, Some(level), ind, grp, conditioned, depth + 1);
            }
        }
    }
}
