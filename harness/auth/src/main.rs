//! Checks of the auth group: C31 C32 C33.
mod common;
mod model;
mod props;
mod sim;

fn main() {
    let ctx = engine::Ctx::from_args();
    match ctx.id.as_str() {
        "C31" => props::c31::run(ctx),
        "C32" => props::c32::run(ctx),
        "C33" => props::c33::run(ctx),
        other => engine::harness_error(&format!("property {other} is not served by verif-auth")),
    }
}
