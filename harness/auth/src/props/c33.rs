//! C33 Only authorized actors change group membership.
//!
//! Two oracle strengths, so that the strong-remove resolver is never re-implemented:
//!
//! * `linear_histories`: one replica, every operation depends on all current heads. An independent
//!   sequential model of the documented state rules (`crate::model`) decides acceptance:
//!   `process` is `Ok` exactly when the model accepts, and `root_members()` (with conditions),
//!   `members()` and `groups()` equal the model after every step.
//! * `concurrent_histories`: simulated replicas with partial syncs, authorised and unauthorised
//!   authors. Asserted are only consequences of the statement that hold whatever the resolver
//!   filters: (a) acceptance is a function of the operation and its declared dependencies – every
//!   replica holding the dependencies takes the same decision as the author's replica, in
//!   particular an operation whose author was a manager at its dependencies but was removed
//!   concurrently is still accepted; (b) an accepted non-create operation has a causal predecessor
//!   that handed its author `Manage` in that group (or, for a self-remove, introduced the author);
//!   (c) where the accepted operations of the same group among its predecessors are totally ordered,
//!   the strong-remove rules cannot have filtered any of them, so the state at the dependencies is
//!   their sequential replay and acceptance must equal the model's verdict exactly (both directions,
//!   nested-group adds excepted); (d) every id ever reported by `root_members()`/`members()` was the target of an
//!   accepted create or add.
//! * `revoked_author_branches`: the "accepted, then filtered" half of (a) in the one shape where the
//!   crate documentation states the outcome without ambiguity: a manager is removed/demoted while
//!   it concurrently authors operations; those are accepted into the graph but have no effect.
//!
//! "Rejected operations leave the replica unchanged" holds by construction at this API (`process`
//! consumes the state and returns it only on `Ok`; callers keep their previous value, as the
//! harness does); it is asserted in its non-vacuous form: a rejected id never shows up in
//! `operations`/`heads()` later and later operations are validated as if it had never been seen
//! (the model never sees it either).

use std::collections::BTreeSet;

use engine::proptest::prelude::*;
use engine::{CaseOk, CaseResult, Ctx, Part, ensure, ensure_eq, idx};
use p2panda_auth::group::{GroupAction, GroupMember};
use serde::{Deserialize, Serialize};

use crate::common::*;
use crate::model::{Act, GroupModel, MANAGE, Model};
use crate::sim::*;

// ---------------------------------------------------------------------------------------------
// Linear histories

#[derive(Clone, Debug, Serialize, Deserialize)]
struct LinOp {
    author: u16,
    /// 0 root, 1/2 sub-groups, 255 a group that is never created.
    group: u8,
    /// 0 add individual, 1 add group, 2 remove, 3 promote, 4 demote, 5 self-remove, 6 create group.
    kind: u8,
    target: u16,
    acc: Acc,
    /// Author picked among the current managers of the group (else among everybody).
    authorised: bool,
    /// Target picked among the candidates for which the action makes sense (else anybody).
    sensible: bool,
}

#[derive(Clone, Debug, Serialize, Deserialize)]
struct LinCase {
    actors: u8,
    initial: Vec<(u8, Acc)>,
    ops: Vec<LinOp>,
}

fn universe(actors: &[char]) -> Vec<Member> {
    let mut u: Vec<Member> = actors.iter().map(|c| (false, *c)).collect();
    u.push((false, 'Z'));
    for s in SUBS {
        u.push((true, s));
    }
    u.push((true, UNKNOWN_GROUP));
    u
}

fn check_linear(case: &LinCase) -> CaseResult {
    type C = Cond;
    let actors: Vec<char> = ACTORS[..(case.actors.clamp(2, 6) as usize)].to_vec();
    let all_groups = [ROOT, SUBS[0], SUBS[1]];
    let mut y = State::<C>::new();
    let mut model = Model::default();
    let mut next = 0u32;
    let mut rejected_ids: Vec<u32> = vec![];
    let mut accepted_by: BTreeSet<char> = BTreeSet::new();
    let mut rejected_by: BTreeSet<char> = BTreeSet::new();
    let mut labels: BTreeSet<&'static str> = BTreeSet::new();

    // The root group is created first by actor 0.
    let mut ops: Vec<(char, char, GroupAction<char, C>)> = vec![];
    {
        let mut init = vec![(GroupMember::Individual(actors[0]), access::<C>(Acc { level: 3, cond: 0 }))];
        for (i, acc) in &case.initial {
            let who = actors[idx_u8(*i, actors.len())];
            if !init.iter().any(|(m, _)| m.id() == who) {
                init.push((GroupMember::Individual(who), access::<C>(*acc)));
            }
        }
        ops.push((actors[0], ROOT, GroupAction::Create { initial_members: init }));
    }

    let mut pending = case.ops.iter();
    loop {
        let (author, group, action) = if let Some(o) = ops.pop() {
            o
        } else if let Some(o) = pending.next() {
            // Build the operation from the generated seeds and the model's current view (the
            // generator may look at the model; the oracle below compares code and model).
            let g = match o.group {
                255 => UNKNOWN_GROUP,
                k => all_groups[idx_u8(k, 3)],
            };
            let gm = model.groups.get(&g).cloned().unwrap_or_default();
            let managers: Vec<char> = actors.iter().copied().filter(|a| gm.is_manager(*a)).collect();
            let author = if o.authorised && !managers.is_empty() {
                managers[idx(o.author, managers.len())]
            } else {
                let mut everybody = actors.clone();
                everybody.push('Z');
                everybody[idx(o.author, everybody.len())]
            };
            let uni = universe(&actors);
            let active: Vec<Member> = gm.active().iter().map(|(m, _)| *m).collect();
            let inactive: Vec<Member> = uni.iter().copied().filter(|m| !active.contains(m)).collect();
            let pick = |c: &[Member]| -> Option<Member> { if c.is_empty() { None } else { Some(c[idx(o.target, c.len())]) } };
            let a_c = access::<C>(o.acc);
            let action = match o.kind {
                0 | 1 => {
                    let want_group = o.kind == 1;
                    let cands: Vec<Member> = if o.sensible {
                        inactive.iter().copied().filter(|m| m.0 == want_group && (!m.0 || (nesting_allowed(g, m.1) && m.1 != UNKNOWN_GROUP))).collect()
                    } else {
                        uni.iter().copied().filter(|m| m.0 == want_group && (!m.0 || nesting_allowed(g, m.1) || m.1 == g)).collect()
                    };
                    let Some(m) = pick(&cands) else { continue };
                    let mut acc = o.acc;
                    if m.0 && o.sensible && acc.level == 3 {
                        acc.level = 2;
                    }
                    GroupAction::Add {
                        member: member_of(m),
                        access: access::<C>(acc),
                    }
                }
                2 => {
                    let cands = if o.sensible { active.clone() } else { uni.clone() };
                    let Some(m) = pick(&cands) else { continue };
                    GroupAction::Remove { member: member_of(m) }
                }
                3 | 4 => {
                    let cands = if o.sensible { active.clone() } else { uni.clone() };
                    let Some(m) = pick(&cands) else { continue };
                    let mut acc = o.acc;
                    let current = gm.members.get(&m).map(|r| r.acc.0);
                    // Callers promote upwards and demote downwards; groups are never asked to
                    // become managers through demote (no documented refusal exists for that).
                    let mut promote = o.kind == 3;
                    if let Some(c) = current {
                        if acc.level > c {
                            promote = true;
                        } else if acc.level < c {
                            promote = false;
                        }
                    }
                    if m.0 && acc.level == 3 && (!promote || o.sensible) {
                        acc.level = 2;
                    }
                    if promote {
                        GroupAction::Promote {
                            member: member_of(m),
                            access: access::<C>(acc),
                        }
                    } else {
                        GroupAction::Demote {
                            member: member_of(m),
                            access: access::<C>(acc),
                        }
                    }
                }
                5 => GroupAction::Remove {
                    member: GroupMember::Individual(author),
                },
                _ => {
                    // Create a sub-group once (re-creating an existing id is outside the domain).
                    let Some(sg) = SUBS.iter().copied().find(|s| !model.groups.contains_key(s)) else { continue };
                    let creator = actors[idx(o.author, actors.len())];
                    let mut init = vec![(GroupMember::Individual(creator), access::<C>(Acc { level: 3, cond: 0 }))];
                    let other = actors[idx(o.target, actors.len())];
                    if other != creator {
                        init.push((GroupMember::Individual(other), a_c));
                    }
                    ops.push((creator, sg, GroupAction::Create { initial_members: init }));
                    continue;
                }
            };
            (author, g, action)
        } else {
            break;
        };

        let id = op_id(next);
        next += 1;
        let op = Op {
            id,
            author,
            deps: sorted_heads(&y),
            group,
            action,
        };
        let act = act_of(&op.action);
        let expected = {
            let mut m2 = model.clone();
            let r = m2.apply(group, author, &act);
            if r.is_ok() {
                model = m2;
            }
            r
        };
        let got = try_process(&y, &op);
        match (&got, &expected) {
            (Ok(y2), Ok(())) => {
                y = y2.clone();
                accepted_by.insert(author);
                ensure_eq!(sorted_heads(&y), vec![id], "after an accepted operation on a linear history the only head is that operation");
            }
            (Err(rej), Err(why)) => {
                rejected_ids.push(id);
                rejected_by.insert(author);
                if rej.is_panic() {
                    // Only expected for operations on a group that was never created.
                    if *why == "unknown group" {
                        labels.insert("panic_on_unknown_group");
                    } else {
                        labels.insert("panic_instead_of_error");
                    }
                }
                match *why {
                    "actor unknown to the group" | "actor inactive" | "actor lacks manage access" | "actor lacks manage access and is not removing itself" => {
                        labels.insert("rejected_unauthorised_author");
                    }
                    "manager groups are not allowed" => {
                        labels.insert("rejected_manager_group");
                    }
                    "nested group cycle" => {
                        labels.insert("rejected_group_cycle");
                    }
                    "unknown group" => {
                        labels.insert("rejected_unknown_group");
                    }
                    _ => {
                        labels.insert("rejected_invalid_action_by_manager");
                    }
                }
            }
            (Ok(_), Err(why)) => {
                return Err(format!(
                    "operation accepted although the documented rules reject it ({why}): author {author} in group {group}: {act:?}; direct members before: {:?}",
                    model.groups.get(&group).map(|g| g.active())
                ));
            }
            (Err(rej), Ok(())) => {
                return Err(format!(
                    "operation rejected ({rej:?}) although the author is authorised and the action is valid: author {author} in group {group}: {act:?}"
                ));
            }
        }
        if matches!(act, Act::Remove(m) if m == (false, author)) && got.is_ok() {
            labels.insert("accepted_self_remove");
        }

        // The replica equals the model after every step.
        for g in all_groups {
            let want_root: Obs = model.groups.get(&g).map(|gm| gm.active()).unwrap_or_default();
            ensure_eq!(obs_root(&y, g), want_root, "root_members({g}) differs from the sequential model after op by {author}: {act:?}");
            let (ind, grp, conditioned) = model.transitive(g);
            let got_m = obs_members(&y, g);
            let got_g = obs_groups(&y, g);
            if conditioned {
                ensure_eq!(got_m.iter().map(|(m, _)| m.1).collect::<Vec<_>>(), ind.keys().copied().collect::<Vec<_>>(), "members({g}) ids differ from the model");
                ensure_eq!(got_g.iter().map(|(m, _)| m.1).collect::<Vec<_>>(), grp.keys().copied().collect::<Vec<_>>(), "groups({g}) ids differ from the model");
            } else {
                let want_m: Obs = ind.iter().map(|(c, l)| ((false, *c), (*l, None))).collect();
                let want_g: Obs = grp.iter().map(|(c, l)| ((true, *c), (*l, None))).collect();
                ensure_eq!(got_m, want_m, "members({g}) differs from the model");
                ensure_eq!(got_g, want_g, "groups({g}) differs from the model");
            }
        }
        for r in &rejected_ids {
            ensure!(!y.inner.operations.contains_key(r), "a rejected operation is stored in the replica");
            ensure!(!y.inner.graph.contains_node(*r), "a rejected operation is part of the replica's graph");
        }
    }

    let both = accepted_by.intersection(&rejected_by).count() > 0;
    let mut ok = CaseOk::nontrivial(both);
    for l in labels {
        ok = ok.label(l);
    }
    Ok(ok.label_if(model.groups.len() > 1, "sub_group_created"))
}

fn lin_case() -> impl Strategy<Value = LinCase> {
    let op = (
        any::<u16>(),
        prop_oneof![8 => Just(0u8), 4 => 1u8..3, 1 => Just(255u8)],
        prop_oneof![4 => Just(0u8), 2 => Just(1u8), 4 => Just(2u8), 3 => Just(3u8), 3 => Just(4u8), 1 => Just(5u8), 2 => Just(6u8)],
        any::<u16>(),
        acc_strategy(2),
        prop::bool::weighted(0.6),
        prop::bool::weighted(0.7),
    )
        .prop_map(|(author, group, kind, target, acc, authorised, sensible)| LinOp {
            author,
            group,
            kind,
            target,
            acc,
            authorised,
            sensible,
        });
    (3u8..=6, prop::collection::vec((1u8..6, acc_strategy(2)), 0..=4), prop::collection::vec(op, 1..=30)).prop_map(|(actors, initial, ops)| LinCase { actors, initial, ops })
}

// ---------------------------------------------------------------------------------------------
// Concurrent histories

/// Sequential replay of the accepted operations of one group that precede an operation, if they
/// are totally ordered by causality (`None` otherwise, or if the group's create is not among
/// them). Strong-remove filtering and mutual-remove handling only ever involve *concurrent*
/// operations of the same group, and merging an older state of a group into a newer one of the same
/// chain returns the newer one, so for such an operation "the state at its declared dependencies"
/// is, for that group, exactly this replay - whatever happened concurrently in other groups.
fn chain_replay<C>(preds: &[&OpInfo<C>]) -> Option<GroupModel> {
    for pair in preds.windows(2) {
        if !pair[1].ancestors.contains(&pair[0].op.id) {
            return None;
        }
    }
    let first = preds.first()?;
    let Act::Create(init) = &first.act else { return None };
    let mut gm = GroupModel::default();
    for (m, a) in init {
        gm.members.insert(*m, crate::model::Rec { active: true, acc: *a });
    }
    for p in &preds[1..] {
        // Every accepted operation stays in the graph; one that is invalid at replay time cannot
        // occur on a chain (it was validated against exactly this state), but is skipped like the
        // code does.
        let _ = gm.apply(p.op.author, &p.act);
    }
    Some(gm)
}

fn check_concurrent(h: &History) -> CaseResult {
    type C = Cond;
    let mut w = World::<C>::new(h)?;
    let n = w.replicas.len();
    let mut labels: BTreeSet<&'static str> = BTreeSet::new();
    let mut rejected: Vec<u32> = vec![];

    for step in &h.steps {
        match step {
            Step::Act {
                actor,
                group,
                kind,
                target,
                acc,
                any_actor,
                wild,
            } => {
                let Some((a, g, action)) = w.plan(*actor, *group, *kind, *target, *acc, *any_actor, *wild) else { continue };
                match w.author(a, g, action) {
                    Ok(id) => {
                        // (d) on the author's replica right away.
                        introduced_only(&w, a, &[g])?;
                        let _ = id;
                    }
                    Err(rej) => {
                        let id = *w.order.last().unwrap();
                        if rej.is_panic() {
                            labels.insert(if g == UNKNOWN_GROUP { "panic_on_unknown_group" } else { "panic_on_known_group" });
                        }
                        rejected.push(id);
                        // (a) every replica that already holds the dependencies rejects it too.
                        offer_rejected(&w, id, "at creation time")?;
                    }
                }
            }
            Step::Sync { from, to } => w.sync(idx_u8(*from, n), idx_u8(*to, n))?,
            Step::SyncAll => w.sync_all()?,
        }
    }
    w.sync_all()?;

    // (a) again with complete replicas.
    for id in &rejected {
        offer_rejected(&w, *id, "after the final sync")?;
    }
    for r in &w.replicas {
        for id in &rejected {
            ensure!(!r.y.inner.operations.contains_key(id), "a rejected operation is stored in a replica");
            ensure!(!r.y.heads().contains(id), "a rejected operation is a head of a replica");
        }
    }

    // (b), (c) for every accepted non-create operation.
    let accepted = w.accepted_ids();
    if std::env::var("VERIF_AUTH_TRACE").is_ok() {
        for id in &w.order {
            let i = &w.ops[id];
            eprintln!("#{} id={} accepted={} {} {:?}", i.index, i.op.id, i.accepted, describe(i), i.rejection);
        }
    }
    let mut chain_checked = 0usize;
    let mut not_chain = 0usize;
    for id in &w.order {
        let info = &w.ops[id];
        if matches!(info.act, Act::Create(_)) {
            continue;
        }
        let who = info.op.author;
        let self_remove = matches!(info.act, Act::Remove(m) if m == (false, who));
        // Accepted predecessors in the same group, in creation order (a linear extension).
        let preds: Vec<&OpInfo<C>> = accepted.iter().map(|p| &w.ops[p]).filter(|p| info.ancestors.contains(&p.op.id) && p.op.group == info.op.group).collect();
        if info.accepted {
            // (b)
            let granted = preds.iter().any(|p| p.act.grants_manage_to(who));
            let introduced = preds.iter().any(|p| p.act.introduces((false, who)));
            ensure!(
                granted || (self_remove && introduced),
                "operation #{} ({}) was accepted although no create/add/promote among its causal predecessors ever gave {who} Manage in group {}{}",
                info.index,
                describe(info),
                info.op.group,
                if self_remove { " nor introduced it as a member" } else { "" }
            );
        }
        // (c) exact decision where the group's history below the operation is linear.
        match chain_replay(&preds) {
            None if preds.is_empty() => {
                ensure!(!info.accepted, "operation #{} ({}) on a group that was never created was accepted", info.index, describe(info));
            }
            None => not_chain += 1,
            Some(mut gm) => {
                chain_checked += 1;
                let verdict = gm.apply(who, &info.act);
                if info.accepted {
                    ensure!(
                        verdict.is_ok(),
                        "operation #{} ({}) was accepted although the documented rules reject it ({}) in the state at its dependencies (the {} earlier operations of group {} are totally ordered, so that state is their sequential replay)",
                        info.index,
                        describe(info),
                        verdict.err().unwrap_or(""),
                        preds.len(),
                        info.op.group
                    );
                } else {
                    // Nested-group adds can also be refused because of other groups' state
                    // (cycles) and groups may never be managers: not decided by this replay.
                    let group_target = info.act.target().map(|m| m.0).unwrap_or(false);
                    let undecided = group_target && matches!(info.act, Act::Add(..) | Act::Promote(..));
                    if !undecided {
                        ensure!(
                            verdict.is_err(),
                            "operation #{} ({}) was rejected ({:?}) although its author is authorised and the action is valid in the state at its dependencies (the {} earlier operations of group {} are totally ordered)",
                            info.index,
                            describe(info),
                            info.rejection,
                            preds.len(),
                            info.op.group
                        );
                    }
                }
            }
        }
    }

    // (d) on every replica.
    let groups = w.groups.clone();
    for r in 0..n {
        introduced_only(&w, r, &groups)?;
    }

    // Classification.
    let acc_by: BTreeSet<char> = accepted.iter().map(|i| &w.ops[i]).filter(|i| !matches!(i.act, Act::Create(_))).map(|i| i.op.author).collect();
    let rej_by: BTreeSet<char> = rejected.iter().map(|i| w.ops[i].op.author).collect();
    let both = acc_by.intersection(&rej_by).count() > 0;
    let any_conc = accepted.iter().enumerate().any(|(i, a)| accepted[i + 1..].iter().any(|b| concurrent(&w.ops[a], &w.ops[b])));
    let mut ok = CaseOk::nontrivial(both)
        .label_if(w.stale_deliveries > 0, "stale_authorised_operation_delivered_after_revocation")
        .label_if(any_conc, "has_concurrent_operations")
        .label_if(!rejected.is_empty(), "has_rejected_operations")
        .label_if(chain_checked > 0, "exact_decision_on_linear_group_history")
        .label_if(not_chain > 0, "operation_below_concurrent_group_history")
        .label_if(accepted.len() >= 10, "ten_or_more_accepted");
    for l in labels {
        ok = ok.label(l);
    }
    Ok(ok)
}

/// Every replica that holds all dependencies of a rejected operation must reject it as well.
fn offer_rejected(w: &World<Cond>, id: u32, when: &str) -> Result<(), String> {
    let info = &w.ops[&id];
    for (i, r) in w.replicas.iter().enumerate() {
        if !info.op.deps.iter().all(|d| r.has.contains(d)) {
            continue;
        }
        if try_process(&r.y, &info.op).is_ok() {
            return Err(format!(
                "operation #{} ({}) was rejected by its author's replica ({:?}) but accepted by replica {} {when}: acceptance depends on more than the state at the declared dependencies",
                info.index,
                describe(info),
                info.rejection,
                w.actors[i]
            ));
        }
    }
    Ok(())
}

/// (d): ids reported by replica `r` were introduced by an accepted create/add the replica holds.
fn introduced_only(w: &World<Cond>, r: usize, groups: &[char]) -> Result<(), String> {
    let rep = &w.replicas[r];
    let held: Vec<&OpInfo<Cond>> = rep.log.iter().map(|id| &w.ops[id]).collect();
    for g in groups {
        if *g == UNKNOWN_GROUP {
            continue;
        }
        for (m, _) in obs_root(&rep.y, *g) {
            ensure!(
                held.iter().any(|i| i.op.group == *g && i.act.introduces(m)),
                "replica {} reports {m:?} as a direct member of group {g} but holds no accepted create/add introducing it",
                w.actors[r]
            );
        }
        // Transitive: introduced in g or in a group that was itself introduced (transitively).
        let mut closure: BTreeSet<char> = BTreeSet::from([*g]);
        loop {
            let more: Vec<char> = held
                .iter()
                .filter(|i| closure.contains(&i.op.group))
                .flat_map(|i| match &i.act {
                    Act::Create(init) => init.iter().map(|(m, _)| *m).collect::<Vec<_>>(),
                    Act::Add(m, _) => vec![*m],
                    _ => vec![],
                })
                .filter(|m| m.0 && !closure.contains(&m.1))
                .map(|m| m.1)
                .collect();
            if more.is_empty() {
                break;
            }
            closure.extend(more);
        }
        for (m, _) in obs_members(&rep.y, *g) {
            ensure!(
                held.iter().any(|i| closure.contains(&i.op.group) && i.act.introduces(m)),
                "replica {} reports {m:?} as a member of group {g} but holds no accepted create/add introducing it there or in a nested group",
                w.actors[r]
            );
        }
    }
    Ok(())
}

// ---------------------------------------------------------------------------------------------
// Revoked author: two branches (documented strong-remove rules 1, 3 and 4 in their simplest form)

#[derive(Clone, Debug, Serialize, Deserialize)]
struct SimpleOp {
    /// 0 add a fresh individual, 1 remove, 2 change access.
    kind: u8,
    target: u16,
    acc: Acc,
}

#[derive(Clone, Debug, Serialize, Deserialize)]
struct BranchCase {
    /// Initial members C, D (present or not) besides the managers A and B; never managers.
    c: Option<Acc>,
    d: Option<Acc>,
    /// A's branch: `None` = A removes B, `Some(level 0..=2)` = A demotes B below Manage.
    demote_to: Option<Acc>,
    /// After a removal A may re-add B.
    readd: Option<Acc>,
    /// Further operations of A after the revocation (on C, D, E only).
    a_ops: Vec<SimpleOp>,
    /// B's concurrent operations (on C, D, F only; never on A or B).
    b_ops: Vec<SimpleOp>,
    /// A member B made a manager continues with an operation of its own.
    follow: bool,
    /// Delivery order keys of the fresh replica.
    order: Vec<u16>,
}

fn simple_action(view: &Obs, me: char, pool: &[char], op: &SimpleOp) -> Option<GroupAction<char, Cond>> {
    let touchable: Vec<Member> = view.iter().map(|(m, _)| *m).filter(|m| !m.0 && m.1 != 'A' && m.1 != 'B' && m.1 != me).collect();
    match op.kind % 3 {
        0 => {
            let fresh: Vec<char> = pool.iter().copied().filter(|c| !view.iter().any(|(m, _)| *m == (false, *c))).collect();
            if fresh.is_empty() {
                return None;
            }
            Some(GroupAction::Add {
                member: GroupMember::Individual(fresh[idx(op.target, fresh.len())]),
                access: access::<Cond>(op.acc),
            })
        }
        1 => {
            if touchable.is_empty() {
                return None;
            }
            Some(GroupAction::Remove {
                member: member_of(touchable[idx(op.target, touchable.len())]),
            })
        }
        _ => {
            if touchable.is_empty() {
                return None;
            }
            let m = touchable[idx(op.target, touchable.len())];
            let current = view.iter().find(|(x, _)| *x == m).map(|(_, a)| a.0).unwrap_or(0);
            if op.acc.level >= current {
                Some(GroupAction::Promote {
                    member: member_of(m),
                    access: access::<Cond>(op.acc),
                })
            } else {
                Some(GroupAction::Demote {
                    member: member_of(m),
                    access: access::<Cond>(op.acc),
                })
            }
        }
    }
}

fn check_branches(case: &BranchCase) -> CaseResult {
    type C = Cond;
    let clamp = |a: Acc| Acc { level: a.level.min(2), cond: a.cond };
    let mut initial = vec![(1u8, Acc { level: 3, cond: 0 })];
    if let Some(a) = case.c {
        initial.push((2, clamp(a)));
    }
    if let Some(a) = case.d {
        initial.push((3, clamp(a)));
    }
    let h = History {
        actors: 6,
        subs: 0,
        initial,
        sub_initial: vec![],
        steps: vec![],
    };
    let mut w = World::<C>::new(&h)?;
    let (a, b, f) = (0usize, 1usize, 5usize);

    // A's branch.
    let mut a_branch: Vec<u32> = vec![];
    let revoke = match case.demote_to {
        None => GroupAction::Remove {
            member: GroupMember::Individual('B'),
        },
        Some(acc) => GroupAction::Demote {
            member: GroupMember::Individual('B'),
            access: access::<C>(clamp(acc)),
        },
    };
    a_branch.push(w.author(a, ROOT, revoke).map_err(|e| format!("A's revocation of B was rejected on A's own replica: {e:?}"))?);
    if let (None, Some(acc)) = (case.demote_to, case.readd) {
        a_branch.push(
            w.author(
                a,
                ROOT,
                GroupAction::Add {
                    member: GroupMember::Individual('B'),
                    access: access::<C>(acc),
                },
            )
            .map_err(|e| format!("A's re-add of B was rejected on A's own replica: {e:?}"))?,
        );
    }
    for op in &case.a_ops {
        let view = obs_root(&w.replicas[a].y, ROOT);
        if let Some(action) = simple_action(&view, 'A', &['E'], op) {
            if let Ok(id) = w.author(a, ROOT, action) {
                a_branch.push(id);
            }
        }
    }

    // B's concurrent branch (B has only seen the create).
    let before_b = obs_root(&w.replicas[b].y, ROOT);
    let mut b_accepted = 0usize;
    let mut made_manager: Option<char> = None;
    for op in &case.b_ops {
        let view = obs_root(&w.replicas[b].y, ROOT);
        if let Some(action) = simple_action(&view, 'B', &['F', 'D'], op) {
            if let GroupAction::Add { member, access } = &action {
                if access.is_manage() && member.id() == 'F' {
                    made_manager = Some('F');
                }
            }
            if w.author(b, ROOT, action).is_ok() {
                b_accepted += 1;
            }
        }
    }
    let b_changed_its_view = obs_root(&w.replicas[b].y, ROOT) != before_b;
    let mut followed = false;
    if case.follow && made_manager == Some('F') && obs_root(&w.replicas[b].y, ROOT).iter().any(|(m, a)| *m == (false, 'F') && a.0 == MANAGE) {
        w.sync(b, f)?;
        let view = obs_root(&w.replicas[f].y, ROOT);
        let action = if view.iter().any(|(m, _)| *m == (false, 'D')) {
            GroupAction::Remove {
                member: GroupMember::Individual('D'),
            }
        } else {
            GroupAction::Add {
                member: GroupMember::Individual('D'),
                access: access::<C>(Acc { level: 1, cond: 0 }),
            }
        };
        followed = w.author(f, ROOT, action).is_ok();
        w.sync(f, b)?;
    }

    // Expected: the sequential replay of the create and A's branch only.
    let create = &w.ops[&w.order[0]];
    let Act::Create(init) = &create.act else { return Err("harness: first operation is not the create".into()) };
    let mut gm = GroupModel::default();
    for (m, acc) in init {
        gm.members.insert(*m, crate::model::Rec { active: true, acc: *acc });
    }
    for id in &a_branch {
        let info = &w.ops[id];
        gm.apply('A', &info.act).map_err(|e| format!("harness: A's own branch is not valid in the model: {e} ({})", describe(info)))?;
    }
    let want: Obs = gm.active();

    // Everybody gets everything: A after B's branch, B after A's, a fresh replica in a generated order.
    w.sync(b, a)?;
    w.sync(a, b)?;
    let set = w.accepted_ids();
    let mut fresh = Replica::<C>::new();
    let mut remaining = set.clone();
    let mut pos = 0usize;
    while !remaining.is_empty() {
        let ready: Vec<usize> = (0..remaining.len()).filter(|i| w.ops[&remaining[*i]].op.deps.iter().all(|d| fresh.has.contains(d))).collect();
        if ready.is_empty() {
            return Err("harness: no deliverable operation although some remain".into());
        }
        let pick = ready[idx(case.order.get(pos).copied().unwrap_or(0), ready.len())];
        pos += 1;
        let id = remaining.remove(pick);
        let info = &w.ops[&id];
        fresh.process(&info.op).map_err(|rej| format!("fresh replica rejected operation #{} ({}) that its author's replica accepted: {rej:?}", info.index, describe(info)))?;
    }
    for (name, y) in [("replica A", &w.replicas[a].y), ("replica B", &w.replicas[b].y), ("fresh replica", &fresh.y)] {
        ensure_eq!(
            obs_root(y, ROOT),
            want,
            "{name}: B was {} by A concurrently with B's own {} accepted operation(s){}; the documented rule invalidates all of them, so the direct members must be those of A's branch alone",
            if case.demote_to.is_some() { "demoted below Manage" } else { "removed" },
            b_accepted,
            if followed { " (and one by a manager B had added)" } else { "" }
        );
    }
    Ok(CaseOk::nontrivial(b_accepted > 0 && b_changed_its_view)
        .label_if(case.demote_to.is_some(), "revocation_is_demotion")
        .label_if(case.demote_to.is_none() && case.readd.is_some(), "removed_then_readded_by_remover")
        .label_if(followed, "transitive_operation_by_member_added_by_revoked_author")
        .label_if(a_branch.len() > 1, "remover_continues")
        .label_if(b_accepted >= 3, "three_or_more_concurrent_operations_by_revoked_author"))
}

fn branch_case() -> impl Strategy<Value = BranchCase> {
    let low = || (0u8..3, 0u8..=2).prop_map(|(level, cond)| Acc { level, cond });
    let sop = || (0u8..3, any::<u16>(), acc_strategy(2)).prop_map(|(kind, target, acc)| SimpleOp { kind, target, acc });
    (
        prop::option::of(low()),
        prop::option::of(low()),
        prop::option::weighted(0.4, low()),
        prop::option::weighted(0.3, acc_strategy(2)),
        prop::collection::vec(sop(), 0..=3),
        prop::collection::vec(sop(), 1..=5),
        any::<bool>(),
        prop::collection::vec(any::<u16>(), 0..=12),
    )
        .prop_map(|(c, d, demote_to, readd, a_ops, b_ops, follow, order)| BranchCase {
            c,
            d,
            demote_to,
            readd,
            a_ops,
            b_ops,
            follow,
            order,
        })
}

pub fn run(mut ctx: Ctx) -> ! {
    ctx.assume("each group id is created once (as every caller does); operations reach a replica only after all their dependencies were accepted there");
    ctx.assume("promote is only asked to raise and demote to lower where the author can see the current level; groups are never asked to become managers through demote");
    ctx.assume("a panic of process on an operation for a group that was never created is recorded as a label and counted as a rejection (the property speaks about acceptance)");
    ctx.run_prop(
        Part::new(
            "linear_histories",
            "one replica, root group + up to 2 sub-groups created on the way, 1-30 operations each depending on all current heads: adds (individuals, nested groups, manager groups), removes, promotions, demotions, self-removes by managers, plain members, removed members and strangers, on active/inactive/unknown targets, a few on a never-created group; conditions none/0/1. process Ok <=> independent sequential model accepts; root_members/members/groups equal the model after every step; non-trivial = some author has both an accepted and a rejected operation",
            40_000,
            600_000,
        )
        .min_nontrivial(0.3)
        .shrink_iters(800),
        lin_case,
        check_linear,
    );
    let steps = ctx.pick(26, 44);
    ctx.run_prop(
        Part::new(
            "concurrent_histories",
            "3-6 actors each with a replica, root + 0-2 sub-groups, 3-26 (thorough 44) steps: actions by managers (own view) mixed with 35% actions by arbitrary actors and 20% arbitrary targets, partial and full syncs; rejected operations are offered to every replica holding their dependencies. Necessary conditions (a)-(d) of the module doc; non-trivial = some author has both an accepted and a rejected operation",
            10_000,
            100_000,
        )
        .min_nontrivial(0.2)
        .shrink_iters(400),
        move || {
            history_strategy(
                2,
                steps,
                StepWeights {
                    unauthorised: 35,
                    wild: 20,
                    unknown_group: 1,
                },
            )
        },
        check_concurrent,
    );
    ctx.run_prop(
        Part::new(
            "revoked_author_branches",
            "root group with managers A and B (+ optional plain members C, D); A removes B or demotes B below Manage (optionally re-adds B, continues with 0-3 operations on C/D/E) while B, not having seen that, authors 1-5 operations of its own (adds of fresh members incl. managers, removes, access changes on C/D/F; optionally a manager added by B acts too). Documented strong-remove rules (crate docs: concurrent actions of a removed/demoted manager are invalidated, also after a re-add, and transitively): every replica accepts all operations and its direct members equal the sequential replay of A's branch alone (independent model), in both arrival orders and a generated third; non-trivial = B's operations changed B's own view",
            20_000,
            400_000,
        )
        .min_nontrivial(0.5),
        branch_case,
        check_branches,
    );
    ctx.finish()
}
