//! C31 Replicas of a group converge to the same membership and access.
//!
//! Generator: simulated replicas (one per actor) author adds, removes, promotions, demotions,
//! nested group adds and self-removes on top of their own heads and exchange operations through
//! generated partial syncs, which produces concurrent branches. The final set of accepted
//! operations is then also fed to fresh replicas in generated linear extensions of the causal
//! order. Oracle (metamorphic): every replica that processed the whole set reports the same sorted
//! `members()`, `root_members()` and `groups()` for every group, access conditions included, and a
//! replica that holds all dependencies of an operation its author's replica accepted accepts it as
//! well; repeating a query on one replica gives the same answer.

use std::collections::BTreeSet;

use engine::proptest::prelude::*;
use engine::{CaseOk, CaseResult, Ctx, Part, idx};
use serde::{Deserialize, Serialize};

use crate::common::*;
use crate::model::Act;
use crate::sim::*;

#[derive(Clone, Debug, Serialize, Deserialize)]
struct Case {
    history: History,
    /// Sort keys choosing, per fresh replica, the next operation among the deliverable ones.
    orders: Vec<Vec<u16>>,
}

const REPEATS: usize = 6;

type Snapshot = Vec<(char, Obs, Obs, Obs)>;

fn snapshot<C: CondKind>(y: &State<C>, groups: &[char]) -> Snapshot {
    groups.iter().map(|g| (*g, obs_members(y, *g), obs_root(y, *g), obs_groups(y, *g))).collect()
}

fn check<C: CondKind>(case: &Case) -> CaseResult {
    let h = &case.history;
    let mut w = World::<C>::new(h)?;
    let n = w.replicas.len();
    let mut rejected_by_author = 0usize;
    for step in &h.steps {
        match step {
            Step::Act {
                actor,
                group,
                kind,
                target,
                acc,
                any_actor,
                wild,
            } => {
                if let Some((a, g, action)) = w.plan(*actor, *group, *kind, *target, *acc, *any_actor, *wild) {
                    match w.author(a, g, action) {
                        Ok(_) => {}
                        Err(Rej::Panic(p)) => return Err(format!("process panicked on an operation authored on the actor's own heads: {p}")),
                        Err(_) => rejected_by_author += 1,
                    }
                }
            }
            Step::Sync { from, to } => w.sync(idx_u8(*from, n), idx_u8(*to, n))?,
            Step::SyncAll => w.sync_all()?,
        }
    }

    let set = w.accepted_ids();
    if std::env::var("VERIF_AUTH_TRACE").is_ok() {
        for id in &w.order {
            let i = &w.ops[id];
            eprintln!("#{} id={} accepted={} {}", i.index, i.op.id, i.accepted, describe(i));
        }
    }

    // Fresh replicas: generated linear extensions of the causal order.
    let mut fresh: Vec<(String, State<C>)> = vec![];
    for (k, keys) in case.orders.iter().enumerate() {
        let mut r = Replica::<C>::new();
        let mut remaining: Vec<u32> = set.clone();
        let mut pos = 0usize;
        while !remaining.is_empty() {
            let ready: Vec<usize> = (0..remaining.len())
                .filter(|i| w.ops[&remaining[*i]].op.deps.iter().all(|d| r.has.contains(d)))
                .collect();
            if ready.is_empty() {
                return Err("harness: no deliverable operation although some remain".into());
            }
            let pick = ready[idx(keys.get(pos).copied().unwrap_or(0), ready.len())];
            pos += 1;
            let id = remaining.remove(pick);
            let info = &w.ops[&id];
            r.process(&info.op).map_err(|rej| {
                format!(
                    "fresh replica (order {k}) rejected operation #{} ({}) that its author's replica accepted: {:?}",
                    info.index,
                    describe(info),
                    rej
                )
            })?;
        }
        fresh.push((format!("fresh replica with delivery order {k}"), r.y));
    }

    // Authoring replicas complete their sets too (each in its own arrival order).
    w.sync_all()?;
    for r in &w.replicas {
        if r.has.len() != set.len() {
            return Err("harness: authoring replica is incomplete after the final sync".into());
        }
    }

    let groups = w.groups.clone();
    if std::env::var("VERIF_AUTH_TRACE").is_ok() {
        for (i, r) in w.replicas.iter().enumerate() {
            for g in &groups {
                eprintln!("replica {} root_members({g}) = {:?}", w.actors[i], obs_root(&r.y, *g));
                eprintln!("replica {} members({g}) = {:?}", w.actors[i], obs_members(&r.y, *g));
            }
        }
    }
    let mut views: Vec<(String, Snapshot)> = vec![];
    for (i, r) in w.replicas.iter().enumerate() {
        let first = snapshot(&r.y, &groups);
        for rep in 1..REPEATS {
            let again = snapshot(&r.y, &groups);
            if again != first {
                return Err(format!(
                    "replica {} answered the same queries differently on repetition {rep}: first={:?} later={:?}",
                    w.actors[i],
                    diff(&first, &again).0,
                    diff(&first, &again).1
                ));
            }
        }
        views.push((format!("replica {}", w.actors[i]), first));
    }
    for (name, y) in &fresh {
        let first = snapshot(y, &groups);
        for rep in 1..REPEATS {
            let again = snapshot(y, &groups);
            if again != first {
                return Err(format!(
                    "{name} answered the same queries differently on repetition {rep}: first={:?} later={:?}",
                    diff(&first, &again).0,
                    diff(&first, &again).1
                ));
            }
        }
        views.push((name.clone(), first));
    }
    for (name, v) in &views[1..] {
        if *v != views[0].1 {
            let (a, b) = diff(&views[0].1, v);
            return Err(format!(
                "{} and {name} processed the same {} operations but disagree: {:?} vs {:?}",
                views[0].0,
                set.len(),
                a,
                b
            ));
        }
    }

    // Classification.
    let infos: Vec<&OpInfo<C>> = set.iter().map(|id| &w.ops[id]).collect();
    let mut any_concurrent = false;
    let mut same_member = false;
    let mut remove_vs_author = false;
    let mut access_conflict = false;
    for (i, a) in infos.iter().enumerate() {
        for b in &infos[i + 1..] {
            if !concurrent(a, b) {
                continue;
            }
            any_concurrent = true;
            if a.op.group != b.op.group {
                continue;
            }
            let (ta, tb) = (a.act.target(), b.act.target());
            if ta.is_some() && ta == tb {
                same_member = true;
                let acc_of = |x: &Act| match x {
                    Act::Add(_, c) | Act::Promote(_, c) | Act::Demote(_, c) => Some(*c),
                    _ => None,
                };
                if let (Some(x), Some(y)) = (acc_of(&a.act), acc_of(&b.act)) {
                    if x != y {
                        access_conflict = true;
                    }
                }
            }
            let revokes = |x: &OpInfo<C>, who: char| match &x.act {
                Act::Remove(m) => *m == (false, who),
                Act::Demote(m, c) => *m == (false, who) && c.0 != 3,
                _ => false,
            };
            if revokes(a, b.op.author) || revokes(b, a.op.author) {
                remove_vs_author = true;
                same_member = true;
            }
        }
    }
    let nested = infos.iter().any(|i| matches!(i.act, Act::Add((true, _), _)));
    let nested_cycle = groups.iter().any(|g| views[0].1.iter().any(|(gg, _, _, grp)| gg == g && grp.iter().any(|(m, _)| m.1 == *g)));
    let conditions = infos.iter().any(|i| match &i.act {
        Act::Add(_, c) | Act::Promote(_, c) | Act::Demote(_, c) => c.1.is_some(),
        Act::Create(init) => init.iter().any(|(_, c)| c.1.is_some()),
        _ => false,
    });
    let heads = sorted_heads(&w.replicas[0].y).len();
    let distinct_authors: BTreeSet<char> = infos.iter().map(|i| i.op.author).collect();
    Ok(CaseOk::nontrivial(same_member)
        .label_if(any_concurrent, "has_concurrent_operations")
        .label_if(same_member, "concurrent_branches_touch_same_member")
        .label_if(remove_vs_author, "removal_or_demotion_concurrent_with_action_of_its_target")
        .label_if(access_conflict, "concurrent_different_access_for_same_member")
        .label_if(nested, "nested_group_added")
        .label_if(nested_cycle, "nested_group_cycle_from_concurrent_adds")
        .label_if(conditions, "uses_conditions")
        .label_if(rejected_by_author > 0, "some_action_rejected_by_its_author")
        .label_if(heads > 1, "final_state_has_several_heads")
        .label_if(distinct_authors.len() >= 3, "three_or_more_authors")
        .label_if(set.len() >= 10, "ten_or_more_operations")
        .label_if(set.len() >= 20, "twenty_or_more_operations"))
}

/// First group and query where two snapshots differ.
fn diff(a: &Snapshot, b: &Snapshot) -> (String, String) {
    for (x, y) in a.iter().zip(b) {
        if x.1 != y.1 {
            return (format!("members({}) = {:?}", x.0, x.1), format!("{:?}", y.1));
        }
        if x.2 != y.2 {
            return (format!("root_members({}) = {:?}", x.0, x.2), format!("{:?}", y.2));
        }
        if x.3 != y.3 {
            return (format!("groups({}) = {:?}", x.0, x.3), format!("{:?}", y.3));
        }
    }
    ("<equal>".into(), "<equal>".into())
}

fn case_strategy(max_cond: u8, max_steps: usize) -> impl Strategy<Value = Case> {
    let w = StepWeights {
        unauthorised: 0,
        wild: 0,
        unknown_group: 0,
    };
    (
        history_strategy(max_cond, max_steps, w),
        prop::collection::vec(prop::collection::vec(any::<u16>(), 0..=60), 2..=3),
    )
        .prop_map(|(history, orders)| Case { history, orders })
}

pub fn run(mut ctx: Ctx) -> ! {
    ctx.assume("the code under test iterates HashSet/HashMap with RandomState (heads, member maps); the oracle only uses sorted renderings, but which of two order-dependent answers the code gives in one run is not controlled by the seed, so a replayed order-dependence may need the repeated queries (6 per replica, 5-9 replicas) to show");
    ctx.assume("each group id is created once; nested adds are restricted to sub-groups into the root and the two sub-groups into each other (keeps the depth-bounded traversal of concurrently created cycles linear)");
    ctx.assume("operations are delivered only after all their dependencies (documented precondition of the CRDT)");
    let steps = ctx.pick(32, 48);
    const RULE: &str = "3-6 actors each with a replica, root + 0-2 sub-groups, 3-32 (thorough 48) steps: an actor that is a manager in its own view authors add/remove/promote/demote/nested add/self-remove on its own heads, pairwise syncs, full syncs; final accepted set fed to 2-3 fresh replicas in generated linear extensions and to all authoring replicas; compared: sorted members/root_members/groups of every group incl. conditions, 6 repeated queries; non-trivial = two concurrent operations of one group target the same member or one removes/demotes the other's author";
    ctx.run_prop(
        Part::new("histories_unconditional", RULE, 1_500, 40_000).min_nontrivial(0.15).shrink_iters(400),
        move || case_strategy(0, steps),
        check::<()>,
    );
    ctx.run_prop(
        Part::new("histories_conditions", RULE, 2_500, 60_000).min_nontrivial(0.15).shrink_iters(400),
        move || case_strategy(3, steps),
        check::<Cond>,
    );
    ctx.finish()
}
