//! C32 Group state merge is commutative, associative and idempotent.
//!
//! Oracle: the three algebraic laws of the statement, compared on canonical (sorted, plain-data)
//! renderings of the merged states, plus the per-member rule documented on `state::merge` (higher
//! member counter wins, then higher access counter, then "the lower of the two access levels") in
//! the cases where that sentence is unambiguous (same condition, different level); in the
//! ambiguous cases only "the result is one of the two inputs" is required.
//!
//! States are built through serde (the fields are crate-private) or through the crate's own state
//! functions (`create/add/remove/promote/demote`, reached like `merge` through the cfg-guarded
//! `p2panda_auth::verif` re-export), so that a failure is also shown on API-reachable states.

use std::collections::BTreeMap;

use engine::proptest::prelude::*;
use engine::{CaseOk, CaseResult, Ctx, Part, ensure, ensure_eq};
use p2panda_auth::Access;
use p2panda_auth::group::GroupMembersState;
use p2panda_auth::verif as st;
use serde::de::DeserializeOwned;
use serde::{Deserialize, Serialize};

use crate::common::{Acc, Cond, CondKind, access, canon};

/// One member's state as plain data. `cond`: 0 = no condition, n = condition n-1.
#[derive(Clone, Copy, Debug, PartialEq, Eq, PartialOrd, Ord, Hash, Serialize, Deserialize)]
struct M {
    mc: u8,
    ac: u8,
    level: u8,
    cond: u8,
}

/// Members of one state: distinct ids.
type Spec = Vec<(u8, M)>;

/// Two or three states; pairs are checked for commutativity/idempotence/documented rule, triples
/// additionally for associativity.
#[derive(Clone, Debug, Serialize, Deserialize)]
struct Multi {
    states: Vec<Spec>,
}

#[derive(Serialize, Deserialize)]
struct MirrorMember<C> {
    member_counter: usize,
    access: Access<C>,
    access_counter: usize,
}

#[derive(Serialize, Deserialize)]
struct MirrorState<C> {
    members: BTreeMap<u8, MirrorMember<C>>,
}

type GState<C> = GroupMembersState<u8, C>;
type Canon = BTreeMap<u8, M>;

trait SerCond: CondKind + Serialize + DeserializeOwned {}
impl<T: CondKind + Serialize + DeserializeOwned> SerCond for T {}

fn build<C: SerCond>(spec: &Spec) -> Result<GState<C>, String> {
    let mirror = MirrorState::<C> {
        members: spec
            .iter()
            .map(|(id, m)| {
                (
                    *id,
                    MirrorMember {
                        member_counter: m.mc as usize,
                        access: access::<C>(Acc { level: m.level, cond: m.cond }),
                        access_counter: m.ac as usize,
                    },
                )
            })
            .collect(),
    };
    let v = serde_json::to_value(&mirror).map_err(|e| format!("harness: cannot serialise mirror state: {e}"))?;
    serde_json::from_value(v).map_err(|e| format!("harness: cannot build state through serde: {e}"))
}

fn canon_state<C: SerCond>(s: &GState<C>) -> Result<Canon, String> {
    let v = serde_json::to_value(s).map_err(|e| format!("harness: cannot serialise state: {e}"))?;
    let m: MirrorState<C> = serde_json::from_value(v).map_err(|e| format!("harness: cannot read state back: {e}"))?;
    Ok(m.members
        .into_iter()
        .map(|(id, mm)| {
            let (level, cond) = canon(&mm.access);
            (
                id,
                M {
                    mc: mm.member_counter as u8,
                    ac: mm.access_counter as u8,
                    level,
                    cond: cond.map(|c| c + 1).unwrap_or(0),
                },
            )
        })
        .collect())
}

fn merged<C: SerCond>(a: &GState<C>, b: &GState<C>) -> Result<Canon, String> {
    canon_state(&st::merge(a.clone(), b.clone()))
}

/// What the documentation of `merge` fixes for one member present in both states.
enum Expect {
    Exactly(M),
    /// Counters fixed, access is one of the two candidates (tie between accesses that differ in
    /// their condition: "the lower" is decided by the implementation, but symmetrically).
    OneOf(M, M),
}

fn documented(a: M, b: M) -> Expect {
    if a.mc != b.mc {
        return Expect::Exactly(if a.mc > b.mc { a } else { b });
    }
    if a.ac != b.ac {
        return Expect::Exactly(if a.ac > b.ac { a } else { b });
    }
    if (a.level, a.cond) == (b.level, b.cond) {
        return Expect::Exactly(a);
    }
    if a.cond == b.cond {
        return Expect::Exactly(if a.level < b.level { a } else { b });
    }
    Expect::OneOf(a, b)
}

#[derive(Default)]
struct Classes {
    tie_diff_access: bool,
    tie_same_cond: bool,
    tie_none_vs_some: bool,
    tie_some_vs_some: bool,
    counter_decides: bool,
    disjoint_member: bool,
}

fn classify(a: &Canon, b: &Canon, cl: &mut Classes) {
    for (id, ma) in a {
        match b.get(id) {
            None => cl.disjoint_member = true,
            Some(mb) => {
                if ma.mc != mb.mc || ma.ac != mb.ac {
                    cl.counter_decides = true;
                } else if (ma.level, ma.cond) != (mb.level, mb.cond) {
                    cl.tie_diff_access = true;
                    if ma.cond == mb.cond {
                        cl.tie_same_cond = true;
                    } else if ma.cond == 0 || mb.cond == 0 {
                        cl.tie_none_vs_some = true;
                    } else {
                        cl.tie_some_vs_some = true;
                    }
                }
            }
        }
    }
    if b.keys().any(|k| !a.contains_key(k)) {
        cl.disjoint_member = true;
    }
}

fn check_states<C: SerCond>(states: &[GState<C>]) -> CaseResult {
    let canons: Vec<Canon> = states.iter().map(canon_state).collect::<Result<_, _>>()?;
    let mut cl = Classes::default();

    // Idempotence.
    for (s, c) in states.iter().zip(&canons) {
        let ss = merged(s, s)?;
        ensure_eq!(ss, *c, "idempotence: merge(a, a) != a");
    }

    // Commutativity and the documented per-member rule, for every unordered pair.
    for i in 0..states.len() {
        for j in (i + 1)..states.len() {
            let (a, b) = (&states[i], &states[j]);
            let ab = merged(a, b)?;
            let ba = merged(b, a)?;
            ensure_eq!(
                ab,
                ba,
                "commutativity: merge(a, b) != merge(b, a) for a={:?} b={:?}",
                canons[i],
                canons[j]
            );
            classify(&canons[i], &canons[j], &mut cl);
            // Documented rule.
            let mut ids: Vec<u8> = canons[i].keys().chain(canons[j].keys()).copied().collect();
            ids.sort();
            ids.dedup();
            ensure_eq!(ab.keys().copied().collect::<Vec<_>>(), ids, "merge result has a different member set than the union");
            for id in ids {
                let got = ab[&id];
                match (canons[i].get(&id), canons[j].get(&id)) {
                    (Some(x), None) | (None, Some(x)) => {
                        ensure_eq!(got, *x, "member {id} present in one state only is not carried over unchanged")
                    }
                    (Some(x), Some(y)) => match documented(*x, *y) {
                        Expect::Exactly(e) => {
                            ensure_eq!(got, e, "member {id}: merge of {x:?} and {y:?} does not follow the documented counter/lower-access rule")
                        }
                        Expect::OneOf(e1, e2) => {
                            ensure!(got == e1 || got == e2, "member {id}: merge of {x:?} and {y:?} gave {got:?}, which is neither input")
                        }
                    },
                    (None, None) => unreachable!(),
                }
            }
        }
    }

    // Associativity for every ordered triple of distinct positions (3 states -> 6 orders, of
    // which the law needs only (a,b,c); the others come for free and exercise other argument
    // positions).
    if states.len() >= 3 {
        let n = states.len();
        for i in 0..n {
            for j in 0..n {
                for k in 0..n {
                    if i == j || j == k || i == k {
                        continue;
                    }
                    let ab = st::merge(states[i].clone(), states[j].clone());
                    let bc = st::merge(states[j].clone(), states[k].clone());
                    let left = merged(&ab, &states[k])?;
                    let right = merged(&states[i], &bc)?;
                    ensure_eq!(
                        left,
                        right,
                        "associativity: merge(merge(a,b),c) != merge(a,merge(b,c)) for a={:?} b={:?} c={:?}",
                        canons[i],
                        canons[j],
                        canons[k]
                    );
                }
            }
        }
    }

    Ok(CaseOk::nontrivial(cl.tie_diff_access)
        .label_if(cl.tie_same_cond, "tie_same_condition_different_level")
        .label_if(cl.tie_none_vs_some, "tie_unconditional_vs_conditional")
        .label_if(cl.tie_some_vs_some, "tie_two_different_conditions")
        .label_if(cl.counter_decides, "counter_decides")
        .label_if(cl.disjoint_member, "member_in_one_state_only")
        .label_if(states.len() >= 3, "triple"))
}

fn check_multi<C: SerCond>(m: &Multi) -> CaseResult {
    let states: Vec<GState<C>> = m.states.iter().map(build::<C>).collect::<Result<_, _>>()?;
    check_states(&states)
}

// ---------------------------------------------------------------------------------------------
// Exhaustive domains

fn member_states(mcs: &[u8], acs: &[u8], levels: &[u8], conds: &[u8]) -> Vec<Option<M>> {
    let mut out = vec![None];
    for &mc in mcs {
        for &ac in acs {
            for &level in levels {
                for &cond in conds {
                    out.push(Some(M { mc, ac, level, cond }));
                }
            }
        }
    }
    out
}

fn single_member_specs(ms: &[Option<M>], id: u8) -> Vec<Spec> {
    ms.iter().map(|m| m.map(|m| vec![(id, m)]).unwrap_or_default()).collect()
}

fn two_member_specs(ms: &[Option<M>]) -> Vec<Spec> {
    let mut out = vec![];
    for m0 in ms {
        for m1 in ms {
            let mut s = vec![];
            if let Some(m) = m0 {
                s.push((0u8, *m));
            }
            if let Some(m) = m1 {
                s.push((1u8, *m));
            }
            out.push(s);
        }
    }
    out
}

fn pairs(specs: &[Spec]) -> impl Iterator<Item = Multi> + '_ {
    specs.iter().flat_map(move |a| {
        specs.iter().map(move |b| Multi {
            states: vec![a.clone(), b.clone()],
        })
    })
}

fn triples(specs: &[Spec]) -> impl Iterator<Item = Multi> + '_ {
    specs.iter().flat_map(move |a| {
        specs.iter().flat_map(move |b| {
            specs.iter().map(move |c| Multi {
                states: vec![a.clone(), b.clone(), c.clone()],
            })
        })
    })
}

// ---------------------------------------------------------------------------------------------
// Random larger states

fn m_strategy(max_cond: u8) -> impl Strategy<Value = M> {
    (1u8..=5, 0u8..=3, 0u8..4, 0u8..=max_cond).prop_map(|(mc, ac, level, cond)| M { mc, ac, level, cond })
}

/// A base state and two or three variants derived from it by per-member edits, so that equal
/// counters with different access (the tie-break) are common.
fn random_multi(max_cond: u8) -> impl Strategy<Value = Multi> {
    let base = prop::collection::vec(m_strategy(max_cond), 1..=5);
    let edit = (0u8..8, 0u8..4, 0u8..=max_cond, 0u8..=3);
    (base, prop::collection::vec(prop::collection::vec(edit, 5), 2..=3)).prop_map(|(base, variants)| {
        let states = variants
            .into_iter()
            .map(|edits| {
                let mut s = vec![];
                for (i, (m, (kind, level, cond, n))) in base.iter().zip(edits).enumerate() {
                    let m = match kind {
                        0 => Some(*m),
                        1 | 2 => Some(M { level, cond, ..*m }),
                        3 => Some(M { cond, ..*m }),
                        4 => Some(M { mc: m.mc + n, ..*m }),
                        5 => Some(M { ac: m.ac + n, level, cond, ..*m }),
                        6 => None,
                        _ => Some(M { level, ..*m }),
                    };
                    if let Some(m) = m {
                        s.push((i as u8, m));
                    }
                }
                s
            })
            .collect();
        Multi { states }
    })
}

// ---------------------------------------------------------------------------------------------
// States reached through the crate's own state functions

#[derive(Clone, Debug, Serialize, Deserialize)]
struct StOp {
    kind: u8,
    actor: u8,
    target: u8,
    acc: Acc,
}

#[derive(Clone, Debug, Serialize, Deserialize)]
struct ApiCase {
    /// Initial members 1.. of the created group (member 0 is always a manager).
    initial: Vec<(u8, Acc)>,
    /// Operations applied before the replicas diverge.
    prefix: Vec<StOp>,
    /// Two or three divergent continuations (each replica applies its own to the common state).
    branches: Vec<Vec<StOp>>,
    /// Member that operations with target 255 refer to (makes concurrent changes of one member
    /// common).
    focus: u8,
}

fn apply_ops<C: SerCond>(mut s: GState<C>, ops: &[StOp], focus: u8) -> (GState<C>, usize) {
    let mut applied = 0;
    for op in ops {
        let a = access::<C>(op.acc);
        let target = if op.target == 255 { focus } else { op.target };
        let r = match op.kind % 4 {
            0 => st::add(s.clone(), op.actor, target, a),
            1 => st::remove(s.clone(), op.actor, target),
            2 => st::promote(s.clone(), op.actor, target, a),
            _ => st::demote(s.clone(), op.actor, target, a),
        };
        if let Ok(next) = r {
            s = next;
            applied += 1;
        }
    }
    (s, applied)
}

fn check_api<C: SerCond>(case: &ApiCase) -> CaseResult {
    let mut initial: Vec<(u8, Access<C>)> = vec![(0, Access::manage())];
    for (id, acc) in &case.initial {
        if *id != 0 && !initial.iter().any(|(i, _)| i == id) {
            initial.push((*id, access::<C>(*acc)));
        }
    }
    let base = st::create(&initial);
    let (base, _) = apply_ops(base, &case.prefix, case.focus);
    let mut states = vec![];
    let mut applied = 0;
    for b in &case.branches {
        let (s, n) = apply_ops(base.clone(), b, case.focus);
        applied += n;
        states.push(s);
    }
    let ok = check_states(&states)?;
    Ok(ok.label_if(applied >= 2, "api_two_or_more_divergent_ops"))
}

fn st_op(max_cond: u8) -> impl Strategy<Value = StOp> {
    // Actors are mostly the managers 0/1, targets the small id range, so that most operations
    // succeed.
    (0u8..4, prop_oneof![4 => 0u8..2, 1 => 0u8..5], prop_oneof![3 => Just(255u8), 1 => 0u8..5], 0u8..4, 0u8..=max_cond).prop_map(|(kind, actor, target, level, cond)| StOp {
        kind,
        actor,
        target,
        acc: Acc { level, cond },
    })
}

fn api_case(max_cond: u8) -> impl Strategy<Value = ApiCase> {
    let acc = (prop_oneof![1 => 0u8..4, 1 => Just(3u8)], 0u8..=max_cond).prop_map(|(level, cond)| Acc { level, cond });
    (
        prop::collection::vec((1u8..5, acc), 1..=4),
        prop::collection::vec(st_op(max_cond), 0..=3),
        prop::collection::vec(prop::collection::vec(st_op(max_cond), 1..=4), 2..=3),
        2u8..5,
    )
        .prop_map(|(initial, prefix, branches, focus)| ApiCase { initial, prefix, branches, focus })
}

pub fn run(mut ctx: Ctx) -> ! {
    ctx.assume("states are compared as sorted plain-data renderings (member id -> counters, level, condition) obtained through serde");
    ctx.assume("condition type `()` is used with `conditions: None` only (the `without conditions` half of the statement); the conditioned half uses a derived-Ord u8 newtype");
    ctx.assume("where two tied accesses differ in their condition the documentation does not say which is `lower`; only symmetry (commutativity) and `result is one of the inputs` are required there");

    let levels = [0u8, 1, 2, 3];

    // Without conditions.
    let unit_members = member_states(&[1, 2, 3, 4], &[0, 1, 2], &levels, &[0]);
    let unit_specs = single_member_specs(&unit_members, 0);
    ctx.run_exhaustive(
        "pairs_unconditional",
        "condition type (): all ordered pairs of single-member states (member absent or member_counter 1-4, access_counter 0-2, 4 levels, no condition); idempotence, commutativity, documented rule; non-trivial = both states hold the member with equal counters and different access",
        pairs(&unit_specs),
        check_multi::<()>,
    );

    // With totally ordered conditions.
    let cond_members = member_states(&[1, 2, 3, 4], &[0, 1, 2], &levels, &[0, 1, 2]);
    let cond_specs = single_member_specs(&cond_members, 0);
    ctx.run_exhaustive(
        "pairs_conditions",
        "condition type u8 newtype (derived total order): all ordered pairs of single-member states (member absent or member_counter 1-4, access_counter 0-2, 4 levels, condition in {none, 0, 1}); non-trivial = equal counters and different access",
        pairs(&cond_specs),
        check_multi::<Cond>,
    );

    let small_members = member_states(&[1, 2], &[0, 1], &[1, 2], &[0, 1, 2]);
    let two_specs = two_member_specs(&small_members);
    ctx.run_exhaustive(
        "pairs_two_members_conditions",
        "condition type u8 newtype: all ordered pairs of states over two member ids, each absent or member_counter 1-2, access_counter 0-1, levels {Read, Write}, condition in {none, 0, 1} (625 x 625); non-trivial = some member tied with different access",
        pairs(&two_specs),
        check_multi::<Cond>,
    );

    let triple_members = if ctx.is_thorough() {
        cond_members.clone()
    } else {
        member_states(&[1, 2], &[0, 1], &levels, &[0, 1, 2])
    };
    let triple_specs = single_member_specs(&triple_members, 0);
    ctx.run_exhaustive(
        "triples_conditions",
        "condition type u8 newtype: all ordered triples of single-member states (quick: member_counter 1-2, access_counter 0-1, 4 levels, 3 conditions = 49^3; thorough: the full 145^3 domain of pairs_conditions); associativity in all six argument orders, plus the pair laws; non-trivial = some pair tied with different access",
        triples(&triple_specs),
        check_multi::<Cond>,
    );

    ctx.run_prop(
        Part::new(
            "random_conditions",
            "condition type u8 newtype: two or three states over up to 5 members derived from a common base by per-member edits (access change, counter bumps, member dropped), counters up to 8, conditions in {none, 0..3}; all laws; non-trivial = some member tied with different access",
            5_000,
            300_000,
        )
        .min_nontrivial(0.3),
        || random_multi(4),
        check_multi::<Cond>,
    );
    ctx.run_prop(
        Part::new(
            "random_unconditional",
            "condition type (): as random_conditions without conditions",
            2_000,
            100_000,
        )
        .min_nontrivial(0.3),
        || random_multi(0),
        check_multi::<()>,
    );
    ctx.run_prop(
        Part::new(
            "api_built_conditions",
            "condition type u8 newtype: states reached only through the crate's own create/add/remove/promote/demote from a common prefix, then 2-3 divergent continuations of 1-4 operations; all laws on the divergent states; non-trivial = some member tied with different access (e.g. concurrent re-adds or concurrent promotions to different access)",
            5_000,
            300_000,
        )
        .min_nontrivial(0.02),
        || api_case(2),
        check_api::<Cond>,
    );
    ctx.run_prop(
        Part::new(
            "api_built_unconditional",
            "condition type (): as api_built_conditions without conditions",
            2_000,
            100_000,
        )
        .min_nontrivial(0.02),
        || api_case(0),
        check_api::<()>,
    );
    ctx.finish()
}
