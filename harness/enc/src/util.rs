//! Shared helpers of the enc group.

use p2panda_core::cbor::{decode_cbor, encode_cbor};
use p2panda_encryption::crypto::Secret;
use serde::Serialize;

/// `Secret::from_bytes` is crate-private; secrets are (de)serialised as CBOR byte strings, so a
/// 32-byte secret is built by decoding `0x58 0x20 <bytes>` – the same path a persisted state takes.
pub fn secret32(bytes: [u8; 32]) -> Secret<32> {
    let mut buf = Vec::with_capacity(34);
    buf.extend_from_slice(&[0x58, 0x20]);
    buf.extend_from_slice(&bytes);
    match decode_cbor::<Secret<32>, _>(&buf[..]) {
        Ok(s) => s,
        Err(e) => engine::harness_error(&format!("cannot build Secret<32> from CBOR bytes: {e}")),
    }
}

/// Hex of the CBOR encoding (for messages; `Secret` hides its bytes in `Debug`).
pub fn cbor_hex<T: Serialize>(value: &T) -> String {
    match encode_cbor(value) {
        Ok(b) => hex::encode(b),
        Err(e) => format!("<unencodable: {e}>"),
    }
}

/// Expands a small generated seed into 32 bytes (splitmix64), so that cases stay small and
/// shrinkable while every derived key differs.
pub fn seed32(seed: u64, domain: u64) -> [u8; 32] {
    let mut out = [0u8; 32];
    let mut x = seed ^ domain.wrapping_mul(0xD6E8_FEB8_6659_FD93);
    for chunk in out.chunks_mut(8) {
        x = x.wrapping_add(0x9E37_79B9_7F4A_7C15);
        let mut z = x;
        z = (z ^ (z >> 30)).wrapping_mul(0xBF58_476D_1CE4_E5B9);
        z = (z ^ (z >> 27)).wrapping_mul(0x94D0_49BB_1331_11EB);
        z ^= z >> 31;
        chunk.copy_from_slice(&z.to_le_bytes());
    }
    out
}
