//! C36 Latest group secret is chosen deterministically and new secrets are newer.
//!
//! Oracle (from the statement and the doc comment of `find_latest`): `latest()` is the maximum by
//! (timestamp, id) over the bundle's *current contents*, whatever the construction path (insert
//! in any order, `from_secrets`, `extend` in both directions, CBOR round trip, after removals);
//! `SecretBundle::generate` returns a secret whose timestamp is strictly greater than the current
//! latest's, so after inserting it, it *is* the latest.
//!
//! Domain: distinct secrets (distinct key bytes); the same secret may be inserted repeatedly but
//! always with the timestamp it was created with (the id is the hash of the key bytes only, a
//! secret does not change its timestamp while it travels). Timestamps below `u64::MAX`
//! (representable successor).

use std::collections::BTreeMap;
use std::time::{SystemTime, UNIX_EPOCH};

use engine::proptest::prelude::*;
use engine::{CaseOk, CaseResult, Ctx, Part, ensure, ensure_eq};
use p2panda_core::cbor::{decode_cbor, encode_cbor};
use p2panda_encryption::Rng;
use p2panda_encryption::data_scheme::{GroupSecret, GroupSecretId, SecretBundle, SecretBundleState};
use serde::{Deserialize, Serialize};

use crate::util::seed32;

#[derive(Clone, Debug, Serialize, Deserialize)]
struct Case {
    /// (key index, timestamp). A repeated key index re-inserts the same secret (first timestamp wins).
    secrets: Vec<(u8, u64)>,
    /// Sort keys of the second insertion order.
    order: Vec<u16>,
    /// Where the list is split for `extend`.
    split: u16,
    /// Indices (into the distinct secrets) removed afterwards.
    removals: Vec<u16>,
    /// `Some(d)`: one more secret with timestamp `wall clock + d` seconds (the only clock-relative input).
    at_clock: Option<i8>,
    /// Seed of the RNG handed to `generate`.
    gen_seed: u64,
}

fn secret(key: u8, ts: u64) -> GroupSecret {
    GroupSecret::new(seed32(key as u64, 0xC36), ts)
}

/// Reference: maximum by (timestamp, id).
fn reference_latest(contents: &BTreeMap<GroupSecretId, GroupSecret>) -> Option<&GroupSecret> {
    contents.values().max_by(|a, b| (a.timestamp(), a.id()).cmp(&(b.timestamp(), b.id())))
}

fn check_bundle(what: &str, bundle: &SecretBundleState, contents: &BTreeMap<GroupSecretId, GroupSecret>) -> Result<(), String> {
    ensure_eq!(bundle.len(), contents.len(), "{what}: number of secrets");
    for (id, s) in contents {
        ensure!(bundle.get(id) == Some(s), "{what}: secret {} missing or different", hex::encode(id));
    }
    let want = reference_latest(contents);
    let got = bundle.latest();
    ensure!(
        got == want,
        "{what}: latest() is (ts={:?}, id={:?}) but the maximum by (timestamp, id) is (ts={:?}, id={:?})",
        got.map(|s| s.timestamp()),
        got.map(|s| hex::encode(s.id())),
        want.map(|s| s.timestamp()),
        want.map(|s| hex::encode(s.id()))
    );
    Ok(())
}

fn insert_all<'a>(secrets: impl IntoIterator<Item = &'a GroupSecret>) -> SecretBundleState {
    secrets.into_iter().fold(SecretBundle::init(), |y, s| SecretBundle::insert(y, s.clone()))
}

fn check(case: &Case) -> CaseResult {
    // Canonical list: a key index keeps the timestamp of its first occurrence.
    let mut first_ts: BTreeMap<u8, u64> = BTreeMap::new();
    let mut list: Vec<GroupSecret> = Vec::new();
    for (key, ts) in &case.secrets {
        let ts = *first_ts.entry(*key).or_insert(*ts);
        list.push(secret(*key, ts));
    }
    if let Some(d) = case.at_clock {
        let now = SystemTime::now().duration_since(UNIX_EPOCH).map_err(|e| e.to_string())?.as_secs();
        list.push(GroupSecret::new(seed32(0xFFFF, 0xC36), now.saturating_add_signed(d as i64)));
    }
    let contents: BTreeMap<GroupSecretId, GroupSecret> = list.iter().map(|s| (s.id(), s.clone())).collect();
    let had_duplicates = contents.len() < list.len();

    // a/b: insertion in the given and in a permuted order.
    let perm = engine::permutation(&case.order, list.len());
    let permuted: Vec<&GroupSecret> = perm.iter().map(|i| &list[*i]).collect();
    let a = insert_all(&list);
    check_bundle("insert in given order", &a, &contents)?;
    let b = insert_all(permuted.iter().copied());
    check_bundle("insert in permuted order", &b, &contents)?;
    let rev = insert_all(list.iter().rev());
    check_bundle("insert in reverse order", &rev, &contents)?;

    // c: from_secrets.
    check_bundle("from_secrets", &SecretBundle::from_secrets(list.clone()), &contents)?;
    check_bundle(
        "from_secrets (permuted)",
        &SecretBundle::from_secrets(permuted.iter().map(|s| (*s).clone()).collect()),
        &contents,
    )?;

    // d: extend in both directions.
    let split = engine::idx(case.split, list.len() + 1);
    let (left, right) = list.split_at(split);
    let (l, r) = (insert_all(left), insert_all(right));
    check_bundle("extend(left, right)", &SecretBundle::extend(l.clone(), r.clone()), &contents)?;
    check_bundle("extend(right, left)", &SecretBundle::extend(r, l), &contents)?;
    check_bundle("extend(all, all)", &SecretBundle::extend(a.clone(), b.clone()), &contents)?;

    // e: CBOR round trip.
    let bytes = encode_cbor(&a).map_err(|e| format!("encode bundle: {e}"))?;
    let decoded: SecretBundleState = decode_cbor(&bytes[..]).map_err(|e| format!("decode bundle: {e}"))?;
    check_bundle("CBOR round trip", &decoded, &contents)?;
    // The same contents listed by another encoder (any order is a valid wire form).
    let mut listed: Vec<GroupSecret> = contents.values().cloned().collect();
    for (what, order) in [("ascending ids", 0), ("newest first", 1), ("oldest first", 2)] {
        match order {
            1 => listed.sort_by(|a, b| (b.timestamp(), b.id()).cmp(&(a.timestamp(), a.id()))),
            2 => listed.sort_by(|a, b| (a.timestamp(), a.id()).cmp(&(b.timestamp(), b.id()))),
            _ => {}
        }
        let wire = encode_cbor(&listed).map_err(|e| format!("encode secret list: {e}"))?;
        let foreign: SecretBundleState = decode_cbor(&wire[..]).map_err(|e| format!("decode bundle from a secret list: {e}"))?;
        check_bundle(&format!("decoded from a secret list ({what})"), &foreign, &contents)?;
    }

    // f: removals, applied to two differently built bundles and to the reference contents.
    let mut contents_after = contents.clone();
    let mut x = a.clone();
    let mut y = decoded;
    let mut removal_changed_latest = false;
    for raw in &case.removals {
        if contents_after.is_empty() {
            break;
        }
        let ids: Vec<GroupSecretId> = contents_after.keys().copied().collect();
        let id = ids[engine::idx(*raw, ids.len())];
        let before = reference_latest(&contents_after).map(|s| s.id());
        let removed = contents_after.remove(&id);
        let (x2, rx) = SecretBundle::remove(x, &id);
        let (y2, ry) = SecretBundle::remove(y, &id);
        ensure!(rx == removed && ry == removed, "remove({}) returned a different secret", hex::encode(id));
        check_bundle("after remove", &x2, &contents_after)?;
        check_bundle("after remove (decoded bundle)", &y2, &contents_after)?;
        if before != reference_latest(&contents_after).map(|s| s.id()) {
            removal_changed_latest = true;
        }
        x = x2;
        y = y2;
    }

    // generate: strictly later than the current latest, three times in a row.
    let rng = Rng::from_seed(seed32(case.gen_seed, 0x36A));
    let mut bundle = x;
    let mut contents_gen = contents_after.clone();
    let mut bumped = false;
    for round in 0..3 {
        let latest_before = reference_latest(&contents_gen).cloned();
        if latest_before.as_ref().map(|s| s.timestamp()) == Some(u64::MAX) {
            // No representable successor: outside the domain.
            break;
        }
        let fresh = SecretBundle::generate(&bundle, &rng).map_err(|e| format!("generate failed: {e}"))?;
        if let Some(latest) = &latest_before {
            ensure!(
                fresh.timestamp() > latest.timestamp(),
                "generate round {round}: new secret has timestamp {} which is not later than the current latest's {}",
                fresh.timestamp(),
                latest.timestamp()
            );
            if fresh.timestamp() == latest.timestamp() + 1 {
                bumped = true;
            }
        }
        ensure!(!contents_gen.contains_key(&fresh.id()), "generate round {round}: returned a secret already in the bundle");
        contents_gen.insert(fresh.id(), fresh.clone());
        bundle = SecretBundle::insert(bundle, fresh.clone());
        check_bundle("after inserting the generated secret", &bundle, &contents_gen)?;
        ensure!(bundle.latest() == Some(&fresh), "generate round {round}: the generated secret is not the latest after insertion");
    }

    // Classification.
    let max_ts = contents.values().map(|s| s.timestamp()).max();
    let tie_at_max = max_ts.map(|m| contents.values().filter(|s| s.timestamp() == m).count() >= 2).unwrap_or(false);
    let far_future = max_ts.map(|m| m > 3_000_000_000).unwrap_or(false);
    Ok(CaseOk::nontrivial(tie_at_max)
        .label_if(tie_at_max, "tie_at_max_timestamp")
        .label_if(far_future, "latest_ahead_of_clock")
        .label_if(case.at_clock.is_some(), "secret_at_wall_clock")
        .label_if(bumped, "generate_bumped_to_latest_plus_1")
        .label_if(max_ts == Some(0), "all_timestamps_zero")
        .label_if(max_ts == Some(u64::MAX - 1), "latest_u64_max_minus_1")
        .label_if(had_duplicates, "same_secret_inserted_twice")
        .label_if(removal_changed_latest, "removal_changed_latest")
        .label_if(contents.is_empty(), "empty_bundle"))
}

// --- exhaustive: every insertion order of small sets -------------------------------------------

fn permutations(n: usize) -> Vec<Vec<usize>> {
    fn rec(cur: &mut Vec<usize>, used: &mut Vec<bool>, n: usize, out: &mut Vec<Vec<usize>>) {
        if cur.len() == n {
            out.push(cur.clone());
            return;
        }
        for i in 0..n {
            if !used[i] {
                used[i] = true;
                cur.push(i);
                rec(cur, used, n, out);
                cur.pop();
                used[i] = false;
            }
        }
    }
    let mut out = Vec::new();
    rec(&mut Vec::new(), &mut vec![false; n], n, &mut out);
    out
}

#[derive(Clone, Debug, Serialize, Deserialize)]
struct OrderCase {
    /// Timestamp of secret i.
    timestamps: Vec<u64>,
    /// Insertion order.
    order: Vec<usize>,
}

fn check_order(case: &OrderCase) -> CaseResult {
    let secrets: Vec<GroupSecret> = case.timestamps.iter().enumerate().map(|(i, ts)| secret(i as u8, *ts)).collect();
    let mut contents = BTreeMap::new();
    let mut bundle = SecretBundle::init();
    // The prefix property: after *every* insertion the latest is the maximum of what is inside.
    for i in &case.order {
        let s = &secrets[*i];
        contents.insert(s.id(), s.clone());
        bundle = SecretBundle::insert(bundle, s.clone());
        check_bundle("after insert", &bundle, &contents)?;
    }
    let ordered: Vec<GroupSecret> = case.order.iter().map(|i| secrets[*i].clone()).collect();
    check_bundle("from_secrets", &SecretBundle::from_secrets(ordered.clone()), &contents)?;
    // The wire form of a bundle is a list of secrets in *no particular order* (the encoder walks a
    // hash map; an older peer, a persisted state or a welcome may list them in any order): decoding
    // the list in this case's order must give the same latest, and a secret generated from the
    // decoded bundle must be later than everything in it.
    let wire = encode_cbor(&ordered).map_err(|e| format!("encode secret list: {e}"))?;
    let decoded: SecretBundleState = decode_cbor(&wire[..]).map_err(|e| format!("decode bundle from a secret list: {e}"))?;
    check_bundle("decoded from a list in this order", &decoded, &contents)?;
    if let Some(latest) = reference_latest(&contents) {
        let rng = Rng::from_seed(seed32(case.order.len() as u64, 0x36B));
        let fresh = SecretBundle::generate(&decoded, &rng).map_err(|e| format!("generate failed: {e}"))?;
        ensure!(
            fresh.timestamp() > latest.timestamp(),
            "generate on a bundle decoded from a list in order {:?}: new secret has timestamp {} which is not later than the latest's {}",
            case.order,
            fresh.timestamp(),
            latest.timestamp()
        );
    }
    let max_ts = case.timestamps.iter().max().copied();
    let tie = max_ts.map(|m| case.timestamps.iter().filter(|t| **t == m).count() >= 2).unwrap_or(false);
    Ok(CaseOk::nontrivial(tie).label_if(tie, "tie_at_max_timestamp"))
}

fn order_domain(max_n: usize) -> impl Iterator<Item = OrderCase> {
    const TS: [u64; 3] = [0, 7, 8];
    (1..=max_n).flat_map(|n| {
        let perms = permutations(n);
        let assignments = 3usize.pow(n as u32);
        (0..assignments).flat_map(move |mut code| {
            let mut timestamps = Vec::with_capacity(n);
            for _ in 0..n {
                timestamps.push(TS[code % 3]);
                code /= 3;
            }
            perms.clone().into_iter().map(move |order| OrderCase {
                timestamps: timestamps.clone(),
                order,
            })
        })
    })
}

// --- generator ------------------------------------------------------------------------------------

fn timestamp() -> impl Strategy<Value = u64> {
    prop_oneof![
        2 => Just(0u64),
        3 => 0u64..4,
        4 => (0u64..3).prop_map(|d| 1_000_000_000 + d),
        3 => (0u64..3).prop_map(|d| 4_000_000_000 + d),
        1 => (0u64..3).prop_map(|d| 1_000_000_000_000_000 + d),
        1 => Just(u64::MAX - 1),
        1 => Just(u64::MAX - 2),
        1 => 0u64..u64::MAX,
    ]
}

/// Secrets draw their timestamps from a small per-case pool (so that ties, also at the maximum,
/// are common) or independently.
fn secrets() -> impl Strategy<Value = Vec<(u8, u64)>> {
    let pooled = (prop::collection::vec(timestamp(), 1..=3), prop::collection::vec((0u8..16, any::<u16>()), 0..=12))
        .prop_map(|(pool, picks)| picks.into_iter().map(|(k, i)| (k, pool[engine::idx(i, pool.len())])).collect::<Vec<_>>());
    let independent = prop::collection::vec((0u8..16, timestamp()), 0..=12);
    prop_oneof![3 => pooled, 1 => independent]
}

fn case() -> impl Strategy<Value = Case> {
    (
        secrets(),
        prop::collection::vec(any::<u16>(), 0..=13),
        any::<u16>(),
        prop::collection::vec(any::<u16>(), 0..=4),
        prop_oneof![4 => Just(None), 1 => (-2i8..=2).prop_map(Some)],
        any::<u64>(),
    )
        .prop_map(|(secrets, order, split, removals, at_clock, gen_seed)| Case {
            secrets,
            order,
            split,
            removals,
            at_clock,
            gen_seed,
        })
}

pub fn run(mut ctx: Ctx) -> ! {
    ctx.assume("secrets are distinct; re-inserting a secret keeps its original timestamp (the id covers the key bytes only)");
    ctx.assume("timestamps are below u64::MAX so that 'latest + 1' is representable");
    ctx.assume("one input class places a secret at wall clock + d seconds (|d| <= 2); the oracle itself never reads the clock");
    let max_n = ctx.pick(5, 6);
    ctx.run_exhaustive(
        "all_insertion_orders",
        "every insertion order of every set of n<=5 (thorough 6) distinct secrets with timestamps from {0,7,8}^n, latest() checked after every single insertion; non-trivial = at least two secrets share the maximal timestamp",
        order_domain(max_n),
        check_order,
    );
    ctx.run_prop(
        Part::new(
            "random_sets",
            "0..12 secrets over 16 key slots with colliding timestamps (0, small, equal/adjacent around 1e9, ahead of the wall clock, u64::MAX-1), built by insert in three orders, from_secrets, extend both ways, CBOR round trip, removals, then generate x3; non-trivial = at least two secrets share the maximal timestamp",
            400_000,
            6_000_000,
        )
        .min_nontrivial(0.15),
        case,
        check,
    );
    ctx.finish()
}
