//! C38 Expired or invalid key bundles are never accepted or used.
//!
//! Reference predicate (independent of `KeyBundle::verify` and of the registry): a bundle is
//! acceptable at second `t` iff `not_before < t < not_after` **and** the XEdDSA signature over
//! the pre-key bytes verifies under the bundle's identity key (`xeddsa_verify` primitive; for the
//! constructed classes the outcome is also known by construction and cross-checked).
//!
//! `Lifetime` reads the system clock directly (no seam). Every call into the registry is
//! therefore bracketed by two clock readings `t0 <= t1` and a lifetime is only asserted when it
//! is valid (or invalid) for *every* second in `[t0, t1]` and not exactly on a bound (the
//! strictness of the bounds is not documented); anything else is counted as `clock_boundary`.
//!
//! Asserted (the statement's direction only):
//! * `add_longterm_bundle` / `add_onetime_bundle` never return `Ok` for a bundle failing the
//!   predicate at that time;
//! * `key_bundle(id)` (both kinds, one-time drained until `None`), before and after
//!   `remove_expired`, never returns a bundle that fails the predicate at retrieval time, and
//!   only returns bundles that were registered for that member.
//! That acceptable bundles *are* accepted/returned is not a violation here; it is the
//! non-triviality floor (a registry refusing everything makes the check exit 2, not 1).
//!
//! Time passing between registration and retrieval is produced in two ways:
//! * `persisted`: a registry state as an honest run would have persisted it some time ago
//!   (bundles correctly signed, valid *then*), loaded through serde – deterministic, no sleeping;
//! * `expiry_sleep`: bundles valid for 2 s are registered, the case really sleeps until they are
//!   over (about 3 s; one case in quick, 20 in thorough).

use std::collections::BTreeMap;
use std::time::{Duration, SystemTime, UNIX_EPOCH};

use engine::proptest::prelude::*;
use engine::{CaseOk, CaseResult, Ctx, Part, ensure};
use p2panda_core::cbor::{decode_cbor, encode_cbor};
use p2panda_encryption::Rng;
use p2panda_encryption::crypto::x25519::{PublicKey, SecretKey};
use p2panda_encryption::crypto::xeddsa::{XSignature, xeddsa_sign, xeddsa_verify};
use p2panda_encryption::key_bundle::{Lifetime, LongTermKeyBundle, OneTimeKeyBundle, OneTimePreKey, PreKey};
use p2panda_encryption::key_registry::{KeyRegistry, KeyRegistryState};
use p2panda_encryption::traits::PreKeyRegistry;
use serde::{Deserialize, Serialize};

use crate::util::seed32;

type Id = usize;
type Registry = KeyRegistry<Id>;
type State = KeyRegistryState<Id>;

const MEMBERS: usize = 3;

fn now() -> u64 {
    SystemTime::now().duration_since(UNIX_EPOCH).expect("clock before 1970").as_secs()
}

#[derive(Clone, Copy, Debug, Serialize, Deserialize)]
enum Bound {
    /// Seconds relative to the clock reading at the start of the case (or to the persist time).
    Rel(i64),
    Abs(u64),
}

impl Bound {
    fn at(&self, base: u64) -> u64 {
        match self {
            Bound::Rel(d) => (base as i128 + *d as i128).clamp(0, u64::MAX as i128) as u64,
            Bound::Abs(v) => *v,
        }
    }
}

#[derive(Clone, Copy, Debug, PartialEq, Eq, Serialize, Deserialize)]
enum Sig {
    Valid,
    /// One bit of the 64-byte signature flipped.
    FlipBit(u16),
    /// Signed by another member's identity secret (bundle still claims the member's identity key).
    OtherIdentity,
    /// Valid signature of this identity over a different pre-key.
    OtherPreKey,
    Zero,
}

#[derive(Clone, Copy, Debug, Serialize, Deserialize)]
struct BundleSpec {
    member: u8,
    onetime: bool,
    /// One-time bundles may come without a one-time pre-key.
    with_onetime_key: bool,
    not_before: Bound,
    not_after: Bound,
    sig: Sig,
    /// `Some(k)`: reuse the signed pre-key (key and lifetime) of the k-th bundle built earlier
    /// for the same member instead of a fresh one – a bundle that looks "already known" to the
    /// registry but may carry another (corrupted, foreign) signature.
    #[serde(default)]
    reuse_prekey: Option<u8>,
}

#[derive(Clone, Debug)]
enum Bundle {
    Long(LongTermKeyBundle),
    One(OneTimeKeyBundle),
}

#[derive(Clone, Debug)]
struct Record {
    member: Id,
    bundle: Bundle,
    not_before: u64,
    not_after: u64,
    sig_ok: bool,
}

#[derive(Clone, Copy, Debug, PartialEq, Eq)]
enum Life {
    Valid,
    Invalid,
    Boundary,
}

impl Record {
    fn life(&self, t0: u64, t1: u64) -> Life {
        if t1 < t0 {
            // The wall clock stepped backwards during the call.
            Life::Boundary
        } else if self.not_before > self.not_after || t1 < self.not_before || t0 > self.not_after {
            Life::Invalid
        } else if self.not_before < t0 && t1 < self.not_after {
            Life::Valid
        } else {
            Life::Boundary
        }
    }
}

struct Keys {
    seed: u64,
    rng: Rng,
    counter: u64,
    /// (member, pre-key, not_before, not_after) of every bundle built so far in this case.
    prekeys: Vec<(usize, PreKey, u64, u64)>,
}

impl Keys {
    fn new(seed: u64) -> Self {
        Keys {
            seed,
            rng: Rng::from_seed(seed32(seed, 0xC38)),
            counter: 0,
            prekeys: Vec::new(),
        }
    }

    fn identity(&self, member: usize) -> SecretKey {
        SecretKey::from_bytes(seed32(self.seed, 0x1D00 + member as u64))
    }

    fn fresh_secret(&mut self) -> SecretKey {
        self.counter += 1;
        SecretKey::from_bytes(seed32(self.seed, 0x10_0000 + self.counter))
    }
}

fn public(secret: &SecretKey) -> Result<PublicKey, String> {
    secret.verifying_key().map_err(|e| format!("harness: verifying key: {e}"))
}

fn build(spec: &BundleSpec, base: u64, keys: &mut Keys) -> Result<Record, String> {
    let member = spec.member as usize % MEMBERS;
    let identity_secret = keys.identity(member);
    let identity_key = public(&identity_secret)?;
    let (mut not_before, mut not_after) = (spec.not_before.at(base), spec.not_after.at(base));
    let mut prekey = PreKey::new(public(&keys.fresh_secret())?, Lifetime::from_range(not_before, not_after));
    if let Some(k) = spec.reuse_prekey {
        let earlier: Vec<&(usize, PreKey, u64, u64)> = keys.prekeys.iter().filter(|p| p.0 == member).collect();
        if !earlier.is_empty() {
            let (_, pk, nb, na) = earlier[k as usize % earlier.len()];
            prekey = *pk;
            not_before = *nb;
            not_after = *na;
        }
    }
    keys.prekeys.push((member, prekey, not_before, not_after));
    let sign = |bytes: &[u8], secret: &SecretKey, rng: &Rng| xeddsa_sign(bytes, secret, rng).map_err(|e| format!("harness: sign: {e}"));
    let signature = match spec.sig {
        Sig::Valid => sign(prekey.as_bytes(), &identity_secret, &keys.rng)?,
        Sig::FlipBit(bit) => {
            let mut bytes = sign(prekey.as_bytes(), &identity_secret, &keys.rng)?.to_bytes();
            let bit = bit as usize % 512;
            bytes[bit / 8] ^= 1 << (bit % 8);
            XSignature::from_bytes(bytes)
        }
        Sig::OtherIdentity => sign(prekey.as_bytes(), &keys.identity((member + 1) % MEMBERS), &keys.rng)?,
        Sig::OtherPreKey => {
            let other = public(&keys.fresh_secret())?;
            sign(other.as_bytes(), &identity_secret, &keys.rng)?
        }
        Sig::Zero => XSignature::from_bytes([0u8; 64]),
    };
    // Reference for "signature verifies": the primitive, cross-checked with the construction.
    let sig_ok = xeddsa_verify(prekey.as_bytes(), &identity_key, &signature).is_ok();
    match spec.sig {
        Sig::Valid if !sig_ok => engine::harness_error("C38: a freshly made XEdDSA signature does not verify"),
        Sig::OtherIdentity | Sig::OtherPreKey | Sig::Zero if sig_ok => {
            engine::harness_error("C38: a signature by the wrong key / over other data verifies")
        }
        _ => {}
    }
    let bundle = if spec.onetime {
        let onetime = if spec.with_onetime_key {
            let id = keys.counter;
            Some(OneTimePreKey::new(public(&keys.fresh_secret())?, id))
        } else {
            None
        };
        Bundle::One(OneTimeKeyBundle::new(identity_key, prekey, signature, onetime))
    } else {
        Bundle::Long(LongTermKeyBundle::new(identity_key, prekey, signature))
    };
    Ok(Record {
        member,
        bundle,
        not_before,
        not_after,
        sig_ok,
    })
}

#[derive(Default)]
struct Seen {
    accepted_valid: usize,
    rejected_invalid: usize,
    rejected_expired: bool,
    rejected_not_yet: bool,
    rejected_signature: bool,
    valid_refused: usize,
    boundary: usize,
    returned: usize,
    returned_onetime: usize,
    expired_in_state: usize,
    flip_ignored_bit: bool,
}

/// Registers `record` through the public API and checks the acceptance direction.
fn add(state: State, record: &Record, registered: &mut Vec<Record>, seen: &mut Seen) -> Result<State, String> {
    let keep = state.clone();
    let t0 = now();
    let result = match &record.bundle {
        Bundle::Long(b) => Registry::add_longterm_bundle(state, record.member, b.clone()),
        Bundle::One(b) => Registry::add_onetime_bundle(state, record.member, b.clone()),
    };
    let t1 = now();
    let life = record.life(t0, t1);
    if life == Life::Boundary {
        seen.boundary += 1;
    }
    match result {
        Ok(next) => {
            ensure!(
                record.sig_ok,
                "registry accepted a bundle of member {} whose signature does not verify ({:?})",
                record.member,
                record.bundle
            );
            ensure!(
                life != Life::Invalid,
                "registry accepted a bundle of member {} whose lifetime [{}, {}] is not valid at {}..{}",
                record.member,
                record.not_before,
                record.not_after,
                t0,
                t1
            );
            if life == Life::Valid {
                seen.accepted_valid += 1;
            }
            registered.push(record.clone());
            Ok(next)
        }
        Err(_) => {
            if life == Life::Valid && record.sig_ok {
                seen.valid_refused += 1;
            } else {
                seen.rejected_invalid += 1;
                if record.sig_ok && life == Life::Invalid {
                    if record.not_after < t0 {
                        seen.rejected_expired = true;
                    } else {
                        seen.rejected_not_yet = true;
                    }
                }
                if !record.sig_ok {
                    seen.rejected_signature = true;
                }
            }
            Ok(keep)
        }
    }
}

fn check_returned(what: &str, member: Id, got: &Bundle, registered: &[Record], t0: u64, t1: u64, seen: &mut Seen) -> Result<(), String> {
    let found = registered.iter().find(|r| {
        r.member == member
            && match (&r.bundle, got) {
                (Bundle::Long(a), Bundle::Long(b)) => a == b,
                (Bundle::One(a), Bundle::One(b)) => a == b,
                _ => false,
            }
    });
    let Some(record) = found else {
        return Err(format!("{what}: key_bundle({member}) returned a bundle that was never registered for that member: {got:?}"));
    };
    ensure!(record.sig_ok, "{what}: key_bundle({member}) returned a bundle whose signature does not verify");
    match record.life(t0, t1) {
        Life::Invalid => Err(format!(
            "{what}: key_bundle({member}) returned a {} bundle whose lifetime [{}, {}] is not valid at retrieval time {}..{} ({})",
            if matches!(got, Bundle::One(_)) { "one-time" } else { "long-term" },
            record.not_before,
            record.not_after,
            t0,
            t1,
            if record.not_after < t0 {
                format!("expired {} s ago", t0 - record.not_after)
            } else {
                "not yet valid".to_string()
            }
        )),
        Life::Boundary => {
            seen.boundary += 1;
            Ok(())
        }
        Life::Valid => {
            seen.returned += 1;
            if matches!(got, Bundle::One(_)) {
                seen.returned_onetime += 1;
            }
            Ok(())
        }
    }
}

/// Queries every member (and an unknown one) for both kinds; one-time bundles are drained.
fn retrieve_all(what: &str, state: &State, registered: &[Record], seen: &mut Seen) -> Result<(), String> {
    for member in 0..=MEMBERS {
        let t0 = now();
        let long = <Registry as PreKeyRegistry<Id, LongTermKeyBundle>>::key_bundle(state.clone(), &member);
        let t1 = now();
        if let Ok((_, Some(bundle))) = long {
            check_returned(what, member, &Bundle::Long(bundle), registered, t0, t1, seen)?;
        }
        let mut y = state.clone();
        let limit = registered.len() + 2;
        for round in 0..=limit {
            let t0 = now();
            let result = <Registry as PreKeyRegistry<Id, OneTimeKeyBundle>>::key_bundle(y, &member);
            let t1 = now();
            let Ok((next, bundle)) = result;
            y = next;
            match bundle {
                Some(bundle) => check_returned(what, member, &Bundle::One(bundle), registered, t0, t1, seen)?,
                None => break,
            }
            ensure!(round < limit, "{what}: key_bundle({member}) handed out more one-time bundles than were ever registered");
        }
    }
    Ok(())
}

fn finish(state: State, registered: &[Record], mut seen: Seen, part: &'static str) -> CaseResult {
    retrieve_all("before remove_expired", &state, registered, &mut seen)?;
    let cleaned = Registry::remove_expired(state);
    retrieve_all("after remove_expired", &cleaned, registered, &mut seen)?;

    let mixed = seen.accepted_valid > 0 && seen.rejected_invalid > 0;
    let nontrivial = match part {
        "accept" => mixed && seen.returned > 0,
        _ => seen.expired_in_state > 0 && seen.returned > 0,
    };
    Ok(CaseOk::nontrivial(nontrivial)
        .label_if(seen.accepted_valid > 0, "valid_accepted")
        .label_if(seen.rejected_expired, "expired_rejected")
        .label_if(seen.rejected_not_yet, "not_yet_valid_rejected")
        .label_if(seen.rejected_signature, "bad_signature_rejected")
        .label_if(mixed, "valid_and_invalid_in_one_case")
        .label_if(seen.returned > 0, "valid_bundle_returned")
        .label_if(seen.returned_onetime > 0, "valid_onetime_bundle_returned")
        .label_if(seen.expired_in_state > 0, "state_holds_since_expired_bundles")
        .label_if(seen.valid_refused > 0, "acceptable_bundle_refused")
        .label_if(seen.flip_ignored_bit, "flipped_bit_not_covered_by_xeddsa")
        .label_if(seen.boundary > 0, "clock_boundary"))
}

// --- part 1: acceptance ------------------------------------------------------------------------

#[derive(Clone, Debug, Serialize, Deserialize)]
struct AcceptCase {
    seed: u64,
    bundles: Vec<BundleSpec>,
}

fn check_accept(case: &AcceptCase) -> CaseResult {
    let mut keys = Keys::new(case.seed);
    let base = now();
    let mut state = Registry::init();
    let mut registered = Vec::new();
    let mut seen = Seen::default();
    for spec in &case.bundles {
        let record = build(spec, base, &mut keys)?;
        if matches!(spec.sig, Sig::FlipBit(_)) && record.sig_ok {
            seen.flip_ignored_bit = true;
        }
        state = add(state, &record, &mut registered, &mut seen)?;
    }
    finish(state, &registered, seen, "accept")
}

// --- part 2: persisted state ---------------------------------------------------------------------

/// Same shape as `KeyRegistryState` (field names are what serde writes).
#[derive(Serialize)]
struct PersistedState {
    identities: BTreeMap<Id, PublicKey>,
    onetime_bundles: BTreeMap<Id, Vec<OneTimeKeyBundle>>,
    longterm_bundles: BTreeMap<Id, Vec<LongTermKeyBundle>>,
}

#[derive(Clone, Debug, Serialize, Deserialize)]
struct PersistedCase {
    seed: u64,
    /// How long ago the state was persisted (seconds).
    age: u32,
    /// Bundles inside the persisted state: (member, one-time?, with one-time key?, seconds of
    /// validity counted from the persist time).
    old: Vec<(u8, bool, bool, u32)>,
    /// Bundles registered through the API after loading.
    fresh: Vec<BundleSpec>,
}

fn check_persisted(case: &PersistedCase) -> CaseResult {
    let mut keys = Keys::new(case.seed);
    let base = now();
    let then = base.saturating_sub(case.age as u64);
    let mut registered = Vec::new();
    let mut seen = Seen::default();
    let mut persisted = PersistedState {
        identities: BTreeMap::new(),
        onetime_bundles: BTreeMap::new(),
        longterm_bundles: BTreeMap::new(),
    };
    for (member, onetime, with_key, validity) in &case.old {
        let spec = BundleSpec {
            member: *member,
            onetime: *onetime,
            with_onetime_key: *with_key,
            // What `Lifetime::new(validity)` produced at persist time.
            not_before: Bound::Rel(-3600),
            not_after: Bound::Rel(*validity as i64),
            sig: Sig::Valid,
            reuse_prekey: None,
        };
        let record = build(&spec, then, &mut keys)?;
        // An honest run only persisted what it had accepted: valid at `then`.
        if !(record.not_before < then && then < record.not_after) {
            continue;
        }
        if record.life(base, base + 5) == Life::Invalid {
            seen.expired_in_state += 1;
        }
        persisted.identities.insert(record.member, public(&keys.identity(record.member))?);
        match &record.bundle {
            Bundle::Long(b) => persisted.longterm_bundles.entry(record.member).or_default().push(b.clone()),
            Bundle::One(b) => persisted.onetime_bundles.entry(record.member).or_default().push(b.clone()),
        }
        registered.push(record);
    }
    let bytes = encode_cbor(&persisted).map_err(|e| format!("harness: encode persisted state: {e}"))?;
    let mut state: State = match decode_cbor(&bytes[..]) {
        Ok(s) => s,
        Err(e) => engine::harness_error(&format!("C38: KeyRegistryState no longer decodes from the mirrored layout: {e}")),
    };
    for spec in &case.fresh {
        let record = build(spec, base, &mut keys)?;
        state = add(state, &record, &mut registered, &mut seen)?;
    }
    finish(state, &registered, seen, "persisted")
}

// --- part 3: real expiry -------------------------------------------------------------------------

#[derive(Clone, Debug, Serialize, Deserialize)]
struct SleepCase {
    seed: u64,
    /// (member, one-time?, short-lived?) in registration order.
    bundles: Vec<(u8, bool, bool)>,
}

fn check_sleep(case: &SleepCase) -> CaseResult {
    let mut keys = Keys::new(case.seed);
    // Start right after a second boundary so that the 2 s validity is not cut short.
    let start = now();
    while now() == start {
        std::thread::sleep(Duration::from_millis(5));
    }
    let base = now();
    let mut state = Registry::init();
    let mut registered = Vec::new();
    let mut seen = Seen::default();
    let mut short_accepted = 0;
    for (member, onetime, short) in &case.bundles {
        let spec = BundleSpec {
            member: *member,
            onetime: *onetime,
            with_onetime_key: true,
            not_before: Bound::Rel(-3600),
            not_after: Bound::Rel(if *short { 2 } else { 3600 }),
            sig: Sig::Valid,
            reuse_prekey: None,
        };
        let record = build(&spec, base, &mut keys)?;
        let before = registered.len();
        state = add(state, &record, &mut registered, &mut seen)?;
        if *short && registered.len() > before {
            short_accepted += 1;
        }
    }
    // Wait until every short-lived bundle is over for at least a full second.
    let deadline = base + 3;
    let mut guard = 0;
    while now() <= deadline {
        std::thread::sleep(Duration::from_millis(50));
        guard += 1;
        if guard > 2_000 {
            engine::harness_error("C38: the system clock does not advance");
        }
    }
    seen.expired_in_state = short_accepted;
    finish(state, &registered, seen, "expiry_sleep")
}

// --- generators ------------------------------------------------------------------------------------

fn margin() -> impl Strategy<Value = i64> {
    prop_oneof![
        3 => Just(10i64),
        3 => Just(60i64),
        3 => Just(3_600i64),
        2 => Just(86_400i64 * 30),
        1 => Just(86_400i64 * 365 * 30),
        2 => 10i64..100_000,
    ]
}

/// (not_before, not_after): valid, expired, not yet valid, degenerate and near-boundary lifetimes.
fn lifetime() -> impl Strategy<Value = (Bound, Bound)> {
    prop_oneof![
        // valid now
        8 => (margin(), margin()).prop_map(|(a, b)| (Bound::Rel(-a), Bound::Rel(b))),
        1 => margin().prop_map(|b| (Bound::Abs(0), Bound::Rel(b))),
        1 => margin().prop_map(|a| (Bound::Rel(-a), Bound::Abs(u64::MAX))),
        // expired
        5 => (margin(), margin()).prop_map(|(a, len)| (Bound::Rel(-a - len), Bound::Rel(-a))),
        1 => Just((Bound::Abs(0), Bound::Abs(0))),
        1 => Just((Bound::Abs(0), Bound::Abs(1))),
        // not yet valid
        5 => (margin(), margin()).prop_map(|(a, len)| (Bound::Rel(a), Bound::Rel(a + len))),
        1 => Just((Bound::Abs(u64::MAX - 1), Bound::Abs(u64::MAX))),
        // inverted / empty around now
        1 => (margin(), margin()).prop_map(|(a, b)| (Bound::Rel(b), Bound::Rel(-a))),
        1 => margin().prop_map(|a| (Bound::Rel(-a), Bound::Rel(-a))),
        // within a few seconds of the clock (asserted through the [t0, t1] bracket only)
        1 => (-3i64..=3, -3i64..=3).prop_map(|(a, b)| (Bound::Rel(a), Bound::Rel(b))),
    ]
}

fn sig() -> impl Strategy<Value = Sig> {
    prop_oneof![
        6 => Just(Sig::Valid),
        2 => (0u16..512).prop_map(Sig::FlipBit),
        1 => Just(Sig::OtherIdentity),
        1 => Just(Sig::OtherPreKey),
        1 => Just(Sig::Zero),
    ]
}

fn bundle_spec() -> impl Strategy<Value = BundleSpec> {
    (0u8..MEMBERS as u8, any::<bool>(), prop::bool::weighted(0.8), lifetime(), sig()).prop_map(
        |(member, onetime, with_onetime_key, (not_before, not_after), sig)| BundleSpec {
            member,
            onetime,
            with_onetime_key,
            not_before,
            not_after,
            sig,
            reuse_prekey: None,
        },
    )
}

fn accept_case() -> impl Strategy<Value = AcceptCase> {
    (
        any::<u64>(),
        prop::collection::vec((bundle_spec(), prop::option::weighted(0.3, any::<u8>())), 1..=10),
    )
        .prop_map(|(seed, bundles)| AcceptCase {
            seed,
            bundles: bundles
                .into_iter()
                .map(|(mut b, reuse)| {
                    b.reuse_prekey = reuse;
                    b
                })
                .collect(),
        })
}

fn persisted_case() -> impl Strategy<Value = PersistedCase> {
    let age = prop_oneof![Just(600u32), Just(86_400u32), Just(86_400u32 * 100), Just(86_400u32 * 400)];
    let validity = prop_oneof![
        Just(60u32),
        Just(3_600u32),
        Just(86_400u32),
        Just(86_400u32 * 28 * 3),
        Just(86_400u32 * 365 * 2),
        Just(u32::MAX),
    ];
    (
        any::<u64>(),
        age,
        prop::collection::vec((0u8..MEMBERS as u8, any::<bool>(), prop::bool::weighted(0.8), validity), 1..=8),
        prop::collection::vec(bundle_spec(), 0..=4),
    )
        .prop_map(|(seed, age, old, fresh)| PersistedCase { seed, age, old, fresh })
}

fn sleep_case() -> impl Strategy<Value = SleepCase> {
    (any::<u64>(), prop::collection::vec((0u8..MEMBERS as u8, any::<bool>(), any::<bool>()), 0..=5)).prop_map(|(seed, mut bundles)| {
        // Every case holds a long-lived one-time bundle registered *before* a short-lived one of
        // the same member (the short-lived one is what `pop` reaches first), plus both long-term kinds.
        bundles.push((0, true, false));
        bundles.push((0, true, true));
        bundles.push((1, false, true));
        bundles.push((1, false, false));
        SleepCase { seed, bundles }
    })
}

pub fn run(mut ctx: Ctx) -> ! {
    ctx.assume("Lifetime reads the system clock (no seam): each registry call is bracketed by two clock readings and a lifetime is asserted only when valid/invalid for the whole bracket and not exactly on a bound");
    ctx.assume("all bundles registered for a member carry that member's identity key (the registry asserts this as a sanity check); the signature covers the pre-key bytes only (documented), so lifetimes are not part of 'signature verifies'");
    ctx.assume("only the statement's direction is a violation (invalid accepted / returned); refusing acceptable bundles lowers the non-trivial ratio instead");
    ctx.assume("part expiry_sleep really sleeps about 3 s per case (1 case quick, 20 thorough)");
    let _watchdog = engine::Watchdog::arm("C38 (sleeping cases)", Duration::from_secs(600));
    ctx.run_prop(
        Part::new(
            "accept",
            "1..10 long-term/one-time bundles for 3 members: lifetimes valid / expired / not yet valid / inverted / empty / within 3 s of the clock, margins 10 s..30 years, absolute 0 and u64::MAX bounds; signatures valid / one bit flipped / other identity / other pre-key / zero; registered in order, then key_bundle for every member and kind (one-time drained) before and after remove_expired; non-trivial = an acceptable bundle accepted, an unacceptable one rejected and a valid bundle returned",
            6_000,
            200_000,
        )
        .min_nontrivial(0.3),
        accept_case,
        check_accept,
    );
    ctx.run_prop(
        Part::new(
            "persisted",
            "registry state as persisted 10 min..400 days ago by an honest run (1..8 correctly signed bundles valid then, for 60 s..u32::MAX s), loaded through serde, 0..4 fresh bundles registered, then retrieval as in part accept; non-trivial = the loaded state holds a since-expired bundle and a valid bundle is returned",
            3_000,
            100_000,
        )
        .min_nontrivial(0.2),
        persisted_case,
        check_persisted,
    );
    ctx.run_prop(
        Part::new(
            "expiry_sleep",
            "bundles valid for 2 s and for 1 h registered through the API (one-time and long-term, short-lived one-time bundle registered last for member 0), real sleep until the short ones are over by a full second, then retrieval as in part accept; non-trivial = a short-lived bundle was accepted and a valid bundle is returned afterwards",
            1,
            20,
        )
        .workers(1, 20)
        .shrink_iters(3)
        .min_nontrivial(0.5),
        sleep_case,
        check_sleep,
    );
    ctx.finish()
}
