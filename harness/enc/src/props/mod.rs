pub mod c34;
pub mod c36;
pub mod c37;
pub mod c38;
