//! C37 Two-party messaging decrypts in any interleaving and rejects replays.
//!
//! Driver (after the repository's `fuzz/fuzz_targets/groups_2sm.rs`, plus the replay action): two
//! parties with seeded key material, two in-order inboxes, generated actions
//! {A sends, B sends, A receives next, B receives next, replay an already processed message to its
//! receiver}. Oracle:
//!
//! * every in-order `receive` is `Ok` and returns exactly the plaintext that was sent;
//! * every replay (state and key manager cloned beforehand) is `Err`; the driver goes on with the
//!   pre-replay state, so all later traffic must still decrypt;
//! * at the end both inboxes are flushed and one more message per direction is exchanged.
//!
//! Session variants: one-time pre-key bundles (the property's anchor) and long-term bundles;
//! set-ups: initiator/receiver (`init_to_send` / `init_to_receive`, data scheme) and both sides
//! `init_to_send` (message scheme, fuzz target).
//!
//! Documented limit mirrored here: the *initial X3DH message of a long-term session* can be
//! decrypted again, because nothing is consumed when no one-time pre-key is involved
//! (`x3dh_decrypt`: "an application using X3DH should reject the received ciphertext when an
//! expired pre-key or already used one-time pre-key was used", module docs: strong guarantees
//! need one-time pre-keys). Such a replay is labelled, not asserted; every other replay
//! (all messages of one-time sessions, all HPKE rounds of long-term sessions) must be rejected.

use std::collections::VecDeque;

use engine::proptest::prelude::*;
use engine::{CaseOk, CaseResult, Ctx, Part, ensure};
use p2panda_encryption::Rng;
use p2panda_encryption::crypto::x25519::SecretKey;
use p2panda_encryption::key_bundle::{Lifetime, LongTermKeyBundle, OneTimeKeyBundle};
use p2panda_encryption::key_manager::{KeyManager, KeyManagerState};
use p2panda_encryption::traits::{KeyBundle, PreKeyManager};
use p2panda_encryption::two_party::{TwoParty, TwoPartyMessage, TwoPartyState};
use serde::{Deserialize, Serialize};

use crate::util::seed32;

#[derive(Clone, Copy, Debug, PartialEq, Eq, Serialize, Deserialize)]
enum Variant {
    OneTime,
    LongTerm,
}

#[derive(Clone, Copy, Debug, PartialEq, Eq, Serialize, Deserialize)]
enum Setup {
    /// A: `init_to_send(B's bundle)`, B: `init_to_receive()`.
    Initiator,
    /// Both: `init_to_send(other's bundle)`.
    BothInit,
}

#[derive(Clone, Debug, Serialize, Deserialize)]
enum Action {
    /// Party (0 = A, 1 = B) sends a plaintext of the given length.
    Send(u8, u16),
    /// Party receives the next message of its inbox.
    Recv(u8),
    /// An already processed message (index into the party's processed list) is delivered again.
    Replay(u8, u16),
}

#[derive(Clone, Debug, Serialize, Deserialize)]
struct Case {
    seed: u64,
    variant: Variant,
    setup: Setup,
    actions: Vec<Action>,
}

struct Party<KB: KeyBundle> {
    state: TwoPartyState<KB>,
    manager: KeyManagerState,
    inbox: VecDeque<(Vec<u8>, TwoPartyMessage)>,
    /// Processed messages with the number of protocol steps (sends + receives) this party had
    /// done when it processed them.
    processed: Vec<(TwoPartyMessage, usize)>,
    sent: usize,
    received: usize,
}

impl<KB: KeyBundle> Party<KB> {
    fn steps(&self) -> usize {
        self.sent + self.received
    }
}

#[derive(Default)]
struct Seen {
    recv: [usize; 2],
    replays: usize,
    replay_after_advance: bool,
    replay_prekey: bool,
    replay_hpke: bool,
    lt_prekey_replay_accepted: bool,
    crossing: bool,
    burst: bool,
    skipped_send: bool,
}

fn is_prekey_message(message: &TwoPartyMessage) -> Result<bool, String> {
    let v = serde_json::to_value(message).map_err(|e| format!("harness: cannot inspect message: {e}"))?;
    match v.get("key_used") {
        Some(k) => Ok(k.as_str() == Some("PreKey")),
        None => Err("harness: message has no key_used field".into()),
    }
}

fn plaintext(seed: u64, counter: usize, len: u16) -> Vec<u8> {
    let mut out = Vec::with_capacity(len as usize);
    let mut block = 0u64;
    while out.len() < len as usize {
        out.extend_from_slice(&seed32(seed ^ (counter as u64) << 20, 0x37_0000 + block));
        block += 1;
    }
    out.truncate(len as usize);
    out
}

fn receive_next<KB>(parties: &mut [Party<KB>; 2], who: usize, seen: &mut Seen) -> Result<bool, String>
where
    KB: KeyBundle + Clone,
{
    let p = &mut parties[who];
    let Some((expected, message)) = p.inbox.pop_front() else {
        return Ok(false);
    };
    let name = ["A", "B"][who];
    let result = TwoParty::<KeyManager, KB>::receive(p.state.clone(), p.manager.clone(), message.clone());
    match result {
        Ok((state, manager, got)) => {
            ensure!(
                got == expected,
                "{name} decrypted message #{} of its inbox to {} bytes {:?}.. instead of the {} bytes that were sent",
                p.received,
                got.len(),
                &got[..got.len().min(8)],
                expected.len()
            );
            p.state = state;
            p.manager = manager;
            p.received += 1;
            let steps = p.steps();
            p.processed.push((message, steps));
            seen.recv[who] += 1;
            Ok(true)
        }
        Err(e) => Err(format!(
            "{name} failed to decrypt in-order message #{} ({} bytes) of its inbox: {e}",
            p.received,
            expected.len()
        )),
    }
}

fn send<KB>(parties: &mut [Party<KB>; 2], who: usize, text: Vec<u8>, rng: &Rng) -> Result<(), String>
where
    KB: KeyBundle + Clone,
{
    let name = ["A", "B"][who];
    let p = &mut parties[who];
    let (state, message) = TwoParty::<KeyManager, KB>::send(p.state.clone(), &p.manager, &text, rng)
        .map_err(|e| format!("{name} failed to send its message #{}: {e}", p.sent))?;
    p.state = state;
    p.sent += 1;
    parties[1 - who].inbox.push_back((text, message));
    Ok(())
}

fn drive<KB>(case: &Case, mut parties: [Party<KB>; 2], rng: &Rng) -> CaseResult
where
    KB: KeyBundle + Clone,
{
    let mut seen = Seen::default();
    let mut counter = 0usize;
    let mut run = (2usize, 0usize); // (party of the current run of sends, length)

    for action in &case.actions {
        match action {
            Action::Send(who, len) => {
                let who = (*who % 2) as usize;
                // A party that was initialised to receive cannot open the session.
                if case.setup == Setup::Initiator && who == 1 && parties[1].received == 0 {
                    seen.skipped_send = true;
                    continue;
                }
                counter += 1;
                send(&mut parties, who, plaintext(case.seed, counter, *len), rng)?;
                if !parties[0].inbox.is_empty() && !parties[1].inbox.is_empty() {
                    seen.crossing = true;
                }
                run = if run.0 == who { (who, run.1 + 1) } else { (who, 1) };
                if run.1 >= 3 {
                    seen.burst = true;
                }
            }
            Action::Recv(who) => {
                receive_next(&mut parties, (*who % 2) as usize, &mut seen)?;
            }
            Action::Replay(who, raw) => {
                let who = (*who % 2) as usize;
                let name = ["A", "B"][who];
                let p = &parties[who];
                if p.processed.is_empty() {
                    continue;
                }
                let index = engine::idx(*raw, p.processed.len());
                let (message, steps_then) = p.processed[index].clone();
                let prekey = is_prekey_message(&message)?;
                let result = TwoParty::<KeyManager, KB>::receive(p.state.clone(), p.manager.clone(), message);
                seen.replays += 1;
                if p.steps() > steps_then {
                    seen.replay_after_advance = true;
                }
                if prekey {
                    seen.replay_prekey = true;
                } else {
                    seen.replay_hpke = true;
                }
                if result.is_ok() {
                    if prekey && case.variant == Variant::LongTerm {
                        // Documented limit of X3DH without a one-time pre-key (see module docs).
                        seen.lt_prekey_replay_accepted = true;
                    } else {
                        return Err(format!(
                            "{name} accepted a replay of the already processed message #{index} ({} message, {} session) after {} further protocol steps",
                            if prekey { "initial X3DH" } else { "HPKE round" },
                            if case.variant == Variant::OneTime { "one-time" } else { "long-term" },
                            p.steps() - steps_then
                        ));
                    }
                }
                // The pre-replay state stays in use.
            }
        }
    }

    // Flush both inboxes (in order per direction), then one more exchange per direction.
    loop {
        let a = receive_next(&mut parties, 0, &mut seen)?;
        let b = receive_next(&mut parties, 1, &mut seen)?;
        if !a && !b {
            break;
        }
    }
    for who in [0usize, 1] {
        if case.setup == Setup::Initiator && who == 1 && parties[1].received == 0 {
            continue;
        }
        counter += 1;
        send(&mut parties, who, plaintext(case.seed, counter, 17), rng)?;
        receive_next(&mut parties, 1 - who, &mut seen)?;
    }

    let both_directions = seen.recv[0] >= 1 && seen.recv[1] >= 1;
    Ok(CaseOk::nontrivial(both_directions && seen.replay_after_advance)
        .label_if(case.variant == Variant::OneTime, "one_time_session")
        .label_if(case.variant == Variant::LongTerm, "long_term_session")
        .label_if(case.setup == Setup::BothInit, "both_init_to_send")
        .label_if(both_directions, "both_directions_received")
        .label_if(seen.replays > 0, "has_replay")
        .label_if(seen.replay_after_advance, "replay_after_ratchet_advanced")
        .label_if(seen.replay_prekey, "replay_of_initial_x3dh_message")
        .label_if(seen.replay_hpke, "replay_of_hpke_round")
        .label_if(seen.lt_prekey_replay_accepted, "long_term_x3dh_replay_accepted_documented")
        .label_if(seen.crossing, "messages_crossing")
        .label_if(seen.burst, "burst_of_3_sends")
        .label_if(seen.skipped_send, "receiver_send_before_first_receive_skipped"))
}

fn party<KB: KeyBundle>(state: TwoPartyState<KB>, manager: KeyManagerState) -> Party<KB> {
    Party {
        state,
        manager,
        inbox: VecDeque::new(),
        processed: Vec::new(),
        sent: 0,
        received: 0,
    }
}

fn check(case: &Case) -> CaseResult {
    let rng = Rng::from_seed(seed32(case.seed, 0xC37));
    let err = |what: &str, e: &dyn std::fmt::Display| format!("harness: {what}: {e}");
    let a_secret = SecretKey::from_bytes(rng.random_array().map_err(|e| err("rng", &e))?);
    let b_secret = SecretKey::from_bytes(rng.random_array().map_err(|e| err("rng", &e))?);
    let a_manager = KeyManager::init_and_generate_prekey(&a_secret, Lifetime::default(), &rng).map_err(|e| err("key manager", &e))?;
    let b_manager = KeyManager::init_and_generate_prekey(&b_secret, Lifetime::default(), &rng).map_err(|e| err("key manager", &e))?;
    match case.variant {
        Variant::OneTime => {
            let (a_manager, a_bundle) = KeyManager::generate_onetime_bundle(a_manager, &rng).map_err(|e| err("one-time bundle", &e))?;
            let (b_manager, b_bundle) = KeyManager::generate_onetime_bundle(b_manager, &rng).map_err(|e| err("one-time bundle", &e))?;
            let a = TwoParty::<KeyManager, OneTimeKeyBundle>::init_to_send(b_bundle);
            let b = match case.setup {
                Setup::Initiator => TwoParty::<KeyManager, OneTimeKeyBundle>::init_to_receive(),
                Setup::BothInit => TwoParty::<KeyManager, OneTimeKeyBundle>::init_to_send(a_bundle),
            };
            drive(case, [party(a, a_manager), party(b, b_manager)], &rng)
        }
        Variant::LongTerm => {
            let a_bundle = KeyManager::prekey_bundle(&a_manager).map_err(|e| err("long-term bundle", &e))?;
            let b_bundle = KeyManager::prekey_bundle(&b_manager).map_err(|e| err("long-term bundle", &e))?;
            let a = TwoParty::<KeyManager, LongTermKeyBundle>::init_to_send(b_bundle);
            let b = match case.setup {
                Setup::Initiator => TwoParty::<KeyManager, LongTermKeyBundle>::init_to_receive(),
                Setup::BothInit => TwoParty::<KeyManager, LongTermKeyBundle>::init_to_send(a_bundle),
            };
            drive(case, [party(a, a_manager), party(b, b_manager)], &rng)
        }
    }
}

fn action() -> impl Strategy<Value = Action> {
    let len = prop_oneof![1 => Just(0u16), 3 => 0u16..=32, 1 => 0u16..=256, 1 => Just(256u16)];
    prop_oneof![
        3 => (0u8..2, len).prop_map(|(w, l)| Action::Send(w, l)),
        3 => (0u8..2).prop_map(Action::Recv),
        2 => (0u8..2, any::<u16>()).prop_map(|(w, i)| Action::Replay(w, i)),
    ]
}

fn case(max_actions: usize) -> impl Strategy<Value = Case> {
    (
        any::<u64>(),
        prop_oneof![3 => Just(Variant::OneTime), 1 => Just(Variant::LongTerm)],
        prop_oneof![Just(Setup::Initiator), Just(Setup::BothInit)],
        prop::collection::vec(action(), 1..=max_actions),
    )
        .prop_map(|(seed, variant, setup, actions)| Case {
            seed,
            variant,
            setup,
            actions,
        })
}

pub fn run(mut ctx: Ctx) -> ! {
    ctx.assume("messages of one direction are processed in send order (2SM's documented requirement); replays are exact copies delivered to the original receiver");
    ctx.assume("a party initialised with init_to_receive does not send before its first receive (its 2SM state has no key material to send with)");
    ctx.assume("replay of the initial X3DH message of a *long-term* session is not asserted (documented: nothing is consumed without a one-time pre-key); it is counted under the label long_term_x3dh_replay_accepted_documented");
    ctx.assume("HPKE sealing inside 2SM draws its ephemeral key from the OS RNG (hpke-rs offers no seam); ciphertext bytes differ between runs, the checked outcomes do not depend on them");
    ctx.run_prop(
        Part::new(
            "interleavings",
            "2SM sessions (one-time 3:1 long-term; initiator/receiver or both init_to_send) driven by <=128 actions {send 0..256 bytes, receive next, replay processed message}; non-trivial = both directions delivered and at least one replay after the receiver's ratchet advanced",
            6_000,
            100_000,
        )
        .min_nontrivial(0.25),
        || case(128),
        check,
    );
    ctx.finish()
}
