//! C34 Message ratchet yields the sender's key for any delivery order.
//!
//! Oracle: a small reference model of the receiving window (head `h`, set of still available past
//! generations) written from the documentation of `DecryptionRatchet::secret_for_decryption` and
//! its unit tests, plus the *sender chain* (`RatchetSecret::ratchet_forward` iterated from the
//! same initial secret) as the source of "the key material the sender used":
//!
//! * `g > h + maximum_forward_distance`            -> rejected (`TooDistantInTheFuture`)
//! * `g < h` and `h - g > ooo_tolerance`           -> rejected (`TooDistantInThePast`)
//! * `g >= h` (inside the forward window)          -> the sender's key of generation `g`; skipped
//!   generations become available, head moves to `g + 1`, generations below `h' - ooo` are dropped
//! * `g < h` inside the window, not yet handed out -> the sender's key of generation `g`
//! * `g < h` inside the window, already handed out -> rejected (`SecretReuse`)
//!
//! The API consumes the state; it is cloned before every call and the clone is used after an
//! error (that is what "state unchanged on error" means for a by-value API, and what the caller
//! in `message_scheme/group.rs` does by keeping its previous state). At the end every generation
//! the model still considers available is requested once and must yield the sender's key.

use std::collections::BTreeSet;

use engine::proptest::prelude::*;
use engine::{CaseOk, CaseResult, Ctx, Part, ensure};
use p2panda_encryption::message_scheme::ratchet::RatchetKeyMaterial;
use p2panda_encryption::message_scheme::{
    DecryptionRatchet, DecryptionRatchetState, RatchetError, RatchetSecret, RatchetSecretState,
};
use serde::{Deserialize, Serialize};

use crate::util::{cbor_hex, secret32, seed32};

/// Bound on the generation a case may reach (bounds the HKDF work per case; sequences that would
/// go further are cut at that step).
const MAX_HEAD: u32 = 20_000;

#[derive(Clone, Debug, Serialize, Deserialize)]
enum Step {
    /// The generation the receiver expects next.
    Next,
    /// Head + d (a forward jump over d generations).
    Ahead(u16),
    /// Head + maximum_forward_distance + k (around the edge of the forward window).
    FutureEdge(i8),
    /// Head - 1 - d (a generation of the past).
    Back(u16),
    /// Head - ooo_tolerance + k (around the edge of the out-of-order window).
    PastEdge(i8),
    /// A generation requested earlier in this sequence (index into the request history).
    Dup(u16),
    /// Absolute generation.
    Abs(u32),
}

#[derive(Clone, Debug, Serialize, Deserialize)]
struct Case {
    seed: u64,
    fwd: u32,
    ooo: u32,
    steps: Vec<Step>,
}

#[derive(Clone, Copy, Debug, PartialEq, Eq)]
enum Expect {
    Key,
    Future,
    Past { handed_out_before: bool },
    Reuse,
}

/// Reference model of the receiving window.
struct Model {
    fwd: u32,
    ooo: u32,
    head: u32,
    available: BTreeSet<u32>,
    handed_out: BTreeSet<u32>,
}

impl Model {
    fn expect(&self, g: u32) -> Expect {
        let (h, fwd, ooo) = (self.head as u64, self.fwd as u64, self.ooo as u64);
        let g64 = g as u64;
        if g64 > h + fwd {
            Expect::Future
        } else if g64 >= h {
            Expect::Key
        } else if h - g64 > ooo {
            Expect::Past {
                handed_out_before: self.handed_out.contains(&g),
            }
        } else if self.available.contains(&g) {
            Expect::Key
        } else {
            Expect::Reuse
        }
    }

    fn apply_key(&mut self, g: u32) {
        if g >= self.head {
            for skipped in self.head..g {
                self.available.insert(skipped);
            }
            self.head = g + 1;
            let low = (self.head as u64).saturating_sub(self.ooo as u64) as u32;
            self.available = self.available.split_off(&low);
        } else {
            self.available.remove(&g);
        }
        self.handed_out.insert(g);
    }
}

/// The sender's chain: key material per generation, derived lazily.
struct Sender {
    state: Option<RatchetSecretState>,
    keys: Vec<RatchetKeyMaterial>,
}

impl Sender {
    fn new(secret: [u8; 32]) -> Self {
        Sender {
            state: Some(RatchetSecret::init(secret32(secret))),
            keys: Vec::new(),
        }
    }

    fn key(&mut self, g: u32) -> Result<&RatchetKeyMaterial, String> {
        while self.keys.len() <= g as usize {
            let state = self.state.take().expect("sender state");
            let (next, generation, material) =
                RatchetSecret::ratchet_forward(state).map_err(|e| format!("sender chain: ratchet_forward failed: {e}"))?;
            ensure!(
                generation as usize == self.keys.len(),
                "sender chain: ratchet_forward reported generation {generation}, expected {}",
                self.keys.len()
            );
            self.keys.push(material);
            self.state = Some(next);
        }
        Ok(&self.keys[g as usize])
    }
}

fn resolve(step: &Step, model: &Model, history: &[u32]) -> u32 {
    let h = model.head as i64;
    let clamp = |v: i64| v.clamp(0, u32::MAX as i64) as u32;
    match step {
        Step::Next => model.head,
        Step::Ahead(d) => clamp(h + *d as i64),
        Step::FutureEdge(k) => clamp(h + model.fwd as i64 + *k as i64),
        Step::Back(d) => clamp(h - 1 - *d as i64),
        Step::PastEdge(k) => clamp(h - model.ooo as i64 + *k as i64),
        Step::Dup(i) => {
            if history.is_empty() {
                model.head
            } else {
                history[engine::idx(*i, history.len())]
            }
        }
        Step::Abs(g) => *g,
    }
}

fn describe(e: &RatchetError) -> &'static str {
    match e {
        RatchetError::Hkdf(_) => "Hkdf",
        RatchetError::TooDistantInTheFuture => "TooDistantInTheFuture",
        RatchetError::TooDistantInThePast => "TooDistantInThePast",
        RatchetError::IndexOutOfBounds => "IndexOutOfBounds",
        RatchetError::SecretReuse => "SecretReuse",
    }
}

#[derive(Default)]
struct Seen {
    jump: bool,
    backfill: bool,
    reuse: bool,
    future: bool,
    past: bool,
    future_edge_accept: bool,
    past_edge_accept: bool,
    capped: bool,
}

/// One request against the real ratchet, compared with the model. Returns the state to go on with.
fn request(
    state: DecryptionRatchetState,
    model: &mut Model,
    sender: &mut Sender,
    g: u32,
    seen: &mut Seen,
    ctx_txt: &str,
) -> Result<DecryptionRatchetState, String> {
    let (fwd, ooo, head) = (model.fwd, model.ooo, model.head);
    let expect = model.expect(g);
    let before = state.clone();
    let result = DecryptionRatchet::secret_for_decryption(state, g, fwd, ooo);
    let at = || format!("{ctx_txt}: request generation {g} at head {head} (fwd={fwd}, ooo={ooo})");
    match (expect, result) {
        (Expect::Key, Ok((next, material))) => {
            let wanted = sender.key(g)?;
            ensure!(
                &material == wanted,
                "{}: key material differs from the sender's chain: got {} want {}", at(),
                cbor_hex(&material),
                cbor_hex(wanted)
            );
            if g > head {
                seen.jump = true;
                if g as u64 == head as u64 + fwd as u64 {
                    seen.future_edge_accept = true;
                }
            }
            if g < head {
                seen.backfill = true;
                if head - g == ooo {
                    seen.past_edge_accept = true;
                }
            }
            model.apply_key(g);
            Ok(next)
        }
        (Expect::Key, Err(e)) => Err(format!(
            "{}: generation inside the windows and not handed out before was rejected with {}", at(),
            describe(&e)
        )),
        (Expect::Future, Err(e)) => {
            ensure!(
                matches!(e, RatchetError::TooDistantInTheFuture),
                "{}: beyond the forward window, rejected with {} instead of TooDistantInTheFuture", at(),
                describe(&e)
            );
            seen.future = true;
            Ok(before)
        }
        (Expect::Past { handed_out_before }, Err(e)) => {
            let ok = matches!(e, RatchetError::TooDistantInThePast)
                || (handed_out_before && matches!(e, RatchetError::SecretReuse));
            ensure!(
                ok,
                "{}: beyond the out-of-order window, rejected with {} instead of TooDistantInThePast", at(),
                describe(&e)
            );
            seen.past = true;
            Ok(before)
        }
        (Expect::Reuse, Err(e)) => {
            ensure!(
                matches!(e, RatchetError::SecretReuse),
                "{}: generation already handed out, rejected with {} instead of SecretReuse", at(),
                describe(&e)
            );
            seen.reuse = true;
            Ok(before)
        }
        (Expect::Future, Ok(_)) => Err(format!("{}: generation beyond the forward window was accepted", at())),
        (Expect::Past { .. }, Ok(_)) => Err(format!("{}: generation beyond the out-of-order window was accepted", at())),
        (Expect::Reuse, Ok((_, material))) => {
            let same = sender.key(g).map(|k| k == &material).unwrap_or(false);
            Err(format!(
                "{}: key of a generation was handed out a second time ({} the sender's key of that generation)", at(),
                if same { "it is" } else { "and it is not" }
            ))
        }
    }
}

fn check(case: &Case) -> CaseResult {
    let secret = seed32(case.seed, 0xC34);
    let mut sender = Sender::new(secret);
    let mut model = Model {
        fwd: case.fwd,
        ooo: case.ooo,
        head: 0,
        available: BTreeSet::new(),
        handed_out: BTreeSet::new(),
    };
    let mut state = DecryptionRatchet::init(secret32(secret));
    let mut history: Vec<u32> = Vec::new();
    let mut seen = Seen::default();

    for (i, step) in case.steps.iter().enumerate() {
        let g = resolve(step, &model, &history);
        if model.expect(g) == Expect::Key && g >= MAX_HEAD {
            seen.capped = true;
            break;
        }
        state = request(state, &mut model, &mut sender, g, &mut seen, &format!("step {i}"))?;
        history.push(g);
    }

    let nontrivial = seen.jump && seen.backfill;
    let labels_backfill = seen.backfill;

    // Drain: everything the model still holds must be retrievable exactly once with the
    // sender's key; everything else inside the window is a reuse.
    let low = (model.head as u64).saturating_sub(model.ooo as u64) as u32;
    // (For very large windows only the newest 64 and the oldest 8 generations are drained.)
    let window: Vec<u32> = (low..model.head).collect();
    let drained: Vec<u32> = if window.len() > 72 {
        window[window.len() - 64..].iter().rev().chain(window[..8].iter()).copied().collect()
    } else {
        window.iter().rev().copied().collect()
    };
    for g in &drained {
        state = request(state, &mut model, &mut sender, *g, &mut seen, "drain")?;
        state = request(state, &mut model, &mut sender, *g, &mut seen, "drain (second request)")?;
    }
    ensure!(
        window.len() > 72 || model.available.is_empty(),
        "harness model error: available generations left after the drain: {:?}",
        model.available
    );
    drop(state);

    Ok(CaseOk::nontrivial(nontrivial)
        .label_if(seen.jump, "forward_jump")
        .label_if(labels_backfill, "backfill_inside_window")
        .label_if(seen.reuse, "reuse_rejected")
        .label_if(seen.future, "future_rejected")
        .label_if(seen.past, "past_rejected")
        .label_if(seen.future_edge_accept, "accepted_at_forward_edge")
        .label_if(seen.past_edge_accept, "accepted_at_ooo_edge")
        .label_if(seen.capped, "cut_at_max_head")
        .label_if(case.ooo == 0, "ooo_zero")
        .label_if(case.fwd == 0, "fwd_zero"))
}

/// All sequences over generations `0..alphabet` of length `1..=max_len`, for all window pairs.
fn exhaustive_domain(alphabet: u32, max_len: u32) -> impl Iterator<Item = Case> {
    const FWD: [u32; 7] = [0, 1, 2, 3, 4, 5, 1000];
    const OOO: [u32; 8] = [0, 1, 2, 3, 4, 5, 6, 1000];
    (1..=max_len).flat_map(move |len| {
        let count = (alphabet as u64).pow(len);
        (0..count).flat_map(move |mut code| {
            let mut gens = Vec::with_capacity(len as usize);
            for _ in 0..len {
                gens.push((code % alphabet as u64) as u32);
                code /= alphabet as u64;
            }
            FWD.iter().flat_map(move |fwd| {
                let gens = gens.clone();
                OOO.iter().map(move |ooo| Case {
                    seed: 1,
                    fwd: *fwd,
                    ooo: *ooo,
                    steps: gens.iter().map(|g| Step::Abs(*g)).collect(),
                })
            })
        })
    })
}

fn window() -> impl Strategy<Value = u32> {
    prop_oneof![
        2 => Just(0u32),
        2 => Just(1u32),
        2 => Just(2u32),
        2 => Just(3u32),
        2 => Just(5u32),
        2 => Just(8u32),
        2 => Just(32u32),
        1 => Just(1000u32),
        3 => 0u32..40,
        1 => 40u32..1000,
    ]
}

fn step() -> impl Strategy<Value = Step> {
    prop_oneof![
        6 => Just(Step::Next),
        4 => (1u16..=4).prop_map(Step::Ahead),
        1 => (1u16..=40).prop_map(Step::Ahead),
        2 => (-1i8..=2).prop_map(Step::FutureEdge),
        4 => (0u16..=6).prop_map(Step::Back),
        1 => (0u16..=60).prop_map(Step::Back),
        3 => (-2i8..=1).prop_map(Step::PastEdge),
        3 => any::<u16>().prop_map(Step::Dup),
        1 => (0u32..50).prop_map(Step::Abs),
        1 => prop_oneof![any::<u32>(), Just(u32::MAX), Just(u32::MAX - 1)].prop_map(Step::Abs),
    ]
}

fn case() -> impl Strategy<Value = Case> {
    (any::<u64>(), window(), window(), prop::collection::vec(step(), 1..=200))
        .prop_map(|(seed, fwd, ooo, steps)| Case { seed, fwd, ooo, steps })
}

pub fn run(mut ctx: Ctx) -> ! {
    ctx.assume("windows are fixed for the lifetime of a ratchet (as in GroupConfig); forward distances up to 1000 as in the default config, so the u32 overflow guard of the future check is never the deciding branch");
    ctx.assume("a case is cut when it would move the head beyond generation 20000 (bounds the HKDF work)");
    let (alphabet, max_len) = ctx.pick((5, 5), (6, 6));
    ctx.run_exhaustive(
        "sequences_small",
        "every sequence (permutations, losses, duplicates) over generations 0..n of length <= n (quick n=5, thorough n=6) x forward windows {0,1,2,3,4,5,1000} x ooo windows {0..6,1000}; non-trivial = a forward jump followed later by a back-fill inside the out-of-order window",
        exhaustive_domain(alphabet, max_len),
        check,
    );
    ctx.run_prop(
        Part::new(
            "random_large",
            "random request sequences (<=200 steps: next, jumps, both window edges +-1, past, duplicates, absolute incl. u32::MAX) with windows from {0,1,2,3,5,8,32,1000} and random ones; non-trivial = a forward jump followed later by a back-fill inside the out-of-order window",
            10_000,
            400_000,
        )
        .min_nontrivial(0.3),
        case,
        check,
    );
    ctx.finish()
}
