//! Checks of the enc group: C34 C36 C37 C38.
mod props;
mod util;

fn main() {
    let ctx = engine::Ctx::from_args();
    match ctx.id.as_str() {
        "C34" => props::c34::run(ctx),
        "C36" => props::c36::run(ctx),
        "C37" => props::c37::run(ctx),
        "C38" => props::c38::run(ctx),
        other => engine::harness_error(&format!("property {other} is not served by verif-enc")),
    }
}
