//! In-memory `LogStore` + `TopicStore` (building block B9) and a deterministic operation factory.
//!
//! `TopicLogSync` is generic over its store. With this store every store call completes on its
//! first poll, so a session future can only be pending on its transport or its live-mode channel
//! and "pending without a wake-up" is an exact statement about the protocol, with no SQLite worker
//! thread in the picture. The query semantics mirror `SqliteStore` (ranges: `after` exclusive,
//! `until` inclusive; `get_log_heights` is `None` when no requested log has entries;
//! `get_log_entries` is `None` when the range is empty; `get_log_size` always reports a row).

use std::collections::BTreeMap;
use std::sync::{Arc, Mutex};

use p2panda_core::{Body, Hash, Header, Operation, SeqNum, SigningKey, Topic, VerifyingKey};
use p2panda_store::logs::LogStore;
use p2panda_store::topics::TopicStore;

pub type LogIdT = u64;
pub type Ext = u64;
pub type Op = Operation<Ext>;

#[derive(Debug)]
pub struct MemError(pub String);

impl std::fmt::Display for MemError {
    fn fmt(&self, f: &mut std::fmt::Formatter<'_>) -> std::fmt::Result {
        write!(f, "{}", self.0)
    }
}

impl std::error::Error for MemError {}

#[derive(Default)]
struct Inner {
    logs: BTreeMap<(VerifyingKey, LogIdT), BTreeMap<SeqNum, (Op, Vec<u8>)>>,
    topics: BTreeMap<Topic, BTreeMap<VerifyingKey, Vec<LogIdT>>>,
}

#[derive(Clone, Default)]
pub struct MemStore {
    inner: Arc<Mutex<Inner>>,
}

impl MemStore {
    pub fn new() -> Self {
        Self::default()
    }

    pub fn insert(&self, op: &Op) {
        let mut g = self.inner.lock().unwrap();
        let log_id = op.header.extensions;
        g.logs
            .entry((op.header.verifying_key, log_id))
            .or_default()
            .insert(op.header.seq_num, (op.clone(), op.header.to_bytes()));
    }

    pub fn associate_now(&self, topic: &Topic, author: &VerifyingKey, log_id: LogIdT) {
        let mut g = self.inner.lock().unwrap();
        let logs = g.topics.entry(*topic).or_default().entry(*author).or_default();
        if !logs.contains(&log_id) {
            logs.push(log_id);
        }
    }
}

impl LogStore<Op, VerifyingKey, LogIdT, SeqNum, Hash> for MemStore {
    type Error = MemError;

    async fn get_latest_entry(&self, author: &VerifyingKey, log_id: &LogIdT) -> Result<Option<Op>, Self::Error> {
        let g = self.inner.lock().unwrap();
        Ok(g.logs
            .get(&(*author, *log_id))
            .and_then(|l| l.values().next_back())
            .map(|(op, _)| op.clone()))
    }

    async fn get_latest_entry_tx(&self, author: &VerifyingKey, log_id: &LogIdT) -> Result<Option<Op>, Self::Error> {
        self.get_latest_entry(author, log_id).await
    }

    async fn get_log_heights(
        &self,
        author: &VerifyingKey,
        logs: &[LogIdT],
    ) -> Result<Option<BTreeMap<LogIdT, SeqNum>>, Self::Error> {
        let g = self.inner.lock().unwrap();
        let mut out = BTreeMap::new();
        for log_id in logs {
            if let Some(max) = g.logs.get(&(*author, *log_id)).and_then(|l| l.keys().next_back()) {
                out.insert(*log_id, *max);
            }
        }
        Ok(if out.is_empty() { None } else { Some(out) })
    }

    async fn get_log_size(
        &self,
        author: &VerifyingKey,
        log_id: &LogIdT,
        after: Option<SeqNum>,
        until: Option<SeqNum>,
    ) -> Result<Option<(u32, u32)>, Self::Error> {
        let g = self.inner.lock().unwrap();
        let mut count = 0u32;
        let mut bytes = 0u32;
        if let Some(log) = g.logs.get(&(*author, *log_id)) {
            for (seq, (op, header_bytes)) in log {
                if in_range(*seq, after, until) {
                    count += 1;
                    bytes += header_bytes.len() as u32 + op.header.payload_size;
                }
            }
        }
        Ok(Some((count, bytes)))
    }

    async fn get_log_entries(
        &self,
        author: &VerifyingKey,
        log_id: &LogIdT,
        after: Option<SeqNum>,
        until: Option<SeqNum>,
    ) -> Result<Option<Vec<(Op, Vec<u8>)>>, Self::Error> {
        let g = self.inner.lock().unwrap();
        let mut out = Vec::new();
        if let Some(log) = g.logs.get(&(*author, *log_id)) {
            for (seq, entry) in log {
                if in_range(*seq, after, until) {
                    out.push(entry.clone());
                }
            }
        }
        Ok(if out.is_empty() { None } else { Some(out) })
    }

    async fn prune_entries(&self, author: &VerifyingKey, log_id: &LogIdT, until: &SeqNum) -> Result<u64, Self::Error> {
        let mut g = self.inner.lock().unwrap();
        let mut n = 0;
        if let Some(log) = g.logs.get_mut(&(*author, *log_id)) {
            let before = log.len();
            log.retain(|seq, _| seq >= until);
            n = (before - log.len()) as u64;
        }
        Ok(n)
    }
}

fn in_range(seq: SeqNum, after: Option<SeqNum>, until: Option<SeqNum>) -> bool {
    let lower_ok = match after {
        None => true,
        Some(a) => seq > a,
    };
    lower_ok && seq <= until.unwrap_or(SeqNum::MAX)
}

impl TopicStore<Topic, VerifyingKey, LogIdT> for MemStore {
    type Error = MemError;

    async fn associate(&self, topic: &Topic, author: &VerifyingKey, data_id: &LogIdT) -> Result<bool, Self::Error> {
        let mut g = self.inner.lock().unwrap();
        let logs = g.topics.entry(*topic).or_default().entry(*author).or_default();
        if logs.contains(data_id) {
            Ok(false)
        } else {
            logs.push(*data_id);
            Ok(true)
        }
    }

    async fn remove(&self, topic: &Topic, author: &VerifyingKey, data_id: &LogIdT) -> Result<bool, Self::Error> {
        let mut g = self.inner.lock().unwrap();
        let Some(authors) = g.topics.get_mut(topic) else {
            return Ok(false);
        };
        let Some(logs) = authors.get_mut(author) else {
            return Ok(false);
        };
        let before = logs.len();
        logs.retain(|l| l != data_id);
        Ok(logs.len() != before)
    }

    async fn resolve(&self, topic: &Topic) -> Result<BTreeMap<VerifyingKey, Vec<LogIdT>>, Self::Error> {
        let g = self.inner.lock().unwrap();
        Ok(g.topics.get(topic).cloned().unwrap_or_default())
    }
}

/// Deterministic author key.
pub fn key(seed: u8) -> SigningKey {
    let mut bytes = [0u8; 32];
    bytes[0] = seed;
    bytes[1] = 0x5A;
    bytes[31] = seed.wrapping_mul(31).wrapping_add(7);
    SigningKey::from_bytes(&bytes)
}

/// A signed chain of `len` operations by `author` in `log_id`; bodies are derived from `tag`.
pub fn chain(author: &SigningKey, log_id: LogIdT, len: u32, tag: u8) -> Vec<Op> {
    let mut out: Vec<Op> = Vec::new();
    let mut backlink = None;
    for seq in 0..len {
        let body = Body::new(&[tag, seq as u8, 0xB0, log_id as u8][..(1 + (seq as usize + tag as usize) % 4)]);
        let mut header = Header::<Ext> {
            version: 1,
            verifying_key: author.verifying_key(),
            signature: None,
            payload_size: body.size(),
            payload_hash: Some(body.hash()),
            seq_num: seq,
            backlink,
            extensions: log_id,
        };
        header.sign(author);
        let hash = header.hash();
        backlink = Some(hash);
        out.push(Operation {
            hash,
            header,
            body: Some(body),
        });
    }
    out
}

pub fn topic(tag: u8) -> Topic {
    let mut bytes = [0x77u8; 32];
    bytes[0] = tag;
    Topic::from(bytes)
}
