//! Scripted transports (building block B7).
//!
//! A session under test gets a [`ScriptStream`] (its inbound side) and a [`ScriptSink`] (its
//! outbound side). Both are thin handles onto single-threaded shared state that the harness keeps
//! a second handle to, so the harness can act *between* protocol messages: feed one inbound item,
//! take one outbound message, close the stream, inject a stream error item, make the sink fail at
//! a chosen operation. Nothing here uses threads, time or randomness.
//!
//! Hang detection is deterministic: a stream that already returned `None` and is polled again and
//! again (a busy loop that never yields to the executor) is cut off after [`SPIN_LIMIT`] further
//! polls – the stream then reports `Pending` *without* registering a waker and raises
//! `spin_detected`, so the hand-driven future returns control to the harness.

use std::cell::RefCell;
use std::collections::VecDeque;
use std::pin::Pin;
use std::rc::Rc;
use std::task::{Context, Poll, Waker};

use futures_util::{Sink, Stream};
use serde::{Deserialize, Serialize};

/// Polls tolerated on a stream after it has returned `None` before a busy loop is declared.
pub const SPIN_LIMIT: u64 = 2_000;

#[derive(Debug, Clone, PartialEq, Eq)]
pub struct TransportError(pub String);

/// One inbound item of a scripted stream.
#[derive(Debug, Clone)]
pub enum Item<M> {
    Msg(M),
    /// The stream yields `Some(Err(..))` (decode error of the framing layer).
    Error,
}

/// What a session did on its transport, in the order it did it.
#[derive(Debug, Clone)]
pub enum Io<M> {
    /// The session consumed this message from its stream.
    In(M),
    /// The session consumed an error item from its stream.
    InError,
    /// The session observed the end of its stream.
    InEnd,
    /// The session handed this message to its sink (`start_send` accepted it).
    Out(M),
    /// `poll_close` of the sink completed successfully.
    OutClosed,
    /// A sink operation returned the injected error.
    OutFailed(SinkOp),
}

pub type Trace<M> = Rc<RefCell<Vec<Io<M>>>>;

struct StreamState<M> {
    queue: VecDeque<Item<M>>,
    closed: bool,
    waker: Option<Waker>,
    returned_none: bool,
    polls_after_none: u64,
    spin_detected: bool,
    polls: u64,
    trace: Trace<M>,
}

/// Stream half given to the session.
pub struct ScriptStream<M>(Rc<RefCell<StreamState<M>>>);

/// Harness handle of a [`ScriptStream`].
pub struct StreamHandle<M>(Rc<RefCell<StreamState<M>>>);

impl<M> Clone for StreamHandle<M> {
    fn clone(&self) -> Self {
        Self(self.0.clone())
    }
}

pub fn script_stream<M: Clone>(trace: Trace<M>) -> (ScriptStream<M>, StreamHandle<M>) {
    let state = Rc::new(RefCell::new(StreamState {
        queue: VecDeque::new(),
        closed: false,
        waker: None,
        returned_none: false,
        polls_after_none: 0,
        spin_detected: false,
        polls: 0,
        trace,
    }));
    (ScriptStream(state.clone()), StreamHandle(state))
}

impl<M> StreamHandle<M> {
    /// Makes one more item available to the session.
    pub fn push(&self, item: Item<M>) {
        let waker = {
            let mut s = self.0.borrow_mut();
            assert!(!s.closed, "harness bug: push after close");
            s.queue.push_back(item);
            s.waker.take()
        };
        if let Some(w) = waker {
            w.wake();
        }
    }

    /// The remote closes the stream: once the queued items are consumed the stream ends.
    pub fn close(&self) {
        let waker = {
            let mut s = self.0.borrow_mut();
            s.closed = true;
            s.waker.take()
        };
        if let Some(w) = waker {
            w.wake();
        }
    }

    pub fn is_closed(&self) -> bool {
        self.0.borrow().closed
    }

    /// Items pushed but not yet consumed by the session.
    pub fn unread(&self) -> usize {
        self.0.borrow().queue.len()
    }

    pub fn spin_detected(&self) -> bool {
        self.0.borrow().spin_detected
    }

    pub fn polls_after_none(&self) -> u64 {
        self.0.borrow().polls_after_none
    }

    pub fn polls(&self) -> u64 {
        self.0.borrow().polls
    }
}

impl<M: Clone> Stream for ScriptStream<M> {
    type Item = Result<M, TransportError>;

    fn poll_next(self: Pin<&mut Self>, cx: &mut Context<'_>) -> Poll<Option<Self::Item>> {
        let mut s = self.0.borrow_mut();
        s.polls += 1;
        if s.spin_detected {
            // Cut the busy loop: no waker is registered, the future stays pending for good.
            return Poll::Pending;
        }
        if let Some(item) = s.queue.pop_front() {
            return match item {
                Item::Msg(m) => {
                    s.trace.borrow_mut().push(Io::In(m.clone()));
                    Poll::Ready(Some(Ok(m)))
                }
                Item::Error => {
                    s.trace.borrow_mut().push(Io::InError);
                    Poll::Ready(Some(Err(TransportError("injected stream error item".into()))))
                }
            };
        }
        if s.closed {
            if s.returned_none {
                s.polls_after_none += 1;
                if s.polls_after_none > SPIN_LIMIT {
                    s.spin_detected = true;
                    return Poll::Pending;
                }
            } else {
                s.returned_none = true;
                s.trace.borrow_mut().push(Io::InEnd);
            }
            return Poll::Ready(None);
        }
        s.waker = Some(cx.waker().clone());
        Poll::Pending
    }
}

#[derive(Debug, Clone, Copy, PartialEq, Eq, Serialize, Deserialize)]
pub enum SinkOp {
    Ready,
    Send,
    Flush,
    Close,
}

impl SinkOp {
    fn index(self) -> usize {
        match self {
            SinkOp::Ready => 0,
            SinkOp::Send => 1,
            SinkOp::Flush => 2,
            SinkOp::Close => 3,
        }
    }
}

/// The `nth` (0-based) operation of kind `op` fails; with `sticky` every later operation of any
/// kind fails as well (a broken connection), otherwise only that single call fails.
#[derive(Debug, Clone, Copy, PartialEq, Eq, Serialize, Deserialize)]
pub struct SinkFault {
    pub op: SinkOp,
    pub nth: u8,
    pub sticky: bool,
}

struct SinkState<M> {
    queue: VecDeque<M>,
    /// Messages that may sit in the queue untaken; `None` = unbounded.
    slots: Option<usize>,
    waker: Option<Waker>,
    counts: [u32; 4],
    fault: Option<SinkFault>,
    fault_hits: u32,
    broken: bool,
    closed: bool,
    accepted: u64,
    trace: Trace<M>,
}

/// Sink half given to the session.
pub struct ScriptSink<M>(Rc<RefCell<SinkState<M>>>);

/// Harness handle of a [`ScriptSink`].
pub struct SinkHandle<M>(Rc<RefCell<SinkState<M>>>);

impl<M> Clone for SinkHandle<M> {
    fn clone(&self) -> Self {
        Self(self.0.clone())
    }
}

pub fn script_sink<M: Clone>(slots: Option<usize>, fault: Option<SinkFault>, trace: Trace<M>) -> (ScriptSink<M>, SinkHandle<M>) {
    let state = Rc::new(RefCell::new(SinkState {
        queue: VecDeque::new(),
        slots: slots.map(|s| s.max(1)),
        waker: None,
        counts: [0; 4],
        fault,
        fault_hits: 0,
        broken: false,
        closed: false,
        accepted: 0,
        trace,
    }));
    (ScriptSink(state.clone()), SinkHandle(state))
}

impl<M> SinkHandle<M> {
    /// Takes the oldest message the session has sent (the harness relays it or drops it).
    pub fn take(&self) -> Option<M> {
        let (m, waker) = {
            let mut s = self.0.borrow_mut();
            let m = s.queue.pop_front();
            (m, s.waker.take())
        };
        if let Some(w) = waker {
            w.wake();
        }
        m
    }

    pub fn queued(&self) -> usize {
        self.0.borrow().queue.len()
    }

    pub fn is_closed(&self) -> bool {
        self.0.borrow().closed
    }

    /// How often the injected fault was returned to the session.
    pub fn fault_hits(&self) -> u32 {
        self.0.borrow().fault_hits
    }

    pub fn accepted(&self) -> u64 {
        self.0.borrow().accepted
    }

    pub fn op_count(&self, op: SinkOp) -> u32 {
        self.0.borrow().counts[op.index()]
    }
}

impl<M> SinkState<M> {
    /// Accounts one operation; `Err` when the injected fault applies to it.
    fn account(&mut self, op: SinkOp) -> Result<(), TransportError> {
        let n = self.counts[op.index()];
        self.counts[op.index()] += 1;
        let mut fail = self.broken;
        if let Some(f) = self.fault {
            if f.op == op && u32::from(f.nth) == n {
                fail = true;
                if f.sticky {
                    self.broken = true;
                }
            }
        }
        if fail {
            self.fault_hits += 1;
            self.trace.borrow_mut().push(Io::OutFailed(op));
            Err(TransportError(format!("injected sink failure at {op:?} #{n}")))
        } else {
            Ok(())
        }
    }
}

impl<M: Clone> Sink<M> for ScriptSink<M> {
    type Error = TransportError;

    fn poll_ready(self: Pin<&mut Self>, cx: &mut Context<'_>) -> Poll<Result<(), Self::Error>> {
        let mut s = self.0.borrow_mut();
        // Back-pressure first: a pending `poll_ready` is not an operation that can fail yet.
        if !s.broken && !s.closed {
            if let Some(slots) = s.slots {
                if s.queue.len() >= slots {
                    s.waker = Some(cx.waker().clone());
                    return Poll::Pending;
                }
            }
        }
        if let Err(e) = s.account(SinkOp::Ready) {
            return Poll::Ready(Err(e));
        }
        if s.closed {
            return Poll::Ready(Err(TransportError("sink used after close".into())));
        }
        Poll::Ready(Ok(()))
    }

    fn start_send(self: Pin<&mut Self>, item: M) -> Result<(), Self::Error> {
        let mut s = self.0.borrow_mut();
        s.account(SinkOp::Send)?;
        if s.closed {
            return Err(TransportError("sink used after close".into()));
        }
        s.trace.borrow_mut().push(Io::Out(item.clone()));
        s.queue.push_back(item);
        s.accepted += 1;
        Ok(())
    }

    fn poll_flush(self: Pin<&mut Self>, _cx: &mut Context<'_>) -> Poll<Result<(), Self::Error>> {
        let mut s = self.0.borrow_mut();
        Poll::Ready(s.account(SinkOp::Flush))
    }

    fn poll_close(self: Pin<&mut Self>, _cx: &mut Context<'_>) -> Poll<Result<(), Self::Error>> {
        let mut s = self.0.borrow_mut();
        if let Err(e) = s.account(SinkOp::Close) {
            return Poll::Ready(Err(e));
        }
        if !s.closed {
            s.closed = true;
            s.trace.borrow_mut().push(Io::OutClosed);
        }
        Poll::Ready(Ok(()))
    }
}

pub fn new_trace<M>() -> Trace<M> {
    Rc::new(RefCell::new(Vec::new()))
}

/// Outcome of driving a hand-polled future until it cannot make progress on its own.
#[derive(Debug, Clone, Copy, PartialEq, Eq)]
pub enum Drive {
    Done,
    /// `Pending` and its waker has not fired: it waits for the harness.
    Idle,
}

/// Polls `st` until it completes or is pending without having been woken. `budget` bounds the
/// number of polls (a future that keeps waking itself forever is reported as `Err`).
pub fn drive<T>(st: &mut engine::stepper::Stepper<'_, T>, budget: &mut u64) -> Result<Drive, String> {
    loop {
        if st.is_done() {
            return Ok(Drive::Done);
        }
        if *budget == 0 {
            return Err("poll budget exhausted: the future keeps waking itself without completing".into());
        }
        *budget -= 1;
        if st.step() {
            return Ok(Drive::Done);
        }
        if !st.woken() {
            return Ok(Drive::Idle);
        }
    }
}

/// Was at least one message consumed or sent before the first injected sink failure?
pub fn io_before_sink_failure<M>(trace: &Trace<M>) -> bool {
    let mut seen = false;
    for io in trace.borrow().iter() {
        match io {
            Io::In(_) | Io::InError | Io::Out(_) => seen = true,
            Io::OutFailed(_) => return seen,
            _ => {}
        }
    }
    false
}

/// Looks at the `n`-th (0-based) inbound event (message, error item or end of stream) the session
/// observed: `None` if it never got that far, otherwise whether any message had been consumed or
/// sent before it.
pub fn io_before_inbound<M>(trace: &Trace<M>, n: usize) -> Option<bool> {
    let mut seen = false;
    let mut inbound = 0;
    for io in trace.borrow().iter() {
        match io {
            Io::In(_) | Io::InError | Io::InEnd => {
                if inbound == n {
                    return Some(seen);
                }
                inbound += 1;
                if !matches!(io, Io::InEnd) {
                    seen = true;
                }
            }
            Io::Out(_) => seen = true,
            _ => {}
        }
    }
    None
}
