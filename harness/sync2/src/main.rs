//! Checks of the sync2 group: C22 C23 C25.
mod memstore;
mod props;
mod transport;

fn main() {
    let ctx = engine::Ctx::from_args();
    match ctx.id.as_str() {
        "C22" => props::c22::run(ctx),
        "C23" => props::c23::run(ctx),
        "C25" => props::c25::run(ctx),
        other => engine::harness_error(&format!("property {other} is not served by verif-sync2")),
    }
}
