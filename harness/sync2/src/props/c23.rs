//! C23 Live mode forwards every new operation once to every other session.
//!
//! `hub_forwarding`: one `TopicSyncManager` (in-memory store) with 2-4 live sessions to distinct
//! scripted remotes (B7). The harness owns every scheduling decision: which remote's next message
//! is relayed, which session future is polled, when the manager's event stream is polled (that is
//! where forwarding happens), when the application publishes an operation to a subset of session
//! handles. At the end everything is relayed and polled to a fixpoint, then every session is
//! closed (`ToSync::Close`, remote closes its stream).
//!
//! Oracle, computed from what each session *consumed from* and *wrote to* its transport (in order)
//! and from what the manager stream yielded; no implementation state is read:
//!   1. a session writes a given operation (sync `Operation` or `Live`) at most once;
//!   2. a session never writes an operation after it has consumed that operation from its remote
//!      (never sent back to the peer it came from);
//!   3. every write has a cause: published to that session, freshly received by *another* session,
//!      or part of the hub's store (initial sync);
//!   4. after the fixpoint, an operation freshly received by some session (consumed before that
//!      session wrote it itself) or published to a session has been written exactly once by every
//!      session that is owed it and never consumed it from its own remote;
//!   5. the manager stream yields `OperationReceived(X)` at most once, and once if some session
//!      freshly received X;
//!   6. every session of the honest flow ends with `Ok`.
//!
//! `two_topics`: the same hub, but its 3-6 live sessions are spread over 2-3 *topics* whose log sets
//! are identical (every operation of the pool belongs to every topic), so the same operation
//! legitimately arrives over sessions of different topics. The manager's de-duplication buffer is
//! shared by all topics (manager docs: "per-subscription deduplication of received operations
//! across all sessions for this manager"), the forwarding set is per topic. Rules 1, 2, 5, 6 are
//! unchanged (5 counts over all topics: at most once overall); rule 4 is evaluated per topic: an
//! operation freshly received by a session of topic T is owed to every other session of T, no
//! matter whether the manager has already seen it on a session of another topic. Rule 3 is *not*
//! narrowed to the topic (the statement does not say "only on that topic"); a write whose only
//! cause is a fresh receipt on another topic is merely labelled.
//!
//! `small_window`: one session built with `new_with_capacity(c)`, c in 1..=4, fed remote `Live`
//! messages and local payloads over a pool of 6 operations. A reference ring of the last `c`
//! accepted hashes (the semantics C24 establishes for the buffer) is stepped along the transport
//! trace: a write of an operation that is still inside the window is a violation (covers both
//! "at most once within the window" and "not back to the sender within the window").

use std::collections::{BTreeMap, BTreeSet, VecDeque};
use std::pin::Pin;
use std::sync::{Arc, OnceLock};
use std::task::{Context, Poll, Waker};

use engine::proptest::prelude::*;
use engine::stepper::{CountingWaker, Stepper};
use engine::{CaseOk, CaseResult, Ctx, Part, ensure, idx};
use futures_channel::mpsc;
use futures_util::{FutureExt, Sink, SinkExt, Stream, StreamExt};
use p2panda_core::{Hash, Topic};
use p2panda_sync::manager::{TopicSyncManager, TopicSyncManagerError};
use p2panda_sync::protocols::{LogSyncMessage, TopicLogSync, TopicLogSyncEvent, TopicLogSyncMessage};
use p2panda_sync::traits::{Manager, Protocol};
use p2panda_sync::{FromSync, SessionConfig, ToSync};
use serde::{Deserialize, Serialize};
use tokio::sync::broadcast;

use crate::memstore::{Ext, LogIdT, MemStore, Op, chain, key, topic};
use crate::transport::{Drive, Io, Item, SinkHandle, StreamHandle, Trace, drive, new_trace, script_sink, script_stream};

type Msg = TopicLogSyncMessage<LogIdT, Ext>;
type Event = TopicLogSyncEvent<Ext>;
type Mgr = TopicSyncManager<Topic, MemStore, LogIdT, Ext>;
type Handle = Pin<Box<dyn Sink<ToSync<Op>, Error = TopicSyncManagerError>>>;
type SessionResult = Result<(), String>;

const MAX_SESSIONS: usize = 4;
/// Upper bound of sessions (= remotes) in the `two_topics` part.
const MAX_REMOTES: usize = 6;
const MAX_TOPICS: usize = 3;
const FRESH: usize = 6;

struct Pools {
    /// Operations nobody holds at the start (third-party author).
    fresh: Vec<Op>,
    /// Two operations per remote, offered by that remote during its sync phase.
    remote_sync: Vec<Vec<Op>>,
    /// The hub's own log.
    hub: Vec<Op>,
    by_header: BTreeMap<Vec<u8>, Hash>,
}

fn pools() -> &'static Pools {
    static P: OnceLock<Pools> = OnceLock::new();
    P.get_or_init(|| {
        let fresh = chain(&key(30), 0, FRESH as u32, 30);
        let remote_sync: Vec<Vec<Op>> = (0..MAX_REMOTES as u8).map(|r| chain(&key(20 + r), 0, 2, 20 + r)).collect();
        let hub = chain(&key(40), 0, 2, 40);
        let mut by_header = BTreeMap::new();
        for op in fresh.iter().chain(remote_sync.iter().flatten()).chain(hub.iter()) {
            by_header.insert(op.header.to_bytes(), op.hash);
        }
        Pools {
            fresh,
            remote_sync,
            hub,
            by_header,
        }
    })
}

/// 1025 further operations (one more than the default de-duplication window) by one author.
const FLOOD: usize = 1025;

fn flood_pool() -> &'static Vec<Op> {
    static P: OnceLock<Vec<Op>> = OnceLock::new();
    P.get_or_init(|| chain(&key(31), 0, FLOOD as u32, 31))
}

#[derive(Clone, Copy, Debug, PartialEq, Eq, Serialize, Deserialize)]
enum Step {
    /// Remote `remote` queues `Live(op)` for the hub.
    Inject { remote: u16, op: u16 },
    /// The application publishes `op` to the session handles selected by `mask`.
    Publish { op: u16, mask: u8 },
    /// Relay the oldest queued message of `remote` into its hub session and poll that session.
    Relay { remote: u16 },
    /// Poll hub session `s` until it is idle.
    RunSession { s: u16 },
    /// Poll the manager event stream until it is idle (forwards happen here).
    PollManager,
}

#[derive(Clone, Debug, Serialize, Deserialize)]
struct Case {
    sessions: u8,
    subscribe_first: bool,
    /// Leave the remotes' sync-phase messages in their queues (sync interleaves with the flow)
    /// instead of bringing every session to live mode first.
    lazy_sync: bool,
    hub_ops: u8,
    remote_sync_ops: [u8; MAX_SESSIONS],
    steps: Vec<Step>,
    /// After the steps (and a fixpoint) this remote sends the whole flood pool - 1025 distinct `Live`
    /// messages, one more than the default window - and all of it is relayed into its session
    /// *without* the manager stream being polled in between: by the time the manager forwards the
    /// first of them, it has left the receiving session's own window. Nothing but the final
    /// fixpoint and the orderly close follows, so no window-relative assertion is affected.
    flood: Option<u16>,
}

/// What `run_flow` needs to know; built from a `Case` (one topic) or a `TopicsCase`.
struct Spec<'c> {
    /// Topic index of every session; its length is the number of sessions.
    topic_of: Vec<usize>,
    subscribe_first: bool,
    lazy_sync: bool,
    hub_ops: usize,
    remote_sync_ops: Vec<usize>,
    steps: &'c [Step],
    flood: Option<u16>,
}

impl Case {
    fn spec(&self) -> Spec<'_> {
        let n = (self.sessions as usize).clamp(2, MAX_SESSIONS);
        Spec {
            topic_of: vec![0; n],
            subscribe_first: self.subscribe_first,
            lazy_sync: self.lazy_sync,
            hub_ops: (self.hub_ops as usize).min(2),
            remote_sync_ops: self.remote_sync_ops[..n].iter().map(|k| (*k as usize).min(2)).collect(),
            steps: &self.steps,
            flood: self.flood,
        }
    }
}

/// Topic ids of the hub; index 0 is the topic of the one-topic parts.
fn hub_topic(i: usize) -> Topic {
    topic([23u8, 26, 27][i])
}

fn op_msg(op: &Op) -> Msg {
    TopicLogSyncMessage::Sync(LogSyncMessage::Operation(
        op.header.to_bytes(),
        op.body.as_ref().map(|b| b.to_bytes()),
    ))
}

fn live_msg(op: &Op) -> Msg {
    TopicLogSyncMessage::Live(op.header.clone(), op.body.clone())
}

/// The operation a transport message carries, if any.
fn carried(m: &Msg) -> Option<Hash> {
    match m {
        TopicLogSyncMessage::Sync(LogSyncMessage::Operation(header, _)) => pools().by_header.get(header).copied(),
        TopicLogSyncMessage::Live(header, _) if header.verifying_key == flood_pool()[0].header.verifying_key => {
            // Flood operations: avoid re-hashing 1025 headers per session and case.
            Some(flood_pool()[header.seq_num as usize].hash)
        }
        TopicLogSyncMessage::Live(header, _) => Some(header.hash()),
        _ => None,
    }
}

struct Hub<'a> {
    steppers: Vec<Stepper<'a, SessionResult>>,
    streams: Vec<StreamHandle<Msg>>,
    sinks: Vec<SinkHandle<Msg>>,
    traces: Vec<Trace<Msg>>,
    pending: Vec<VecDeque<Msg>>,
    handles: Vec<Handle>,
    manager_stream: Pin<Box<dyn Stream<Item = FromSync<Event>>>>,
    manager_events: Vec<FromSync<Event>>,
    manager_ended: bool,
    counter: Arc<CountingWaker>,
    waker: Waker,
    budget: u64,
}

impl<'a> Hub<'a> {
    fn run_session(&mut self, s: usize) -> Result<Drive, String> {
        drive(&mut self.steppers[s], &mut self.budget)
    }

    fn relay(&mut self, r: usize) -> Result<bool, String> {
        let Some(m) = self.pending[r].pop_front() else {
            return Ok(false);
        };
        self.streams[r].push(Item::Msg(m));
        self.run_session(r)?;
        Ok(true)
    }

    /// Polls the manager stream until it is pending without a wake-up; returns the number of
    /// events it yielded.
    fn poll_manager(&mut self) -> Result<usize, String> {
        let mut n = 0;
        if self.manager_ended {
            return Ok(0);
        }
        loop {
            if self.budget == 0 {
                return Err("poll budget exhausted while polling the manager event stream".into());
            }
            self.budget -= 1;
            let before = self.counter.count();
            let mut cx = Context::from_waker(&self.waker);
            match self.manager_stream.poll_next_unpin(&mut cx) {
                Poll::Ready(Some(e)) => {
                    self.manager_events.push(e);
                    n += 1;
                }
                Poll::Ready(None) => {
                    self.manager_ended = true;
                    return Ok(n);
                }
                Poll::Pending => {
                    if self.counter.count() == before {
                        return Ok(n);
                    }
                }
            }
        }
    }

    /// Relays, polls sessions and the manager until nothing moves any more.
    fn fixpoint(&mut self) -> Result<(), String> {
        loop {
            let mut progressed = false;
            for r in 0..self.steppers.len() {
                while self.relay(r)? {
                    progressed = true;
                }
            }
            for s in 0..self.steppers.len() {
                let before = self.traces[s].borrow().len();
                self.run_session(s)?;
                progressed |= self.traces[s].borrow().len() != before;
            }
            progressed |= self.poll_manager()? > 0;
            if !progressed && self.steppers.iter().all(|st| st.is_done() || !st.woken()) {
                return Ok(());
            }
        }
    }
}

struct Flow {
    traces: Vec<Vec<Io<Msg>>>,
    published: Vec<BTreeSet<Hash>>,
    manager_ops: Vec<Hash>,
    results: Vec<Option<SessionResult>>,
    hub_store: BTreeSet<Hash>,
    topic_of: Vec<usize>,
}

fn run_flow(case: &Spec) -> Result<Flow, String> {
    let p = pools();
    let n = case.topic_of.len();
    let topics = case.topic_of.iter().max().map_or(1, |m| m + 1);
    let store = MemStore::new();
    // Every topic of the hub covers the same logs: each operation of the pool belongs to each
    // topic, so it may arrive over a session of any topic.
    for i in 0..topics {
        let t = hub_topic(i);
        store.associate_now(&t, &key(40).verifying_key(), 0);
        store.associate_now(&t, &key(30).verifying_key(), 0);
        for r in 0..n {
            store.associate_now(&t, &key(20 + r as u8).verifying_key(), 0);
        }
    }
    let hub_ops = case.hub_ops;
    let mut hub_store = BTreeSet::new();
    for op in &p.hub[..hub_ops] {
        store.insert(op);
        hub_store.insert(op.hash);
    }

    let mut manager: Mgr = TopicSyncManager::new(store);
    let mut manager_stream: Option<Pin<Box<dyn Stream<Item = FromSync<Event>>>>> = None;
    if case.subscribe_first {
        manager_stream = Some(Box::pin(manager.subscribe()));
    }
    let mut steppers = Vec::new();
    let mut streams = Vec::new();
    let mut sinks = Vec::new();
    let mut traces = Vec::new();
    let mut pending: Vec<VecDeque<Msg>> = Vec::new();
    for r in 0..n {
        let config = SessionConfig {
            topic: hub_topic(case.topic_of[r]),
            remote: key(20 + r as u8).verifying_key(),
            live_mode: true,
        };
        let session: TopicLogSync<Topic, MemStore, LogIdT, Ext> = manager
            .session(r as u64, &config)
            .now_or_never()
            .ok_or("harness: manager.session() did not complete immediately")?;
        let trace = new_trace::<Msg>();
        let (stream, sh) = script_stream(trace.clone());
        let (sink, kh) = script_sink(None, None, trace.clone());
        steppers.push(Stepper::new(async move {
            let (mut sink, mut stream) = (sink, stream);
            session.run(&mut sink, &mut stream).await.map_err(|e| e.to_string())
        }));
        streams.push(sh);
        sinks.push(kh);
        traces.push(trace);

        // The remote's sync phase: it knows nothing of the hub's log and offers 0-2 operations.
        let mut q = VecDeque::new();
        q.push_back(TopicLogSyncMessage::Sync(LogSyncMessage::Have(Default::default())));
        let k = case.remote_sync_ops[r];
        if k > 0 {
            let bytes: u32 = p.remote_sync[r][..k]
                .iter()
                .map(|op| op.header.to_bytes().len() as u32 + op.header.payload_size)
                .sum();
            q.push_back(TopicLogSyncMessage::Sync(LogSyncMessage::PreSync {
                total_operations: k as u32,
                total_bytes: bytes,
            }));
            for op in &p.remote_sync[r][..k] {
                q.push_back(op_msg(op));
            }
        }
        q.push_back(TopicLogSyncMessage::Sync(LogSyncMessage::Done));
        pending.push(q);
    }
    if manager_stream.is_none() {
        manager_stream = Some(Box::pin(manager.subscribe()));
    }
    let mut handles: Vec<Handle> = Vec::new();
    for r in 0..n {
        let h = manager
            .session_handle(r as u64)
            .now_or_never()
            .ok_or("harness: session_handle() did not complete immediately")?
            .ok_or("harness: no handle for a session that was just created")?;
        handles.push(h);
    }

    let counter = Arc::new(CountingWaker::default());
    let waker = Waker::from(counter.clone());
    let mut hub = Hub {
        steppers,
        streams,
        sinks,
        traces,
        pending,
        handles,
        manager_stream: manager_stream.unwrap(),
        manager_events: Vec::new(),
        manager_ended: false,
        counter,
        waker,
        budget: 200_000,
    };

    if !case.lazy_sync {
        for r in 0..n {
            while hub.relay(r)? {}
        }
    }

    // Operations that can be injected/published: the fresh pool, every sync operation a remote of
    // this case offers, the hub's own operations.
    let mut pool: Vec<&Op> = p.fresh.iter().collect();
    for r in 0..n {
        pool.extend(p.remote_sync[r][..case.remote_sync_ops[r]].iter());
    }
    pool.extend(p.hub[..hub_ops].iter());

    let mut published: Vec<BTreeSet<Hash>> = vec![BTreeSet::new(); n];
    for step in case.steps {
        match *step {
            Step::Inject { remote, op } => {
                let r = idx(remote, n);
                let op = pool[idx(op, pool.len())];
                hub.pending[r].push_back(live_msg(op));
            }
            Step::Publish { op, mask } => {
                let op = pool[idx(op, pool.len())];
                for s in 0..n {
                    if mask & (1 << s) != 0 {
                        hub.handles[s]
                            .send(ToSync::Payload(op.clone()))
                            .now_or_never()
                            .ok_or("harness: live channel of a session is full")?
                            .map_err(|e| format!("harness: publishing to a live session handle failed: {e}"))?;
                        published[s].insert(op.hash);
                    }
                }
            }
            Step::Relay { remote } => {
                hub.relay(idx(remote, n))?;
            }

            Step::RunSession { s } => {
                hub.run_session(idx(s, n))?;
            }
            Step::PollManager => {
                hub.poll_manager()?;
            }
        }
    }
    hub.fixpoint()?;
    if let Some(remote) = case.flood {
        let r = idx(remote, n);
        // Everything in flight was settled above, so at most 1025 events wait in the session's
        // broadcast channel (capacity 1028) before the manager stream is polled again.
        for op in flood_pool() {
            hub.pending[r].push_back(live_msg(op));
        }
        while hub.relay(r)? {}
        hub.fixpoint()?;
    }

    // Orderly end: the application closes every session, the remotes hang up.
    for s in 0..n {
        if hub.steppers[s].is_done() {
            continue;
        }
        hub.handles[s]
            .send(ToSync::Close)
            .now_or_never()
            .ok_or("harness: live channel of a session is full")?
            .map_err(|e| format!("harness: sending Close to a live session handle failed: {e}"))?;
    }
    hub.fixpoint()?;
    for s in 0..n {
        hub.streams[s].close();
    }
    hub.fixpoint()?;

    let manager_ops = hub
        .manager_events
        .iter()
        .filter_map(|e| match e.event() {
            TopicLogSyncEvent::OperationReceived { operation, .. } => Some(operation.hash),
            _ => None,
        })
        .collect();
    let results = hub.steppers.iter_mut().map(|st| st.take_output()).collect();
    let traces = hub.traces.iter().map(|t| t.borrow().clone()).collect();
    let _ = &hub.sinks;
    Ok(Flow {
        traces,
        published,
        manager_ops,
        results,
        hub_store,
        topic_of: case.topic_of.clone(),
    })
}

#[derive(Default, Clone)]
struct Seen {
    ins: u32,
    outs: u32,
    /// First consumption happened before any write of the same operation.
    fresh: bool,
    out_before_in: bool,
}

/// What a checked flow exercised (for labels and the non-trivial rules).
#[derive(Default)]
struct Stats {
    sessions: usize,
    dup_from_two: bool,
    raced: bool,
    forwarded: bool,
    published: bool,
    hub_store: bool,
    /// Some operation was freshly received by sessions of two or more different topics.
    fresh_on_two_topics: bool,
    /// ... and on at least two of those topics another session was owed it (never consumed it itself).
    owed_on_two_topics: bool,
    /// Some session consumed an operation from its remote that the manager had been handed by a session of
    /// another topic as well, while a session of its own topic had already written it (duplicate within the topic
    /// and across topics).
    dup_within_and_across: bool,
    /// A session wrote an operation whose only cause is a fresh receipt on *another* topic (never expected with the
    /// per-topic forwarding of the code; not asserted, the statement does not forbid it).
    cross_topic_write: bool,
    topics_with_two_sessions: usize,
}

fn check_spec(case: &Spec) -> Result<Stats, String> {
    let flow = run_flow(case)?;
    let n = flow.traces.len();
    let topic_of = &flow.topic_of;
    let topics = topic_of.iter().max().map_or(1, |m| m + 1);

    for (s, r) in flow.results.iter().enumerate() {
        match r {
            Some(Ok(())) => {}
            Some(Err(e)) => return Err(format!("session {s} of an honest live flow failed: {e}")),
            None => {
                return Err(format!(
                    "session {s} did not finish after Close was sent and its remote closed the stream"
                ));
            }
        }
    }

    // Per session and operation: what was consumed / written, in which order.
    let mut seen: Vec<BTreeMap<Hash, Seen>> = vec![BTreeMap::new(); n];
    for (s, trace) in flow.traces.iter().enumerate() {
        for io in trace {
            match io {
                Io::In(m) => {
                    if let Some(x) = carried(m) {
                        let e = seen[s].entry(x).or_default();
                        if e.ins == 0 {
                            e.fresh = e.outs == 0;
                            e.out_before_in = e.outs > 0;
                        }
                        e.ins += 1;
                    }
                }
                Io::Out(m) => {
                    if let Some(x) = carried(m) {
                        let e = seen[s].entry(x).or_default();
                        ensure!(
                            e.ins == 0,
                            "session {s} wrote operation {} to its remote after it had consumed the same operation from that remote",
                            x.to_hex()
                        );
                        e.outs += 1;
                        ensure!(
                            e.outs <= 1,
                            "session {s} wrote operation {} to its remote {} times",
                            x.to_hex(),
                            e.outs
                        );
                    }
                }
                _ => {}
            }
        }
    }

    let mut all_ops: BTreeSet<Hash> = BTreeSet::new();
    for m in &seen {
        all_ops.extend(m.keys().copied());
    }
    for p in &flow.published {
        all_ops.extend(p.iter().copied());
    }
    all_ops.extend(flow.manager_ops.iter().copied());

    let mut st = Stats {
        sessions: n,
        published: flow.published.iter().any(|p| !p.is_empty()),
        hub_store: !flow.hub_store.is_empty(),
        topics_with_two_sessions: (0..topics).filter(|t| topic_of.iter().filter(|u| *u == t).count() >= 2).count(),
        ..Stats::default()
    };
    for x in &all_ops {
        let get = |s: usize| seen[s].get(x).cloned().unwrap_or_default();
        // Sessions which freshly received x, all of them and per topic.
        let fresh_at: Vec<usize> = (0..n).filter(|s| get(*s).fresh).collect();
        let consumers = (0..n).filter(|s| get(*s).ins > 0).count();
        st.dup_from_two |= consumers >= 2;
        let fresh_topics: BTreeSet<usize> = fresh_at.iter().map(|f| topic_of[*f]).collect();
        st.fresh_on_two_topics |= fresh_topics.len() >= 2;
        let mut owed_topics: BTreeSet<usize> = BTreeSet::new();
        for s in 0..n {
            let e = get(s);
            // The forwarding set of a receipt is the topic of the receiving session.
            let fresh_on_topic: Vec<usize> =
                fresh_at.iter().copied().filter(|f| *f != s && topic_of[*f] == topic_of[s]).collect();
            let fresh_on_other_topic = fresh_at.iter().any(|f| topic_of[*f] != topic_of[s]);
            let is_published = flow.published[s].contains(x);
            let in_hub_store = flow.hub_store.contains(x);
            st.raced |= e.out_before_in;
            if e.outs > 0 {
                ensure!(
                    is_published || !fresh_on_topic.is_empty() || fresh_on_other_topic || in_hub_store,
                    "session {s} wrote operation {} although it was neither published to it, nor freshly received by another \
                     session, nor in the hub's store",
                    x.to_hex()
                );
                st.forwarded |= !fresh_on_topic.is_empty() && !is_published && !in_hub_store;
                st.cross_topic_write |= fresh_on_topic.is_empty() && !is_published && !in_hub_store;
            }
            if e.ins == 0 && (!fresh_on_topic.is_empty() || is_published) {
                ensure!(
                    e.outs == 1,
                    "operation {} ({}) was never written to the remote of session {s} (topic {}), which did not have it{}",
                    x.to_hex(),
                    if !fresh_on_topic.is_empty() {
                        format!("freshly received by session(s) {fresh_on_topic:?} of the same topic")
                    } else {
                        "published to this session".to_string()
                    },
                    topic_of[s],
                    if fresh_on_other_topic {
                        format!("; sessions {fresh_at:?} with topics {:?} freshly received it", fresh_at.iter().map(|f| topic_of[*f]).collect::<Vec<_>>())
                    } else {
                        String::new()
                    }
                );
                if !fresh_on_topic.is_empty() {
                    owed_topics.insert(topic_of[s]);
                }
            }
            st.dup_within_and_across |= e.ins > 0 && fresh_on_other_topic && !fresh_on_topic.is_empty();
        }
        st.owed_on_two_topics |= owed_topics.len() >= 2;
        // The manager's buffer is one for all sessions of all topics: at most once overall.
        let reported = flow.manager_ops.iter().filter(|h| *h == x).count();
        ensure!(
            reported <= 1,
            "manager event stream reported operation {} {} times",
            x.to_hex(),
            reported
        );
        if !fresh_at.is_empty() {
            ensure!(
                reported == 1,
                "operation {} was freshly received by session(s) {fresh_at:?} but the manager event stream never reported it",
                x.to_hex()
            );
        }
    }
    Ok(st)
}

fn check_flow(case: &Case) -> CaseResult {
    let st = check_spec(&case.spec())?;
    let n = st.sessions;
    Ok(CaseOk::nontrivial(st.dup_from_two && n >= 3)
        .label_if(st.dup_from_two, "operation_from_two_or_more_remotes")
        .label_if(st.raced, "forward_written_before_own_remote_delivered_it")
        .label_if(st.forwarded, "forwarded_to_other_session")
        .label_if(st.published, "local_publish")
        .label_if(n == 2, "sessions_2")
        .label_if(n == 3, "sessions_3")
        .label_if(n == 4, "sessions_4")
        .label_if(case.lazy_sync, "sync_interleaved_with_flow")
        .label_if(st.hub_store, "hub_store_synced_out")
        .label_if(case.remote_sync_ops.iter().take(n).any(|k| *k > 0), "remote_sync_operations")
        .label_if(!case.subscribe_first, "subscribed_after_sessions")
        .label_if(case.flood.is_some(), "flood_beyond_window"))
}

fn check_flood(case: &Case) -> CaseResult {
    let ok = check_flow(case)?;
    Ok(CaseOk {
        nontrivial: case.flood.is_some(),
        ..ok
    })
}

// ---------------------------------------------------------------------------------------------
// two_topics

#[derive(Clone, Debug, Serialize, Deserialize)]
struct TopicsCase {
    /// Topic index (0..3) of every session; 3-6 sessions.
    topic_of: Vec<u8>,
    subscribe_first: bool,
    lazy_sync: bool,
    hub_ops: u8,
    remote_sync_ops: [u8; MAX_REMOTES],
    steps: Vec<Step>,
}

impl TopicsCase {
    fn spec(&self) -> Spec<'_> {
        let mut raw: Vec<usize> = self.topic_of.iter().take(MAX_REMOTES).map(|t| *t as usize % MAX_TOPICS).collect();
        while raw.len() < 3 {
            raw.push(raw.len() % 2);
        }
        // Renumber the topics by first appearance, so that the indices in use are 0..k.
        let mut order: Vec<usize> = Vec::new();
        for t in &raw {
            if !order.contains(t) {
                order.push(*t);
            }
        }
        let topic_of: Vec<usize> = raw.iter().map(|t| order.iter().position(|o| o == t).unwrap()).collect();
        let n = topic_of.len();
        Spec {
            topic_of,
            subscribe_first: self.subscribe_first,
            lazy_sync: self.lazy_sync,
            hub_ops: (self.hub_ops as usize).min(2),
            remote_sync_ops: self.remote_sync_ops[..n].iter().map(|k| (*k as usize).min(2)).collect(),
            steps: &self.steps,
            flood: None,
        }
    }
}

fn check_topics(case: &TopicsCase) -> CaseResult {
    let spec = case.spec();
    let topics = spec.topic_of.iter().max().map_or(1, |m| m + 1);
    let st = check_spec(&spec)?;
    Ok(CaseOk::nontrivial(st.owed_on_two_topics)
        .label_if(st.fresh_on_two_topics, "operation_freshly_received_on_two_or_more_topics")
        .label_if(st.owed_on_two_topics, "cross_topic_duplicate_owed_on_both_topics")
        .label_if(st.dup_within_and_across, "duplicate_within_topic_and_across_topics")
        .label_if(st.dup_from_two, "operation_from_two_or_more_remotes")
        .label_if(st.forwarded, "forwarded_to_other_session")
        .label_if(st.raced, "forward_written_before_own_remote_delivered_it")
        .label_if(st.cross_topic_write, "written_with_cause_on_other_topic_only")
        .label_if(st.published, "local_publish")
        .label_if(topics == 1, "topics_1")
        .label_if(topics == 2, "topics_2")
        .label_if(topics == 3, "topics_3")
        .label_if(st.topics_with_two_sessions >= 2, "two_or_more_topics_with_two_or_more_sessions")
        .label_if(st.sessions <= 4, "sessions_3_4")
        .label_if(st.sessions >= 5, "sessions_5_6")
        .label_if(case.lazy_sync, "sync_interleaved_with_flow")
        .label_if(st.hub_store, "hub_store_synced_out")
        .label_if(!case.subscribe_first, "subscribed_after_sessions"))
}

// ---------------------------------------------------------------------------------------------
// small_window

#[derive(Clone, Copy, Debug, PartialEq, Eq, Serialize, Deserialize)]
enum WinStep {
    Remote(u8),
    Local(u8),
}

#[derive(Clone, Debug, Serialize, Deserialize)]
struct WinCase {
    capacity: u8,
    steps: Vec<WinStep>,
}

fn check_window(case: &WinCase) -> CaseResult {
    let p = pools();
    let cap = case.capacity.clamp(1, 4) as usize;
    let t = topic(24);
    let store = MemStore::new();
    store.associate_now(&t, &key(30).verifying_key(), 0);
    let (event_tx, mut event_rx) = broadcast::channel::<Event>(4096);
    let (mut live_tx, live_rx) = mpsc::channel::<ToSync<Op>>(256);
    let session =
        TopicLogSync::<Topic, MemStore, LogIdT, Ext>::new_with_capacity(t, store, Some(live_rx), event_tx, cap);
    let trace = new_trace::<Msg>();
    let (stream, sh) = script_stream(trace.clone());
    let (sink, _kh) = script_sink(None, None, trace.clone());
    let mut st: Stepper<'_, SessionResult> = Stepper::new(async move {
        let (mut sink, mut stream) = (sink, stream);
        session.run(&mut sink, &mut stream).await.map_err(|e| e.to_string())
    });
    let mut budget = 50_000u64;
    sh.push(Item::Msg(TopicLogSyncMessage::Sync(LogSyncMessage::Have(Default::default()))));
    sh.push(Item::Msg(TopicLogSyncMessage::Sync(LogSyncMessage::Done)));
    drive(&mut st, &mut budget)?;
    for step in &case.steps {
        match *step {
            WinStep::Remote(i) => sh.push(Item::Msg(live_msg(&p.fresh[i as usize % FRESH]))),
            WinStep::Local(i) => {
                live_tx
                    .try_send(ToSync::Payload(p.fresh[i as usize % FRESH].clone()))
                    .map_err(|e| format!("harness: live channel full: {e}"))?;
            }
        }
        drive(&mut st, &mut budget)?;
    }
    live_tx
        .try_send(ToSync::Close)
        .map_err(|e| format!("harness: live channel full: {e}"))?;
    drive(&mut st, &mut budget)?;
    sh.close();
    let d = drive(&mut st, &mut budget)?;
    ensure!(d == Drive::Done, "session did not finish after Close and stream closure");
    match st.take_output() {
        Some(Ok(())) => {}
        other => return Err(format!("session of an honest live flow ended with {other:?}")),
    }
    let mut received_events = 0;
    while let Ok(e) = event_rx.try_recv() {
        if matches!(e, TopicLogSyncEvent::OperationReceived { .. }) {
            received_events += 1;
        }
    }

    // Reference ring of the last `cap` accepted hashes.
    let mut ring: VecDeque<Hash> = VecDeque::new();
    let mut evicted_any = false;
    let mut resent_after_eviction = false;
    let mut ever: BTreeSet<Hash> = BTreeSet::new();
    let mut accept = |ring: &mut VecDeque<Hash>, x: Hash, evicted_any: &mut bool| {
        if ring.len() + 1 > cap {
            ring.pop_front();
            *evicted_any = true;
        }
        ring.push_back(x);
    };
    let mut fresh_ins = 0;
    for io in trace.borrow().iter() {
        match io {
            Io::In(m) => {
                if let Some(x) = carried(m) {
                    if !ring.contains(&x) {
                        accept(&mut ring, x, &mut evicted_any);
                        fresh_ins += 1;
                    }
                    ever.insert(x);
                }
            }
            Io::Out(m) => {
                if let Some(x) = carried(m) {
                    ensure!(
                        !ring.contains(&x),
                        "session (dedup capacity {cap}) wrote operation {} although it is among the last {cap} distinct \
                         operations it accepted (window {:?})",
                        x.to_hex(),
                        ring.iter().map(|h| h.to_hex()[..6].to_string()).collect::<Vec<_>>()
                    );
                    if ever.contains(&x) {
                        resent_after_eviction = true;
                    }
                    accept(&mut ring, x, &mut evicted_any);
                    ever.insert(x);
                }
            }
            _ => {}
        }
    }
    Ok(CaseOk::nontrivial(evicted_any)
        .label_if(resent_after_eviction, "rewritten_after_eviction")
        .label_if(cap == 1, "capacity_1")
        .label_if(cap >= 3, "capacity_3_4")
        .label_if(received_events == fresh_ins, "events_match_fresh_receipts"))
}

fn step() -> impl Strategy<Value = Step> {
    prop_oneof![
        5 => (any::<u16>(), any::<u16>()).prop_map(|(remote, op)| Step::Inject { remote, op }),
        2 => (any::<u16>(), 1u8..16).prop_map(|(op, mask)| Step::Publish { op, mask }),
        5 => any::<u16>().prop_map(|remote| Step::Relay { remote }),
        2 => any::<u16>().prop_map(|s| Step::RunSession { s }),
        3 => Just(Step::PollManager),
    ]
}

fn case_strategy(max_steps: usize, flood: bool) -> impl Strategy<Value = Case> {
    (
        prop_oneof![1 => Just(2u8), 3 => Just(3u8), 3 => Just(4u8)],
        any::<bool>(),
        prop::bool::weighted(0.3),
        0u8..3,
        [0u8..3, 0u8..3, 0u8..3, 0u8..3],
        prop::collection::vec(step(), 1..max_steps),
        any::<u16>(),
    )
        .prop_map(move |(sessions, subscribe_first, lazy_sync, hub_ops, remote_sync_ops, steps, remote)| Case {
            sessions,
            subscribe_first,
            lazy_sync,
            hub_ops,
            remote_sync_ops,
            steps,
            flood: if flood { Some(remote) } else { None },
        })
}

fn topics_strategy(max_steps: usize) -> impl Strategy<Value = TopicsCase> {
    // Mostly two topics with two or three sessions each (the shape in which a duplicate across topics leaves
    // somebody owed on both), sometimes an arbitrary assignment over up to three topics.
    let topic_of = prop_oneof![
        4 => (2usize..4, 2usize..4, any::<u64>()).prop_map(|(a, b, mix)| {
            let mut v: Vec<u8> = vec![0; a];
            v.extend(vec![1u8; b]);
            // Deterministic interleaving of the two groups (session ids are positions).
            let mut mix = mix;
            for i in (1..v.len()).rev() {
                let j = (mix % (i as u64 + 1)) as usize;
                mix /= i as u64 + 1;
                v.swap(i, j);
            }
            v
        }),
        2 => prop::collection::vec(0u8..MAX_TOPICS as u8, 3..=MAX_REMOTES),
    ];
    let step = prop_oneof![
        6 => (any::<u16>(), any::<u16>()).prop_map(|(remote, op)| Step::Inject { remote, op }),
        1 => (any::<u16>(), 1u8..64).prop_map(|(op, mask)| Step::Publish { op, mask }),
        5 => any::<u16>().prop_map(|remote| Step::Relay { remote }),
        2 => any::<u16>().prop_map(|s| Step::RunSession { s }),
        3 => Just(Step::PollManager),
    ];
    (
        topic_of,
        any::<bool>(),
        prop::bool::weighted(0.3),
        0u8..3,
        [0u8..3, 0u8..3, 0u8..3, 0u8..3, 0u8..3, 0u8..3],
        prop::collection::vec(step, 1..max_steps),
    )
        .prop_map(|(topic_of, subscribe_first, lazy_sync, hub_ops, remote_sync_ops, steps)| TopicsCase {
            topic_of,
            subscribe_first,
            lazy_sync,
            hub_ops,
            remote_sync_ops,
            steps,
        })
}

fn window_strategy(max_steps: usize) -> impl Strategy<Value = WinCase> {
    let s = prop_oneof![(0u8..FRESH as u8).prop_map(WinStep::Remote), (0u8..FRESH as u8).prop_map(WinStep::Local)];
    (1u8..5, prop::collection::vec(s, 1..max_steps)).prop_map(|(capacity, steps)| WinCase { capacity, steps })
}

pub fn run(mut ctx: Ctx) -> ! {
    ctx.assume(
        "hub store is the in-memory LogStore/TopicStore; every remote is distinct; the manager event stream is subscribed \
         before any session is polled; flows stay far below the default de-duplication window of 1024",
    );
    ctx.assume(
        "two_topics: all topics of the hub resolve to the same logs, i.e. every generated operation belongs to every topic it \
         arrives on (sessions do not check topic membership yet, see the TODO in topic_log_sync.rs); forwarding is owed per \
         topic, the manager stream's at-most-once is over all topics of the manager (TopicSyncManager docs)",
    );
    ctx.assume(
        "small_window steps a reference ring of exactly `capacity` accepted hashes (the buffer semantics property C24 \
         establishes) along the transport trace",
    );
    let max_steps = ctx.pick(60, 120);
    ctx.run_prop(
        Part::new(
            "hub_forwarding",
            "TopicSyncManager with 2-4 live sessions to scripted remotes; 1-60 (thorough 120) steps of: remote queues Live(op) \
             from a pool of 6 fresh + remote-sync + hub operations (duplicates across remotes), publish to a subset of session \
             handles, relay one message, poll one session, poll the manager stream; hub store 0-2 operations, remotes offer 0-2 \
             operations during sync, sync phase up-front or interleaved, subscribe before/after session creation; then fixpoint \
             and orderly close; non-trivial = some operation consumed from >=2 remotes with >=3 sessions",
            3_000,
            60_000,
        )
        .min_nontrivial(0.4),
        move || case_strategy(max_steps, false),
        check_flow,
    );
    ctx.run_prop(
        Part::new(
            "source_exclusion_beyond_window",
            "hub_forwarding flows of 1-12 steps followed by one remote sending 1025 distinct Live operations (default window + 1)              that are all relayed before the manager stream is polled, so the first one has left the receiving session's own              window when it is forwarded: the session it came from must still not get it back, every other session writes each              exactly once; every case is non-trivial",
            24,
            400,
        )
        .min_nontrivial(0.9)
        .shrink_iters(60),
        || case_strategy(12, true),
        check_flood,
    );
    ctx.run_prop(
        Part::new(
            "two_topics",
            "hub_forwarding flows on a manager whose 3-6 live sessions are spread over 2-3 topics with identical log sets \
             (mostly 2 topics with 2-3 sessions each), so one operation arrives over sessions of different topics; 1-60 \
             (thorough 120) steps; rule 4 per topic (a fresh receipt on topic T is owed to every other session of T even if the \
             manager saw the operation on another topic before), manager stream at most once over all topics; non-trivial = \
             some operation was freshly received on >=2 topics and on >=2 of them another session was owed it",
            4_000,
            80_000,
        )
        .min_nontrivial(0.3),
        move || topics_strategy(max_steps),
        check_topics,
    );
    ctx.run_prop(
        Part::new(
            "small_window",
            "one live session with de-duplication capacity 1-4; 1-40 (thorough 80) steps of remote Live(op) / local payload over \
             6 operations; reference ring of the last `capacity` accepted hashes stepped along the transport trace; non-trivial \
             = the window evicted at least once",
            20_000,
            400_000,
        )
        .min_nontrivial(0.6),
        move || window_strategy(max_steps * 2 / 3),
        check_window,
    );
    ctx.finish()
}
