//! C22 Sync session events follow the documented lifecycle.
//!
//! A `TopicLogSync` session (live mode on/off, in-memory store) runs against a scripted peer over
//! B7 transports. The harness owns the schedule: it feeds the peer's messages one at a time, sends
//! live-mode input, takes outbound messages, and polls the session future by hand. Faults: an
//! unexpected message of every kind at every position, the stream closed at every position, a
//! stream error item at every position, the sink failing at its k-th ready/send/flush/close.
//!
//! Oracle (from the property statement and the doc comments of `TopicLogSyncEvent`):
//!   events == SessionStarted . [SyncStarted . Op* . [SyncFinished . [LiveModeStarted . Op*]]] .
//!             (SessionFinished | Failed)
//! with `SessionFinished` only after `SyncFinished`, exactly one terminal event, nothing after it;
//! `run` returns `Ok` iff the terminal event is `SessionFinished` ("when no error occurs this event
//! will always be sent" / "Failed will always be the final event when an error occurred"); and the
//! session future resolves once the remote has closed the stream (busy loop on a closed stream and
//! "pending with nothing to wait for" are both detected deterministically).
//!
//! Open finding K-C22a (only when listed as open): `SessionStarted` is never emitted. Then the
//! grammar is checked modulo a *missing leading* `SessionStarted`; one at any other position, or
//! two of them, is still a violation.

use std::collections::VecDeque;
use std::sync::OnceLock;

use engine::proptest::prelude::*;
use engine::stepper::Stepper;
use engine::{CaseOk, CaseResult, Ctx, Part, ensure, idx};
use futures_channel::mpsc;
use p2panda_core::logs::LogHeights;
use p2panda_core::{Topic, VerifyingKey};
use p2panda_sync::ToSync;
use p2panda_sync::protocols::{LogSyncMessage, TopicLogSync, TopicLogSyncEvent, TopicLogSyncMessage};
use p2panda_sync::traits::Protocol;
use serde::{Deserialize, Serialize};
use tokio::sync::broadcast;
use tokio::sync::broadcast::error::TryRecvError;

use crate::memstore::{Ext, LogIdT, MemStore, Op, chain, key, topic};
use crate::transport::{
    Drive, Item, SinkFault, SinkOp, drive, io_before_inbound, io_before_sink_failure, new_trace, script_sink, script_stream,
};

type Msg = TopicLogSyncMessage<LogIdT, Ext>;
type Event = TopicLogSyncEvent<Ext>;

#[derive(Clone, Copy, Debug, PartialEq, Eq, Serialize, Deserialize)]
pub enum Ev {
    SessionStarted,
    SyncStarted,
    Op,
    SyncFinished,
    LiveModeStarted,
    SessionFinished,
    Failed,
}

fn kind_of(e: &Event) -> Ev {
    match e {
        TopicLogSyncEvent::SessionStarted => Ev::SessionStarted,
        TopicLogSyncEvent::SyncStarted { .. } => Ev::SyncStarted,
        TopicLogSyncEvent::OperationReceived { .. } => Ev::Op,
        TopicLogSyncEvent::SyncFinished { .. } => Ev::SyncFinished,
        TopicLogSyncEvent::LiveModeStarted => Ev::LiveModeStarted,
        TopicLogSyncEvent::SessionFinished { .. } => Ev::SessionFinished,
        TopicLogSyncEvent::Failed { .. } => Ev::Failed,
    }
}

/// The documented lifecycle as an automaton. `allow_missing_start` relaxes exactly one thing: the
/// list may begin without `SessionStarted` (open finding K-C22a).
pub fn check_grammar(events: &[Ev], allow_missing_start: bool) -> Result<(), String> {
    #[derive(Clone, Copy, Debug, PartialEq)]
    enum St {
        Start,
        Sync,
        Synced,
        Live,
        End,
    }
    let mut rest = events;
    match rest.first() {
        Some(Ev::SessionStarted) => rest = &rest[1..],
        _ if allow_missing_start => {}
        other => {
            return Err(format!(
                "first event is {other:?}, not SessionStarted (documented as always sent first); events={events:?}"
            ));
        }
    }
    let mut st = St::Start;
    for (i, e) in rest.iter().enumerate() {
        st = match (st, e) {
            (St::End, e) => {
                return Err(format!("event {e:?} emitted after the terminal event; events={events:?}"));
            }
            (_, Ev::SessionStarted) => {
                return Err(format!("SessionStarted at a position other than the first; events={events:?}"));
            }
            (St::Start, Ev::SyncStarted) => St::Sync,
            (St::Sync, Ev::Op) => St::Sync,
            (St::Sync, Ev::SyncFinished) => St::Synced,
            (St::Synced, Ev::LiveModeStarted) => St::Live,
            (St::Live, Ev::Op) => St::Live,
            (St::Synced | St::Live, Ev::SessionFinished) => St::End,
            (_, Ev::Failed) => St::End,
            (st, e) => {
                return Err(format!(
                    "event {e:?} (#{i}) is not allowed in lifecycle state {st:?}; events={events:?}"
                ));
            }
        };
    }
    if st != St::End {
        return Err(format!(
            "session ended without a terminal SessionFinished/Failed event (lifecycle state {st:?}); events={events:?}"
        ));
    }
    Ok(())
}

#[derive(Clone, Copy, Debug, PartialEq, Eq, Serialize, Deserialize)]
enum HaveKind {
    /// Peer has nothing: the session sends its whole store.
    Empty,
    /// Peer has everything: the session sends only `Done`.
    All,
    /// Peer is one behind on every log with at least two entries.
    Behind,
}

#[derive(Clone, Copy, Debug, PartialEq, Eq, Serialize, Deserialize)]
enum Kind {
    Have,
    PreSync,
    Operation,
    GarbageOperation,
    Done,
    Live,
    Close,
}

const KINDS: [Kind; 7] = [
    Kind::Have,
    Kind::PreSync,
    Kind::Operation,
    Kind::GarbageOperation,
    Kind::Done,
    Kind::Live,
    Kind::Close,
];

#[derive(Clone, Copy, Debug, PartialEq, Eq, Serialize, Deserialize)]
enum Fault {
    None,
    /// The peer's item at `pos` is replaced by a message of `kind`.
    Replace { pos: u16, kind: Kind },
    /// A message of `kind` is inserted before the peer's item at `pos`.
    Insert { pos: u16, kind: Kind },
    /// The stream ends after `pos` items.
    CloseAt { pos: u16 },
    /// The stream yields an error item before the peer's item at `pos`.
    ErrorAt { pos: u16 },
    Sink(SinkFault),
}

#[derive(Clone, Copy, Debug, PartialEq, Eq, Serialize, Deserialize)]
enum LocalIn {
    /// `ToSync::Payload` of entry `0..4` of the local live pool.
    Payload(u8),
    Close,
}

#[derive(Clone, Copy, Debug, PartialEq, Eq, Serialize, Deserialize)]
enum Act {
    /// Feed the peer's next item (or close the stream when the script is exhausted).
    Deliver,
    /// Send the next local live-mode input.
    Local,
    /// Take one outbound message from the sink.
    Take,
}

#[derive(Clone, Debug, Serialize, Deserialize)]
struct Case {
    live: bool,
    /// Entries in the local store: (author 1, log 0), (author 1, log 1), (author 2, log 0).
    local: [u8; 3],
    have: HaveKind,
    /// Operations the peer sends during sync (0..=3).
    peer_sync_ops: u8,
    /// Operations the peer sends in live mode: indices into its chain (values below
    /// `peer_sync_ops` repeat an operation already sent during sync).
    peer_live: Vec<u8>,
    /// Peer ends with a `Close` message before the stream ends.
    peer_close: bool,
    local_in: Vec<LocalIn>,
    fault: Fault,
    /// 0 = unbounded sink, otherwise the number of untaken messages it holds.
    slots: u8,
    schedule: Vec<Act>,
}

const PEER_CHAIN: u32 = 8;

struct Pools {
    /// Local authors' chains: [author 1 log 0, author 1 log 1, author 2 log 0], 7 entries each (the
    /// first `local[i]` are in the store, the following ones are "new" live-mode payloads).
    local: [Vec<Op>; 3],
    peer: Vec<Op>,
}

fn pools() -> &'static Pools {
    static P: OnceLock<Pools> = OnceLock::new();
    P.get_or_init(|| Pools {
        local: [chain(&key(1), 0, 7, 1), chain(&key(1), 1, 7, 2), chain(&key(2), 0, 7, 3)],
        peer: chain(&key(10), 0, PEER_CHAIN, 9),
    })
}

fn op_msg(op: &Op) -> Msg {
    TopicLogSyncMessage::Sync(LogSyncMessage::Operation(
        op.header.to_bytes(),
        op.body.as_ref().map(|b| b.to_bytes()),
    ))
}

fn live_msg(op: &Op) -> Msg {
    TopicLogSyncMessage::Live(op.header.clone(), op.body.clone())
}

fn message_of(kind: Kind) -> Msg {
    let p = pools();
    match kind {
        Kind::Have => TopicLogSyncMessage::Sync(LogSyncMessage::Have(Default::default())),
        Kind::PreSync => TopicLogSyncMessage::Sync(LogSyncMessage::PreSync {
            total_operations: 1,
            total_bytes: 10,
        }),
        Kind::Operation => op_msg(&p.peer[PEER_CHAIN as usize - 1]),
        Kind::GarbageOperation => {
            TopicLogSyncMessage::Sync(LogSyncMessage::Operation(vec![0xFF, 0x00, 0x13], Some(vec![1, 2, 3])))
        }
        Kind::Done => TopicLogSyncMessage::Sync(LogSyncMessage::Done),
        Kind::Live => live_msg(&p.peer[PEER_CHAIN as usize - 2]),
        Kind::Close => TopicLogSyncMessage::Close,
    }
}

const LOCAL_LOGS: [(u8, LogIdT); 3] = [(1, 0), (1, 1), (2, 0)];

fn build_store(case: &Case, t: &Topic) -> MemStore {
    let p = pools();
    let store = MemStore::new();
    for (i, (author, log)) in LOCAL_LOGS.iter().enumerate() {
        store.associate_now(t, &key(*author).verifying_key(), *log);
        for op in p.local[i].iter().take(case.local[i].min(4) as usize) {
            store.insert(op);
        }
    }
    // The peer's log belongs to the topic as well.
    store.associate_now(t, &key(10).verifying_key(), 0);
    store
}

fn peer_have(case: &Case) -> LogHeights<VerifyingKey, LogIdT> {
    let mut h: LogHeights<VerifyingKey, LogIdT> = Default::default();
    for (i, (author, log)) in LOCAL_LOGS.iter().enumerate() {
        let n = case.local[i].min(4) as u32;
        let height = match case.have {
            HaveKind::Empty => None,
            HaveKind::All => n.checked_sub(1),
            HaveKind::Behind => n.checked_sub(2),
        };
        if let Some(height) = height {
            h.entry(key(*author).verifying_key()).or_default().insert(*log, height);
        }
    }
    h
}

/// The honest peer transcript, then the stream fault applied to it.
fn peer_script(case: &Case) -> (Vec<Item<Msg>>, Option<usize>, bool) {
    let p = pools();
    let mut items: Vec<Item<Msg>> = Vec::new();
    items.push(Item::Msg(TopicLogSyncMessage::Sync(LogSyncMessage::Have(peer_have(case)))));
    let n = case.peer_sync_ops.min(3) as usize;
    if n > 0 {
        let bytes: u32 = p.peer[..n]
            .iter()
            .map(|op| op.header.to_bytes().len() as u32 + op.header.payload_size)
            .sum();
        items.push(Item::Msg(TopicLogSyncMessage::Sync(LogSyncMessage::PreSync {
            total_operations: n as u32,
            total_bytes: bytes,
        })));
        for op in &p.peer[..n] {
            items.push(Item::Msg(op_msg(op)));
        }
    }
    items.push(Item::Msg(TopicLogSyncMessage::Sync(LogSyncMessage::Done)));
    if case.live {
        for i in &case.peer_live {
            items.push(Item::Msg(live_msg(&p.peer[(*i as usize).min(PEER_CHAIN as usize - 3)])));
        }
        if case.peer_close {
            items.push(Item::Msg(TopicLogSyncMessage::Close));
        }
    }
    // `fault_pos`: number of honest items in front of the fault (None = no stream fault).
    let mut fault_pos = None;
    let mut truncated = false;
    match case.fault {
        Fault::Replace { pos, kind } => {
            let i = idx(pos, items.len());
            items[i] = Item::Msg(message_of(kind));
            fault_pos = Some(i);
        }
        Fault::Insert { pos, kind } => {
            let i = idx(pos, items.len() + 1);
            items.insert(i, Item::Msg(message_of(kind)));
            fault_pos = Some(i);
        }
        Fault::CloseAt { pos } => {
            let i = idx(pos, items.len());
            items.truncate(i);
            fault_pos = Some(i);
            truncated = true;
        }
        Fault::ErrorAt { pos } => {
            let i = idx(pos, items.len() + 1);
            items.insert(i, Item::Error);
            fault_pos = Some(i);
        }
        Fault::None | Fault::Sink(_) => {}
    }
    (items, fault_pos, truncated)
}

struct Outcome {
    events: Vec<Ev>,
    result_ok: Option<bool>,
    error_text: Option<String>,
    spin: bool,
    stuck: bool,
    polls_after_none: u64,
    sink_fault_hits: u32,
    io_before_sink_fault: bool,
    trace: crate::transport::Trace<Msg>,
}

impl Outcome {
    fn io_before_inbound_at(&self, n: usize) -> Option<bool> {
        io_before_inbound(&self.trace, n)
    }
}

fn run_session(case: &Case) -> Result<Outcome, String> {
    let p = pools();
    let t = topic(22);
    let store = build_store(case, &t);
    let (event_tx, mut event_rx) = broadcast::channel::<Event>(4096);
    let (mut live_tx, live_rx) = mpsc::channel::<ToSync<Op>>(64);
    let session = TopicLogSync::<Topic, MemStore, LogIdT, Ext>::new(t, store, if case.live { Some(live_rx) } else { None }, event_tx);

    let trace = new_trace::<Msg>();
    let (stream, sh) = script_stream(trace.clone());
    let sink_fault = match case.fault {
        Fault::Sink(f) => Some(f),
        _ => None,
    };
    let slots = if case.slots == 0 { None } else { Some(case.slots as usize) };
    let (sink, kh) = script_sink(slots, sink_fault, trace.clone());

    let mut st = Stepper::new(async move {
        let mut sink = sink;
        let mut stream = stream;
        session.run(&mut sink, &mut stream).await
    });

    let (items, _, _) = peer_script(case);
    let mut script: VecDeque<Item<Msg>> = items.into();
    let mut local_in: VecDeque<LocalIn> = case.local_in.iter().copied().collect();
    let mut events: Vec<Ev> = Vec::new();
    let mut budget: u64 = 20_000;
    let mut spin = false;
    let mut stuck = false;

    let mut collect = |events: &mut Vec<Ev>| -> Result<(), String> {
        loop {
            match event_rx.try_recv() {
                Ok(e) => events.push(kind_of(&e)),
                Err(TryRecvError::Empty) | Err(TryRecvError::Closed) => return Ok(()),
                Err(TryRecvError::Lagged(n)) => {
                    engine::harness_error(&format!("C22 event receiver lagged by {n}"));
                }
            }
        }
    };

    let mut send_local = |x: LocalIn| {
        let msg = match x {
            LocalIn::Payload(i) => {
                // Pool: the next not-yet-stored entries of the three local logs and one peer
                // operation (as if forwarded from another session).
                let i = i as usize % 4;
                let op = if i < 3 {
                    p.local[i][case.local[i].min(4) as usize].clone()
                } else {
                    p.peer[PEER_CHAIN as usize - 3].clone()
                };
                ToSync::Payload(op)
            }
            LocalIn::Close => ToSync::Close,
        };
        // A closed live channel (no live mode) is not an error of the case.
        let _ = live_tx.try_send(msg);
    };

    let mut done = false;
    for act in &case.schedule {
        match act {
            Act::Deliver => {
                if let Some(item) = script.pop_front() {
                    sh.push(item);
                } else if !sh.is_closed() {
                    sh.close();
                }
            }
            Act::Local => {
                if let Some(x) = local_in.pop_front() {
                    send_local(x);
                }
            }
            Act::Take => {
                kh.take();
            }
        }
        let d = drive(&mut st, &mut budget)?;
        collect(&mut events)?;
        if sh.spin_detected() {
            spin = true;
            break;
        }
        if d == Drive::Done {
            done = true;
            break;
        }
    }
    // Flush: deliver whatever is left, close the stream, relay on demand.
    while !done && !spin {
        let d = drive(&mut st, &mut budget)?;
        collect(&mut events)?;
        if sh.spin_detected() {
            spin = true;
            break;
        }
        if d == Drive::Done {
            break;
        }
        if let Some(item) = script.pop_front() {
            sh.push(item);
        } else if let Some(x) = local_in.pop_front() {
            send_local(x);
        } else if !sh.is_closed() {
            sh.close();
        } else if kh.queued() > 0 {
            kh.take();
        } else {
            stuck = true;
            break;
        }
    }
    collect(&mut events)?;
    let result = st.take_output();
    let io_before_sink_fault = io_before_sink_failure(&trace);
    Ok(Outcome {
        events,
        result_ok: result.as_ref().map(|r| r.is_ok()),
        error_text: result.and_then(|r| r.err()).map(|e| e.to_string()),
        spin,
        stuck,
        polls_after_none: sh.polls_after_none(),
        sink_fault_hits: kh.fault_hits(),
        io_before_sink_fault,
        trace,
    })
}

fn check_case(case: &Case, allow_missing_start: bool) -> CaseResult {
    let out = run_session(case)?;
    ensure!(
        !out.spin,
        "session busy-loops on a closed stream: polled it {} more times after it returned None without yielding, \
         no terminal event; events so far={:?}",
        out.polls_after_none,
        out.events
    );
    ensure!(
        !out.stuck,
        "session future is pending although the remote closed the stream, all input was delivered and nothing is left \
         to relay (hang); events so far={:?}",
        out.events
    );
    let Some(ok) = out.result_ok else {
        return Err("session future neither completed nor was classified (harness)".into());
    };
    check_grammar(&out.events, allow_missing_start)?;
    let last = *out.events.last().expect("grammar guarantees a terminal event");
    ensure!(
        ok == (last == Ev::SessionFinished),
        "run() returned {} but the terminal event is {:?}; events={:?}",
        if ok { "Ok".to_string() } else { format!("Err({})", out.error_text.clone().unwrap_or_default()) },
        last,
        out.events
    );

    let (_, fault_pos, _) = peer_script(case);
    let faulted = case.fault != Fault::None;
    let stream_fault_reached = fault_pos.and_then(|p| out.io_before_inbound_at(p)).unwrap_or(false);
    let nontrivial = match case.fault {
        Fault::None => false,
        Fault::Sink(_) => out.sink_fault_hits > 0 && out.io_before_sink_fault,
        _ => stream_fault_reached,
    };
    let reached_live = out.events.contains(&Ev::LiveModeStarted);
    Ok(CaseOk::nontrivial(nontrivial)
        .label_if(ok, "outcome_session_finished")
        .label_if(!ok, "outcome_failed")
        .label_if(!faulted, "honest")
        .label_if(matches!(case.fault, Fault::Replace { .. } | Fault::Insert { .. }), "fault_unexpected_message")
        .label_if(matches!(case.fault, Fault::CloseAt { .. }), "fault_stream_closed")
        .label_if(matches!(case.fault, Fault::ErrorAt { .. }), "fault_stream_error")
        .label_if(matches!(case.fault, Fault::Sink(_)), "fault_sink")
        .label_if(out.sink_fault_hits > 0, "sink_fault_hit")
        .label_if(
            matches!(case.fault, Fault::Sink(SinkFault { op: SinkOp::Close, .. })) && out.sink_fault_hits > 0,
            "sink_close_failed"
        )
        .label_if(reached_live, "reached_live_mode")
        .label_if(reached_live && !ok, "failed_in_live_mode")
        .label_if(out.events.contains(&Ev::SyncStarted) && !out.events.contains(&Ev::SyncFinished), "failed_during_sync")
        .label_if(!out.events.contains(&Ev::SyncStarted), "failed_before_sync_started")
        .label_if(out.events.iter().filter(|e| **e == Ev::Op).count() > 0, "operations_received")
        .label_if(out.events.first() != Some(&Ev::SessionStarted), "missing_session_started(K-C22a)"))
}

fn kind() -> impl Strategy<Value = Kind> {
    (0usize..KINDS.len()).prop_map(|i| KINDS[i])
}

fn sink_op() -> impl Strategy<Value = SinkOp> {
    prop_oneof![
        1 => Just(SinkOp::Ready),
        1 => Just(SinkOp::Send),
        1 => Just(SinkOp::Flush),
        2 => Just(SinkOp::Close),
    ]
}

fn fault() -> impl Strategy<Value = Fault> {
    prop_oneof![
        2 => Just(Fault::None),
        3 => (any::<u16>(), kind()).prop_map(|(pos, kind)| Fault::Replace { pos, kind }),
        3 => (any::<u16>(), kind()).prop_map(|(pos, kind)| Fault::Insert { pos, kind }),
        4 => any::<u16>().prop_map(|pos| Fault::CloseAt { pos }),
        2 => any::<u16>().prop_map(|pos| Fault::ErrorAt { pos }),
        5 => (sink_op(), 0u8..8, any::<bool>()).prop_map(|(op, nth, sticky)| {
            // `close` is called once or twice per session; keep its index small so it is hit.
            let nth = if op == SinkOp::Close { nth % 2 } else { nth };
            Fault::Sink(SinkFault { op, nth, sticky })
        }),
    ]
}

fn case_strategy() -> impl Strategy<Value = Case> {
    let have = prop_oneof![Just(HaveKind::Empty), Just(HaveKind::All), Just(HaveKind::Behind)];
    let local_in = prop::collection::vec(
        prop_oneof![3 => (0u8..4).prop_map(LocalIn::Payload), 1 => Just(LocalIn::Close)],
        0..5,
    );
    let act = prop_oneof![4 => Just(Act::Deliver), 2 => Just(Act::Local), 2 => Just(Act::Take)];
    (
        (any::<bool>(), [0u8..4, 0u8..3, 0u8..3], have, 0u8..4),
        (
            prop::collection::vec(0u8..6, 0..4),
            any::<bool>(),
            local_in,
            fault(),
            prop_oneof![2 => Just(0u8), 1 => 1u8..4],
            prop::collection::vec(act, 0..24),
        ),
    )
        .prop_map(
            |((live, local, have, peer_sync_ops), (peer_live, peer_close, local_in, fault, slots, schedule))| Case {
                live,
                local,
                have,
                peer_sync_ops,
                peer_live,
                peer_close,
                local_in,
                fault,
                slots,
                schedule,
            },
        )
}

/// Systematic sweep: a few honest scenarios x (stream closed / error item at every position, the
/// sink failing at every one of its first operations of every kind, one-shot and sticky).
fn sweep_domain() -> Vec<Case> {
    let mut scenarios = Vec::new();
    for live in [false, true] {
        for (local, have) in [([0u8, 0, 0], HaveKind::Empty), ([2, 0, 1], HaveKind::Empty), ([2, 1, 0], HaveKind::All)] {
            for peer_sync_ops in [0u8, 2] {
                for (peer_close, local_close) in [(true, false), (false, true), (false, false)] {
                    if !live && (peer_close || local_close) {
                        continue;
                    }
                    scenarios.push(Case {
                        live,
                        local,
                        have,
                        peer_sync_ops,
                        peer_live: if live { vec![3, 0] } else { vec![] },
                        peer_close,
                        local_in: if live {
                            let mut v = vec![LocalIn::Payload(0)];
                            if local_close {
                                v.push(LocalIn::Close);
                            }
                            v
                        } else {
                            vec![]
                        },
                        fault: Fault::None,
                        slots: 0,
                        schedule: vec![],
                    });
                }
            }
        }
    }
    let mut out = Vec::new();
    for s in &scenarios {
        let len = peer_script(s).0.len();
        out.push(s.clone());
        // `idx(raw, len)` is monotone; pick a raw value per position.
        let raw = |i: usize, n: usize| -> u16 { (((i * 65536) + n - 1) / n).min(65535) as u16 };
        for i in 0..len {
            let mut c = s.clone();
            c.fault = Fault::CloseAt { pos: raw(i, len) };
            out.push(c);
        }
        for i in 0..=len {
            let mut c = s.clone();
            c.fault = Fault::ErrorAt { pos: raw(i, len + 1) };
            out.push(c);
        }
        for op in [SinkOp::Ready, SinkOp::Send, SinkOp::Flush, SinkOp::Close] {
            let max = if op == SinkOp::Close { 2 } else { 6 };
            for nth in 0..max {
                for sticky in [false, true] {
                    let mut c = s.clone();
                    c.fault = Fault::Sink(SinkFault { op, nth, sticky });
                    out.push(c);
                }
            }
        }
    }
    out
}

pub fn run(mut ctx: Ctx) -> ! {
    let allow_missing_start = ctx.is_open("K-C22a");
    ctx.assume(
        "sessions run on an in-memory LogStore/TopicStore (store calls never pend), so a pending session waits on its \
         transport or live channel only; the event channel always has a receiver; the store never fails",
    );
    ctx.assume(
        "tokio::select! in LogSync's Sync state picks its branch order from a thread-local RNG the harness cannot seed; \
         the oracle (event grammar, termination) does not depend on that order",
    );
    if allow_missing_start {
        ctx.assume("K-C22a open: grammar checked modulo a missing leading SessionStarted (misplaced/duplicated one still fails)");
        // Probe: the smallest honest session.
        let probe = Case {
            live: false,
            local: [0, 0, 0],
            have: HaveKind::Empty,
            peer_sync_ops: 0,
            peer_live: vec![],
            peer_close: false,
            local_in: vec![],
            fault: Fault::None,
            slots: 0,
            schedule: vec![],
        };
        match run_session(&probe) {
            Ok(out) => {
                let missing = out.events.first() != Some(&Ev::SessionStarted);
                ctx.known_finding(
                    "K-C22a",
                    missing,
                    &format!("honest session without data emitted {:?}", out.events),
                );
            }
            Err(e) => ctx.known_finding("K-C22a", false, &format!("probe did not run: {e}")),
        }
    }

    ctx.run_exhaustive(
        "fault_sweep",
        "24 honest scenarios (live on/off, data on neither/one/both sides, ended by peer Close / local Close / bare closure) x \
         {no fault, stream closed after every prefix, error item at every position, sink failing at each of its first \
         ready/send/flush (6) and close (2) calls, one-shot and sticky}; non-trivial = the fault took effect after at least \
         one protocol message was exchanged",
        sweep_domain(),
        move |c: &Case| check_case(c, allow_missing_start),
    );
    ctx.run_prop(
        Part::new(
            "scripted_peer",
            "TopicLogSync (live on/off, 0-3 entries in 3 local logs, peer Have empty/all/behind, 0-3 peer sync operations, \
             0-3 peer live operations incl. repeats, peer Close or bare closure, 0-4 local live inputs incl. Close, sink \
             unbounded or 1-3 slots) against a scripted peer with one fault: message of any kind replacing/inserted at any \
             position, stream closed at any position, error item at any position, sink failing at its k-th \
             ready/send/flush/close (one-shot or sticky); generated interleaving of deliver/local-input/take steps; \
             non-trivial = the fault took effect after at least one protocol message was exchanged",
            40_000,
            1_000_000,
        )
        .min_nontrivial(0.4),
        case_strategy,
        move |c: &Case| check_case(c, allow_missing_start),
    );
    ctx.finish()
}
