//! C25 Topic handshake transfers the initiator's topic or fails cleanly.
//!
//! (a) `honest_pair`: `TopicHandshakeInitiator` and `TopicHandshakeAcceptor` run against each other
//!     over B7 transports with 1-5 message slots per direction; the harness relays message by
//!     message following a generated schedule. Oracle: both return `Ok`, the acceptor's output is
//!     exactly the initiator's topic, and the pair never ends up pending with nothing in flight.
//! (b) `scripted_peer`: one side against a scripted peer: the honest transcript, every truncation,
//!     every single substitution (other message kind / other topic), an error item at each
//!     position, trailing extra messages, a failing sink at each operation. Oracle, written from
//!     the protocol description (initiator: send Topic, expect Done, send Done; acceptor: expect
//!     Topic, send Done, expect Done): with a working sink the result is `Ok` exactly when the
//!     received prefix is the honest one – and the acceptor's output is then the topic carried by
//!     the first message; once the peer's stream has ended the future is never left pending.
//!     With an injected sink failure only "no hang" and "no wrong topic" are asserted.
//!
//! Topic types: `p2panda_core::Topic`, `String`, `Vec<u8>`, a nested struct.

use std::fmt::Debug;

use engine::proptest::prelude::*;
use engine::stepper::Stepper;
use engine::{CaseOk, CaseResult, Ctx, Part, ensure, idx};
use futures_channel::mpsc;
use p2panda_core::Topic;
use p2panda_sync::protocols::{
    TopicHandshakeAcceptor, TopicHandshakeEvent, TopicHandshakeInitiator, TopicHandshakeMessage,
};
use p2panda_sync::traits::Protocol;
use serde::de::DeserializeOwned;
use serde::{Deserialize, Serialize};

use crate::transport::{Drive, Item, SinkFault, SinkOp, drive, io_before_inbound, io_before_sink_failure, new_trace, script_sink, script_stream};

#[derive(Clone, Debug, PartialEq, Serialize, Deserialize)]
struct Nested {
    id: u64,
    name: String,
    tags: Vec<String>,
    inner: Option<(u32, Vec<u8>)>,
}

/// Generated topic value; the variant selects the Rust type the handshake is instantiated with.
#[derive(Clone, Debug, PartialEq, Serialize, Deserialize)]
enum TopicSpec {
    Core(Vec<u8>),
    Str(String),
    Bytes(Vec<u8>),
    Nested(Nested),
}

#[derive(Clone, Copy, Debug, PartialEq, Eq, Serialize, Deserialize)]
enum Role {
    Initiator,
    Acceptor,
}

#[derive(Clone, Copy, Debug, PartialEq, Eq, Serialize, Deserialize)]
enum Subst {
    /// `Topic(other)`.
    OtherTopic,
    /// `Topic(same)`.
    SameTopic,
    Done,
}

#[derive(Clone, Copy, Debug, PartialEq, Eq, Serialize, Deserialize)]
enum StreamFault {
    None,
    /// Stream ends after `pos` items of the honest transcript.
    Truncate { pos: u16 },
    Replace { pos: u16, with: Subst },
    ErrorAt { pos: u16 },
}

#[derive(Clone, Copy, Debug, PartialEq, Eq, Serialize, Deserialize)]
enum EvMode {
    /// Event channel of capacity 0-2, receiver drained by the harness whenever the side is idle.
    Drained(u8),
    /// Capacity 8, never drained (a side emits at most 3 events).
    Large,
}

#[derive(Clone, Copy, Debug, PartialEq, Eq, Serialize, Deserialize)]
enum Act {
    Deliver,
    Take,
    DrainEvents,
}

#[derive(Clone, Copy, Debug, PartialEq, Eq, Serialize, Deserialize)]
enum PairAct {
    RelayToAcceptor,
    RelayToInitiator,
    RunInitiator,
    RunAcceptor,
}

#[derive(Clone, Debug, Serialize, Deserialize)]
struct Scripted {
    topic: TopicSpec,
    role: Role,
    fault: StreamFault,
    /// Extra messages appended to the transcript (ignored by a completed handshake).
    extra: Vec<Subst>,
    sink_fault: Option<SinkFault>,
    slots: u8,
    ev: EvMode,
    schedule: Vec<Act>,
}

#[derive(Clone, Debug, Serialize, Deserialize)]
struct Pair {
    topic: TopicSpec,
    slots_to_acceptor: u8,
    slots_to_initiator: u8,
    ev_initiator: EvMode,
    ev_acceptor: EvMode,
    schedule: Vec<PairAct>,
}

trait TopicT: Clone + Debug + PartialEq + Serialize + DeserializeOwned + Send + Sync + 'static {}
impl<T> TopicT for T where T: Clone + Debug + PartialEq + Serialize + DeserializeOwned + Send + Sync + 'static {}

type HMsg<T> = TopicHandshakeMessage<T>;
type HEvt<T> = TopicHandshakeEvent<T>;

fn core_topic(bytes: &[u8]) -> Topic {
    let mut b = [0u8; 32];
    for (i, x) in bytes.iter().take(32).enumerate() {
        b[i] = *x;
    }
    Topic::from(b)
}

/// `(topic, a different topic)` of the spec's type, handed to `f`.
macro_rules! with_topics {
    ($spec:expr, |$t:ident, $other:ident| $body:expr) => {
        match $spec {
            TopicSpec::Core(b) => {
                let $t = core_topic(b);
                let mut o = $t.to_bytes();
                o[31] ^= 0x01;
                let $other = Topic::from(o);
                $body
            }
            TopicSpec::Str(s) => {
                let $t = s.clone();
                let $other = format!("{s}#");
                $body
            }
            TopicSpec::Bytes(b) => {
                let $t = b.clone();
                let mut o = b.clone();
                o.push(0);
                let $other = o;
                $body
            }
            TopicSpec::Nested(n) => {
                let $t = n.clone();
                let mut o = n.clone();
                o.id = o.id.wrapping_add(1);
                let $other = o;
                $body
            }
        }
    };
}

fn ev_capacity(ev: EvMode) -> usize {
    match ev {
        EvMode::Drained(c) => c.min(2) as usize,
        EvMode::Large => 8,
    }
}

fn drain_events<T>(rx: &mut mpsc::Receiver<HEvt<T>>, out: &mut Vec<HEvt<T>>) {
    while let Ok(e) = rx.try_recv() {
        out.push(e);
    }
}

fn subst_msg<T: TopicT>(s: Subst, t: &T, other: &T) -> HMsg<T> {
    match s {
        Subst::OtherTopic => TopicHandshakeMessage::Topic(other.clone()),
        Subst::SameTopic => TopicHandshakeMessage::Topic(t.clone()),
        Subst::Done => TopicHandshakeMessage::Done,
    }
}

/// What the peer's stream carries for this case.
fn scripted_items<T: TopicT>(case: &Scripted, t: &T, other: &T) -> (Vec<Item<HMsg<T>>>, Option<usize>) {
    let mut items: Vec<Item<HMsg<T>>> = match case.role {
        // We are the acceptor, the peer is an initiator.
        Role::Acceptor => vec![
            Item::Msg(TopicHandshakeMessage::Topic(t.clone())),
            Item::Msg(TopicHandshakeMessage::Done),
        ],
        // We are the initiator, the peer is an acceptor.
        Role::Initiator => vec![Item::Msg(TopicHandshakeMessage::Done)],
    };
    let honest_len = items.len();
    let mut fault_pos = None;
    match case.fault {
        StreamFault::None => {}
        StreamFault::Truncate { pos } => {
            let i = idx(pos, honest_len);
            items.truncate(i);
            fault_pos = Some(i);
        }
        StreamFault::Replace { pos, with } => {
            let i = idx(pos, honest_len);
            items[i] = Item::Msg(subst_msg(with, t, other));
            fault_pos = Some(i);
        }
        StreamFault::ErrorAt { pos } => {
            let i = idx(pos, honest_len + 1);
            items.insert(i, Item::Error);
            fault_pos = Some(i);
        }
    }
    if !matches!(case.fault, StreamFault::Truncate { .. }) {
        for s in &case.extra {
            items.push(Item::Msg(subst_msg(*s, t, other)));
        }
    }
    (items, fault_pos)
}

/// Independent model of the handshake: `Some(topic)` = the side must succeed (acceptor: with this
/// topic), `None` = it must fail. Assumes a working sink.
fn expected<T: TopicT>(role: Role, items: &[Item<HMsg<T>>], own: &T) -> Option<T> {
    match role {
        Role::Initiator => match items.first() {
            Some(Item::Msg(TopicHandshakeMessage::Done)) => Some(own.clone()),
            _ => None,
        },
        Role::Acceptor => {
            let Some(Item::Msg(TopicHandshakeMessage::Topic(x))) = items.first() else {
                return None;
            };
            match items.get(1) {
                Some(Item::Msg(TopicHandshakeMessage::Done)) => Some(x.clone()),
                _ => None,
            }
        }
    }
}

enum Side<'a, T> {
    Initiator(Stepper<'a, Result<(), String>>),
    Acceptor(Stepper<'a, Result<T, String>>),
}

impl<'a, T> Side<'a, T> {
    fn drive(&mut self, budget: &mut u64) -> Result<Drive, String> {
        match self {
            Side::Initiator(s) => drive(s, budget),
            Side::Acceptor(s) => drive(s, budget),
        }
    }
}

fn check_scripted_t<T: TopicT>(case: &Scripted, t: T, other: T) -> CaseResult {
    let (items, fault_pos) = scripted_items(case, &t, &other);
    let want = expected(case.role, &items, &t);

    let trace = new_trace::<HMsg<T>>();
    let (stream, sh) = script_stream(trace.clone());
    let slots = Some(case.slots.clamp(1, 5) as usize);
    let (sink, kh) = script_sink(slots, case.sink_fault, trace.clone());
    let (event_tx, mut event_rx) = mpsc::channel::<HEvt<T>>(ev_capacity(case.ev));
    let mut events = Vec::new();

    let mut side: Side<'_, T> = match case.role {
        Role::Initiator => {
            let p = TopicHandshakeInitiator::new(t.clone(), event_tx);
            Side::Initiator(Stepper::new(async move {
                let (mut sink, mut stream) = (sink, stream);
                p.run(&mut sink, &mut stream).await.map_err(|e| format!("{e:?}"))
            }))
        }
        Role::Acceptor => {
            let p = TopicHandshakeAcceptor::<T, HEvt<T>>::new(event_tx);
            Side::Acceptor(Stepper::new(async move {
                let (mut sink, mut stream) = (sink, stream);
                p.run(&mut sink, &mut stream).await.map_err(|e| format!("{e:?}"))
            }))
        }
    };

    let mut script: std::collections::VecDeque<_> = items.into();
    let mut budget = 2_000u64;
    let mut done = false;
    let mut stuck = false;
    let drained = matches!(case.ev, EvMode::Drained(_));
    for act in &case.schedule {
        match act {
            Act::Deliver => {
                if let Some(item) = script.pop_front() {
                    sh.push(item);
                } else if !sh.is_closed() {
                    sh.close();
                }
            }
            Act::Take => {
                kh.take();
            }
            Act::DrainEvents => {
                if drained {
                    drain_events(&mut event_rx, &mut events);
                }
            }
        }
        if side.drive(&mut budget)? == Drive::Done {
            done = true;
            break;
        }
    }
    while !done {
        if side.drive(&mut budget)? == Drive::Done {
            break;
        }
        ensure!(!sh.spin_detected(), "handshake busy-loops on a closed stream");
        if let Some(item) = script.pop_front() {
            sh.push(item);
        } else if !sh.is_closed() {
            sh.close();
        } else if kh.queued() > 0 {
            kh.take();
        } else {
            let before = events.len();
            if drained {
                drain_events(&mut event_rx, &mut events);
            }
            if events.len() == before {
                stuck = true;
                break;
            }
        }
    }
    ensure!(
        !stuck,
        "{:?} is left pending although the peer's stream has ended, its output was taken and its events were drained (hang)",
        case.role
    );
    drain_events(&mut event_rx, &mut events);

    let got: Result<Option<T>, String> = match &mut side {
        Side::Initiator(s) => s.take_output().expect("done").map(|()| None),
        Side::Acceptor(s) => s.take_output().expect("done").map(Some),
    };
    let sink_failed = kh.fault_hits() > 0;
    match (&got, &want) {
        (Ok(out), Some(topic)) => {
            if let Some(out) = out {
                ensure!(
                    out == topic,
                    "acceptor returned topic {out:?} but the initiator sent {topic:?}"
                );
            }
        }
        (Ok(out), None) => {
            return Err(format!(
                "{:?} returned Ok({out:?}) although the peer did not follow the handshake (fault {:?})",
                case.role, case.fault
            ));
        }
        (Err(e), Some(_)) => {
            ensure!(
                sink_failed,
                "{:?} failed with {e} although the peer was honest and the sink worked",
                case.role
            );
        }
        (Err(_), None) => {}
    }

    // A substitution that reproduces the honest message is not a fault.
    let effective_fault = fault_pos.is_some() && !(want.is_some() && matches!(case.fault, StreamFault::Replace { .. }));
    let nontrivial = (effective_fault && fault_pos.and_then(|p| io_before_inbound(&trace, p)).unwrap_or(false))
        || (sink_failed && io_before_sink_failure(&trace));
    Ok(CaseOk::nontrivial(nontrivial)
        .label_if(case.role == Role::Initiator, "initiator")
        .label_if(case.role == Role::Acceptor, "acceptor")
        .label_if(got.is_ok(), "ok")
        .label_if(got.is_err(), "err")
        .label_if(matches!(case.fault, StreamFault::Truncate { .. }), "fault_truncate")
        .label_if(matches!(case.fault, StreamFault::Replace { .. }), "fault_substitute")
        .label_if(matches!(case.fault, StreamFault::ErrorAt { .. }), "fault_error_item")
        .label_if(case.fault == StreamFault::None && case.sink_fault.is_none(), "honest")
        .label_if(sink_failed, "sink_fault_hit")
        .label_if(!case.extra.is_empty() && got.is_ok(), "ok_with_trailing_messages")
        .label_if(
            matches!(case.fault, StreamFault::Replace { pos, with: Subst::OtherTopic } if idx(pos, 2) == 0)
                && case.role == Role::Acceptor
                && got.is_ok(),
            "acceptor_other_topic_transferred"
        )
        .label_if(matches!(case.topic, TopicSpec::Core(_)), "topic_core")
        .label_if(matches!(case.topic, TopicSpec::Str(_)), "topic_string")
        .label_if(matches!(case.topic, TopicSpec::Bytes(_)), "topic_bytes")
        .label_if(matches!(case.topic, TopicSpec::Nested(_)), "topic_nested")
        .label_if(events.len() >= 2, "events_observed"))
}

fn check_scripted(case: &Scripted) -> CaseResult {
    with_topics!(&case.topic, |t, other| check_scripted_t(case, t, other))
}

fn check_pair_t<T: TopicT>(case: &Pair, t: T) -> CaseResult {
    let trace_i = new_trace::<HMsg<T>>();
    let trace_a = new_trace::<HMsg<T>>();
    // Initiator -> acceptor direction and back.
    let (stream_a, sh_a) = script_stream(trace_a.clone());
    let (sink_i, kh_i) = script_sink(Some(case.slots_to_acceptor.clamp(1, 5) as usize), None, trace_i.clone());
    let (stream_i, sh_i) = script_stream(trace_i.clone());
    let (sink_a, kh_a) = script_sink(Some(case.slots_to_initiator.clamp(1, 5) as usize), None, trace_a.clone());
    let (etx_i, mut erx_i) = mpsc::channel::<HEvt<T>>(ev_capacity(case.ev_initiator));
    let (etx_a, mut erx_a) = mpsc::channel::<HEvt<T>>(ev_capacity(case.ev_acceptor));
    let (mut ev_i, mut ev_a) = (Vec::new(), Vec::new());

    let init = TopicHandshakeInitiator::new(t.clone(), etx_i);
    let acc = TopicHandshakeAcceptor::<T, HEvt<T>>::new(etx_a);
    let mut si = Stepper::new(async move {
        let (mut sink, mut stream) = (sink_i, stream_i);
        init.run(&mut sink, &mut stream).await.map_err(|e| format!("{e:?}"))
    });
    let mut sa = Stepper::new(async move {
        let (mut sink, mut stream) = (sink_a, stream_a);
        acc.run(&mut sink, &mut stream).await.map_err(|e| format!("{e:?}"))
    });
    let mut budget = 4_000u64;
    let mut relayed = 0u32;
    let mut relay = |from: &crate::transport::SinkHandle<HMsg<T>>, to: &crate::transport::StreamHandle<HMsg<T>>| -> bool {
        if let Some(m) = from.take() {
            to.push(Item::Msg(m));
            relayed += 1;
            true
        } else {
            false
        }
    };
    for act in &case.schedule {
        match act {
            PairAct::RelayToAcceptor => {
                relay(&kh_i, &sh_a);
            }
            PairAct::RelayToInitiator => {
                relay(&kh_a, &sh_i);
            }
            PairAct::RunInitiator => {
                drive(&mut si, &mut budget)?;
            }
            PairAct::RunAcceptor => {
                drive(&mut sa, &mut budget)?;
            }
        }
    }
    loop {
        let di = drive(&mut si, &mut budget)?;
        let da = drive(&mut sa, &mut budget)?;
        if di == Drive::Done && da == Drive::Done {
            break;
        }
        let mut progressed = relay(&kh_i, &sh_a);
        progressed |= relay(&kh_a, &sh_i);
        if matches!(case.ev_initiator, EvMode::Drained(_)) {
            let n = ev_i.len();
            drain_events(&mut erx_i, &mut ev_i);
            progressed |= ev_i.len() > n;
        }
        if matches!(case.ev_acceptor, EvMode::Drained(_)) {
            let n = ev_a.len();
            drain_events(&mut erx_a, &mut ev_a);
            progressed |= ev_a.len() > n;
        }
        if !progressed && !si.woken() && !sa.woken() {
            return Err(format!(
                "honest handshake pair is stuck: initiator done={}, acceptor done={}, nothing in flight",
                si.is_done(),
                sa.is_done()
            ));
        }
    }
    let ri = si.take_output().expect("done");
    let ra = sa.take_output().expect("done");
    ensure!(ri.is_ok(), "honest initiator failed: {:?}", ri);
    match ra {
        Ok(out) => ensure!(out == t, "acceptor returned {out:?}, initiator's topic is {t:?}"),
        Err(e) => return Err(format!("honest acceptor failed: {e}")),
    }
    let tight = case.slots_to_acceptor <= 1 || case.slots_to_initiator <= 1;
    Ok(CaseOk::nontrivial(true)
        .label_if(tight, "single_slot_direction")
        .label_if(!case.schedule.is_empty(), "generated_schedule")
        .label_if(matches!(case.ev_initiator, EvMode::Drained(0)) || matches!(case.ev_acceptor, EvMode::Drained(0)), "event_channel_cap0")
        .label_if(relayed == 3, "three_messages_relayed"))
}

fn check_pair(case: &Pair) -> CaseResult {
    match &case.topic {
        TopicSpec::Core(b) => check_pair_t(case, core_topic(b)),
        TopicSpec::Str(s) => check_pair_t(case, s.clone()),
        TopicSpec::Bytes(b) => check_pair_t(case, b.clone()),
        TopicSpec::Nested(n) => check_pair_t(case, n.clone()),
    }
}

fn topic_spec() -> impl Strategy<Value = TopicSpec> {
    let nested = (
        any::<u64>(),
        ".{0,12}",
        prop::collection::vec("[a-z]{0,6}", 0..4),
        prop::option::of((any::<u32>(), prop::collection::vec(any::<u8>(), 0..16))),
    )
        .prop_map(|(id, name, tags, inner)| Nested { id, name, tags, inner });
    prop_oneof![
        prop::collection::vec(any::<u8>(), 32).prop_map(TopicSpec::Core),
        ".{0,24}".prop_map(TopicSpec::Str),
        prop::collection::vec(any::<u8>(), 0..64).prop_map(TopicSpec::Bytes),
        nested.prop_map(TopicSpec::Nested),
    ]
}

fn subst() -> impl Strategy<Value = Subst> {
    prop_oneof![Just(Subst::OtherTopic), Just(Subst::SameTopic), Just(Subst::Done)]
}

fn ev_mode() -> impl Strategy<Value = EvMode> {
    prop_oneof![(0u8..3).prop_map(EvMode::Drained), Just(EvMode::Large)]
}

fn scripted_strategy() -> impl Strategy<Value = Scripted> {
    let fault = prop_oneof![
        2 => Just(StreamFault::None),
        3 => any::<u16>().prop_map(|pos| StreamFault::Truncate { pos }),
        4 => (any::<u16>(), subst()).prop_map(|(pos, with)| StreamFault::Replace { pos, with }),
        2 => any::<u16>().prop_map(|pos| StreamFault::ErrorAt { pos }),
    ];
    let sink_fault = prop_oneof![
        3 => Just(None),
        1 => (
            prop_oneof![Just(SinkOp::Ready), Just(SinkOp::Send), Just(SinkOp::Flush)],
            0u8..4,
            any::<bool>()
        )
            .prop_map(|(op, nth, sticky)| Some(SinkFault { op, nth, sticky })),
    ];
    let act = prop_oneof![3 => Just(Act::Deliver), 1 => Just(Act::Take), 1 => Just(Act::DrainEvents)];
    (
        topic_spec(),
        prop_oneof![Just(Role::Initiator), Just(Role::Acceptor)],
        fault,
        prop::collection::vec(subst(), 0..3),
        sink_fault,
        1u8..6,
        ev_mode(),
        prop::collection::vec(act, 0..8),
    )
        .prop_map(|(topic, role, fault, extra, sink_fault, slots, ev, schedule)| Scripted {
            topic,
            role,
            fault,
            extra,
            sink_fault,
            slots,
            ev,
            schedule,
        })
}

fn pair_strategy() -> impl Strategy<Value = Pair> {
    let act = prop_oneof![
        Just(PairAct::RelayToAcceptor),
        Just(PairAct::RelayToInitiator),
        Just(PairAct::RunInitiator),
        Just(PairAct::RunAcceptor)
    ];
    (topic_spec(), 1u8..6, 1u8..6, ev_mode(), ev_mode(), prop::collection::vec(act, 0..16)).prop_map(
        |(topic, slots_to_acceptor, slots_to_initiator, ev_initiator, ev_acceptor, schedule)| Pair {
            topic,
            slots_to_acceptor,
            slots_to_initiator,
            ev_initiator,
            ev_acceptor,
            schedule,
        },
    )
}

/// Every role x every truncation / substitution / error position x every sink operation index,
/// for one topic of each type.
fn sweep_domain() -> Vec<Scripted> {
    let topics = [
        TopicSpec::Core((0u8..32).collect()),
        TopicSpec::Str("chat/room-1".into()),
        TopicSpec::Bytes(vec![]),
        TopicSpec::Nested(Nested {
            id: 7,
            name: "n".into(),
            tags: vec!["a".into(), "".into()],
            inner: Some((1, vec![2, 3])),
        }),
    ];
    let mut out = Vec::new();
    for topic in &topics {
        for role in [Role::Initiator, Role::Acceptor] {
            let len = if role == Role::Initiator { 1usize } else { 2 };
            let raw = |i: usize, n: usize| -> u16 { (((i * 65536) + n - 1) / n).min(65535) as u16 };
            let mut faults = vec![StreamFault::None];
            for i in 0..len {
                faults.push(StreamFault::Truncate { pos: raw(i, len) });
                for with in [Subst::OtherTopic, Subst::SameTopic, Subst::Done] {
                    faults.push(StreamFault::Replace { pos: raw(i, len), with });
                }
            }
            for i in 0..=len {
                faults.push(StreamFault::ErrorAt { pos: raw(i, len + 1) });
            }
            let mut sink_faults = vec![None];
            for op in [SinkOp::Ready, SinkOp::Send, SinkOp::Flush] {
                for nth in 0..3 {
                    for sticky in [false, true] {
                        sink_faults.push(Some(SinkFault { op, nth, sticky }));
                    }
                }
            }
            for fault in &faults {
                for sink_fault in &sink_faults {
                    for extra in [vec![], vec![Subst::Done, Subst::OtherTopic]] {
                        for ev in [EvMode::Drained(0), EvMode::Large] {
                            out.push(Scripted {
                                topic: topic.clone(),
                                role,
                                fault: *fault,
                                extra: extra.clone(),
                                sink_fault: *sink_fault,
                                slots: 1,
                                ev,
                                schedule: vec![],
                            });
                        }
                    }
                }
            }
        }
    }
    out
}

pub fn run(mut ctx: Ctx) -> ! {
    ctx.assume(
        "the caller keeps the handshake's event receiver alive and either drains it or sized it for the <=3 events of a \
         side (both real callers use capacity 128 and keep the receiver); a dropped receiver is not a peer fault",
    );
    ctx.assume("with an injected sink failure only 'terminates' and 'never a wrong topic' are asserted, not Err");
    ctx.run_exhaustive(
        "transcript_sweep",
        "4 topic types x both roles x {honest, every truncation, every substitution by Topic(other)/Topic(same)/Done, error \
         item at every position} x {working sink, sink failing at its 1st-3rd ready/send/flush, one-shot and sticky} x \
         {no trailing messages, two trailing messages} x {event channel capacity 0 drained, capacity 8 undrained}; \
         non-trivial = fault at transcript position >= 1 or a sink failure after at least one exchanged message",
        sweep_domain(),
        check_scripted,
    );
    ctx.run_prop(
        Part::new(
            "scripted_peer",
            "random topics (Topic, String, Vec<u8>, nested struct), role, stream fault (truncate / substitute / error item at a \
             position), 0-2 trailing messages, optional sink failure, 1-5 sink slots, event channel drained (cap 0-2) or large, \
             generated deliver/take/drain schedule; non-trivial = fault at transcript position >= 1 or a sink failure after at \
             least one exchanged message",
            200_000,
            4_000_000,
        )
        .min_nontrivial(0.3),
        scripted_strategy,
        check_scripted,
    );
    ctx.run_prop(
        Part::new(
            "honest_pair",
            "initiator and acceptor against each other, 1-5 slots per direction, event channels drained (cap 0-2) or large, \
             generated relay/run schedule followed by relay-until-quiescent; every case is non-trivial (full handshake)",
            60_000,
            1_000_000,
        )
        .min_nontrivial(0.9),
        pair_strategy,
        check_pair,
    );
    ctx.finish()
}
