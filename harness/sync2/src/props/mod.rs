pub mod c22;
pub mod c23;
pub mod c25;
