//! Checks of the enc2 group: C35.
mod props;

fn main() {
    let ctx = engine::Ctx::from_args();
    match ctx.id.as_str() {
        "C35" => props::c35::run(ctx),
        other => engine::harness_error(&format!("property {other} is not served by verif-enc2")),
    }
}
