//! C35 Group data encryption: members agree, removed members are cut off.
//!
//! A generated history (create / add / remove / update / send, interleaved with partial deliveries
//! so that members act concurrently) is executed against `EncryptionGroup` with the repository's
//! own test fixtures (seeded key material, `TestDgm`, the test `MessageOrderer`). Every message is
//! broadcast to *all* peers (members, future members, removed members) and handed to each peer in
//! an independently generated *causal* order (a random linear extension of happens-before, which
//! the harness tracks itself from "what had the sender processed when it published").
//!
//! Oracle (from the property statement, never from the implementation):
//!  * agreement: at quiescence every current member reports the same `latest()` secret id;
//!  * decryption: a `send` by `s` is decrypted, to exactly the sent plaintext and exactly once, by
//!    every never-removed peer that was in `s`'s membership at that point (membership = reference
//!    model: initial ∪ added \ removed over the sender's causal past); after quiescence every
//!    current member sends once more and every other current member decrypts it;
//!  * cut-off: a peer `x` never holds a secret whose generating operation has a `remove(x)` in its
//!    causal past, nor the secret that a removal of `x` by somebody else rotated in.
//!
//! Open finding K-C35 (signature, a pure function of the generated history): peer `r` lacks secret
//! `K` and the operation that generated `K` is concurrent with `add(r)` – or `K` precedes `add(r)`
//! and the adder itself lacks `K` by the same rule (the welcome bundle is the adder's bundle and
//! nobody forwards the concurrent secret). Failures matching it are not asserted while the finding
//! is listed as open; every other disagreement is a violation.
//!
//! Open finding K-C35b (same root – the welcome hands over the adder's snapshot and nothing
//! concurrent is reconciled): `process_welcome` *replaces* the new member's membership state, so a
//! membership operation concurrent with `add(r)` that `r` had already processed is forgotten by `r`
//! (a removed peer reappears in `r`'s view / an added one vanishes); every later rotation by `r` is
//! then addressed to the wrong recipients. Signature (pure function of history and schedule):
//! generator `g` of secret `K` is *tainted*, i.e. some add/remove not in the causal past of `add(g)`
//! was delivered to `g` before `add(g)`, or `g`'s adder was tainted when adding. Failures about
//! such a `K` (removed peer holds it / member lacks it) are attributed to K-C35b.

use std::collections::{BTreeMap, BTreeSet};
use std::panic::{AssertUnwindSafe, catch_unwind};

use engine::proptest::prelude::*;
use engine::{CaseOk, CaseResult, Ctx, Part, idx};
use p2panda_encryption::crypto::Rng;
use p2panda_encryption::data_scheme::{ControlMessage, EncryptionGroup, GroupError, GroupOutput, GroupSecretId};
use p2panda_encryption::key_manager::KeyManager;
use p2panda_encryption::key_registry::KeyRegistry;
use p2panda_encryption::test_utils::data_scheme::dgm::TestDgm;
use p2panda_encryption::test_utils::data_scheme::network::{TestGroupState, init_group_state};
use p2panda_encryption::test_utils::data_scheme::ordering::{MessageOrderer, TestMessage};
use p2panda_encryption::test_utils::{MemberId, MessageId};
use p2panda_encryption::traits::{GroupMessage, GroupMessageContent};
use serde::{Deserialize, Serialize};

type Dgm = TestDgm<MemberId, MessageId>;
type Msg = TestMessage<Dgm>;
type Group = EncryptionGroup<MemberId, MessageId, KeyRegistry<MemberId>, Dgm, KeyManager, MessageOrderer<Dgm>>;

const KEY: &str = "K-C35";
const KEY_B: &str = "K-C35b";

#[derive(Clone, Copy, Debug)]
pub struct Open {
    pub a: bool,
    pub b: bool,
}

impl Open {
    fn allows(&self, key: &str) -> bool {
        (key == KEY && self.a) || (key == KEY_B && self.b)
    }
}

// ---------------------------------------------------------------------------------------------
// Generated case
// ---------------------------------------------------------------------------------------------

#[derive(Clone, Debug, Serialize, Deserialize)]
pub enum Step {
    /// `by` (index into the currently active members) adds `who` (index into never-added peers).
    Add { by: u16, who: u16 },
    /// `by` removes `who` (index into `by`'s membership view; may be `by` itself).
    Remove { by: u16, who: u16 },
    Update { by: u16 },
    Send { by: u16 },
    /// Hand up to `count` deliverable messages to peer `to`, each chosen by `pick`.
    Deliver { to: u16, pick: u16, count: u8 },
    /// Deliver everything to everybody (creates sequential stretches).
    Sync,
    /// `by` adds a peer which was added before by somebody else, is not (yet) in `by`'s view and
    /// was never removed: two members add the same peer concurrently, the peer is welcomed twice.
    AddAgain { by: u16, who: u16 },
}

#[derive(Clone, Debug, Serialize, Deserialize)]
pub struct Case {
    /// Number of peers (3..=6).
    pub n: u8,
    pub seed: u64,
    pub creator: u16,
    /// Bit i set => peer i is an initial member (the creator always is).
    pub initial: u8,
    pub steps: Vec<Step>,
    /// Sort keys for the final flush, `flush[p][i]` = key of message i at peer p (missing = 0).
    pub flush: Vec<Vec<u16>>,
}

fn step_strategy() -> impl Strategy<Value = Step> {
    prop_oneof![
        3 => (any::<u16>(), any::<u16>()).prop_map(|(by, who)| Step::Add { by, who }),
        3 => (any::<u16>(), any::<u16>()).prop_map(|(by, who)| Step::Remove { by, who }),
        4 => any::<u16>().prop_map(|by| Step::Update { by }),
        4 => any::<u16>().prop_map(|by| Step::Send { by }),
        7 => (any::<u16>(), any::<u16>(), 1u8..4).prop_map(|(to, pick, count)| Step::Deliver { to, pick, count }),
        2 => Just(Step::Sync),
        2 => (any::<u16>(), any::<u16>()).prop_map(|(by, who)| Step::AddAgain { by, who }),
    ]
}

fn case_strategy(max_steps: usize) -> impl Strategy<Value = Case> {
    (
        3u8..=6,
        any::<u64>(),
        any::<u16>(),
        any::<u8>(),
        prop::collection::vec(step_strategy(), 3..=max_steps),
        prop::collection::vec(prop::collection::vec(any::<u16>(), 0..24), 0..6),
    )
        .prop_map(|(n, seed, creator, initial, steps, flush)| Case {
            n,
            seed,
            creator,
            initial,
            steps,
            flush,
        })
}

// ---------------------------------------------------------------------------------------------
// Harness-side bookkeeping (reference model of causality, membership and obligations)
// ---------------------------------------------------------------------------------------------

#[derive(Clone)]
enum Kind {
    Create { members: BTreeSet<usize> },
    Add { who: usize },
    Remove { who: usize },
    Update,
    Send { secret: GroupSecretId, view: BTreeSet<usize> },
}

impl std::fmt::Debug for Kind {
    fn fmt(&self, f: &mut std::fmt::Formatter<'_>) -> std::fmt::Result {
        match self {
            Kind::Create { members } => write!(f, "Create {members:?}"),
            Kind::Add { who } => write!(f, "Add {who}"),
            Kind::Remove { who } => write!(f, "Remove {who}"),
            Kind::Update => write!(f, "Update"),
            Kind::Send { secret, view } => write!(f, "Send with secret {} to {view:?}", short(secret)),
        }
    }
}

struct Published {
    msg: Msg,
    sender: usize,
    kind: Kind,
    /// Control messages (indices) the sender had processed when publishing, plus – for control
    /// messages – the message itself. This is the happens-before relation.
    past: BTreeSet<usize>,
    /// Secret generated by this operation (create / remove / update).
    generated: Option<GroupSecretId>,
    /// Was the sender's membership state possibly corrupted (K-C35b taint) when publishing?
    sender_tainted: bool,
}

impl Published {
    fn is_control(&self) -> bool {
        !matches!(self.kind, Kind::Send { .. })
    }
}

struct World {
    n: usize,
    rng: Rng,
    states: Vec<Option<TestGroupState>>,
    msgs: Vec<Published>,
    /// Per peer: messages handed over (or own), in order.
    delivered: Vec<BTreeSet<usize>>,
    /// Per peer: plaintext outputs observed, plaintext -> count.
    outputs: Vec<BTreeMap<Vec<u8>, u32>>,
    /// Peers that were an initial member or target of an add (ids are never re-added).
    ever_member: BTreeSet<usize>,
    add_of: BTreeMap<usize, Vec<usize>>,
    secret_gen: BTreeMap<GroupSecretId, usize>,
    sends: u32,
    labels: BTreeSet<&'static str>,
    /// K-C35b: peers whose membership state may have lost an operation concurrent with their add.
    tainted: Vec<bool>,
}

enum Stop {
    Violation(String),
    /// A failure matching the signature of an open finding materialised; the rest of the history
    /// is not asserted.
    Known(&'static str, String),
}

fn short(id: &GroupSecretId) -> String {
    hex::encode(&id[..4])
}

fn init_states(n: usize, rng: &Rng) -> Vec<TestGroupState> {
    match n {
        3 => init_group_state([0, 1, 2], rng).into(),
        4 => init_group_state([0, 1, 2, 3], rng).into(),
        5 => init_group_state([0, 1, 2, 3, 4], rng).into(),
        _ => init_group_state([0, 1, 2, 3, 4, 5], rng).into(),
    }
}

fn secret_ids(y: &TestGroupState) -> BTreeSet<GroupSecretId> {
    y.secrets.ids().cloned().collect()
}

impl World {
    fn new(n: usize, seed: u64) -> World {
        let mut bytes = [0u8; 32];
        for (i, chunk) in bytes.chunks_mut(8).enumerate() {
            chunk.copy_from_slice(&seed.wrapping_add(i as u64).wrapping_mul(0x9E37_79B9_7F4A_7C15).to_le_bytes());
        }
        let rng = Rng::from_seed(bytes);
        let states = init_states(n, &rng).into_iter().map(Some).collect();
        World {
            n,
            rng,
            states,
            msgs: Vec::new(),
            delivered: vec![BTreeSet::new(); n],
            outputs: vec![BTreeMap::new(); n],
            ever_member: BTreeSet::new(),
            add_of: BTreeMap::new(),
            secret_gen: BTreeMap::new(),
            sends: 0,
            labels: BTreeSet::new(),
            tainted: vec![false; n],
        }
    }

    fn state(&self, p: usize) -> &TestGroupState {
        self.states[p].as_ref().expect("state present")
    }

    // ---- reference model -------------------------------------------------------------------

    /// Control messages peer `p` has processed (delivered in causal order, or own).
    fn processed_controls(&self, p: usize) -> BTreeSet<usize> {
        self.delivered[p].iter().cloned().filter(|i| self.msgs[*i].is_control()).collect()
    }

    /// Membership over a set of control messages: (initial ∪ added) \ removed. Ids are added at most
    /// once and removal requires the add in the remover's past, so the result is order-free.
    fn membership(&self, past: &BTreeSet<usize>) -> BTreeSet<usize> {
        let mut members = BTreeSet::new();
        for i in past {
            match &self.msgs[*i].kind {
                Kind::Create { members: m } => members.extend(m.iter().cloned()),
                Kind::Add { who } => {
                    members.insert(*who);
                }
                _ => {}
            }
        }
        for i in past {
            if let Kind::Remove { who } = &self.msgs[*i].kind {
                members.remove(who);
            }
        }
        members
    }

    fn view(&self, p: usize) -> BTreeSet<usize> {
        self.membership(&self.processed_controls(p))
    }

    /// Has `p` joined (processed the create naming it / the add of it) and not learned of its removal?
    fn active(&self, p: usize) -> bool {
        let past = self.processed_controls(p);
        let joined = past.iter().any(|i| match &self.msgs[*i].kind {
            Kind::Create { members } => members.contains(&p),
            Kind::Add { who } => *who == p,
            _ => false,
        });
        joined && !self.knows_removed(p)
    }

    fn knows_removed(&self, p: usize) -> bool {
        self.delivered[p]
            .iter()
            .any(|i| matches!(&self.msgs[*i].kind, Kind::Remove { who } if *who == p))
    }

    fn ever_removed(&self, p: usize) -> bool {
        self.msgs.iter().any(|m| matches!(&m.kind, Kind::Remove { who } if *who == p))
    }

    fn actives(&self) -> Vec<usize> {
        (0..self.n).filter(|p| self.active(*p)).collect()
    }

    /// Signature of K-C35 for "peer r lacks secret K": `r` is not the generator, no add of `r` is in
    /// the generator's past (r was no direct recipient), and *every* welcome `r` got could not
    /// carry `K`: the add is concurrent with the generation, or the generation precedes it and the
    /// adder itself lacked `K` (by the same rule, judged over the adds in that add's past). With a
    /// single add per peer this is the chain rule; with several adds (welcome bundles are merged)
    /// one welcome carrying `K` is enough for `r` to hold it.
    fn concurrent_with_add(&self, r: usize, secret: &GroupSecretId) -> bool {
        let Some(&g) = self.secret_gen.get(secret) else {
            return false;
        };
        self.lacks_by_welcome(r, g, None)
    }

    fn lacks_by_welcome(&self, r: usize, g: usize, horizon: Option<usize>) -> bool {
        if self.msgs[g].sender == r {
            return false;
        }
        let all: Vec<usize> = self.add_of.get(&r).cloned().unwrap_or_default();
        let adds: Vec<usize> = match horizon {
            // What the adder had been welcomed with when it published add `h`.
            Some(h) => all.iter().cloned().filter(|a| self.msgs[h].past.contains(a)).collect(),
            // The welcomes `r` has been handed so far (all of them at quiescence).
            None => {
                let got: Vec<usize> = all.iter().cloned().filter(|a| self.delivered[r].contains(a)).collect();
                if got.is_empty() { all.clone() } else { got }
            }
        };
        if all.is_empty() {
            // Initial member: was in the creator's view from the start.
            return false;
        }
        adds.iter().all(|a| {
            if self.msgs[g].past.contains(a) {
                // add(r) happened before the generation: r was a direct recipient.
                return false;
            }
            if self.msgs[*a].past.contains(&g) {
                // Generation happened before this add(r): r depends on this adder's bundle.
                return self.lacks_by_welcome(self.msgs[*a].sender, g, Some(*a));
            }
            true // concurrent
        })
    }

    /// Signature of K-C35b for "the recipient set of secret K was wrong".
    fn tainted_generator(&self, secret: &GroupSecretId) -> bool {
        self.secret_gen.get(secret).map(|g| self.msgs[*g].sender_tainted).unwrap_or(false)
    }

    /// Which open-finding signature (if any) explains that `r` lacks `secret`?
    fn attributable(&self, r: usize, secret: &GroupSecretId) -> Option<&'static str> {
        if self.concurrent_with_add(r, secret) {
            Some(KEY)
        } else if self.tainted_generator(secret) {
            Some(KEY_B)
        } else {
            // The bundle r got at its welcome came from an adder lacking the secret for one of
            // the reasons above.
            let mut todo = vec![r];
            let mut seen = BTreeSet::new();
            while let Some(r) = todo.pop() {
                for a in self.add_of.get(&r).cloned().unwrap_or_default() {
                    let adder = self.msgs[a].sender;
                    if self.concurrent_with_add(adder, secret) {
                        return Some(KEY);
                    }
                    if seen.insert(adder) {
                        todo.push(adder);
                    }
                }
            }
            None
        }
    }

    // ---- publishing --------------------------------------------------------------------------

    fn publish(&mut self, sender: usize, msg: Msg, kind: Kind, before: &BTreeSet<GroupSecretId>) -> usize {
        let index = self.msgs.len();
        let mut past = self.processed_controls(sender);
        let control = !matches!(kind, Kind::Send { .. });
        if control {
            past.insert(index);
        }
        let after = secret_ids(self.state(sender));
        let generated = after.difference(before).next().cloned();
        if let Some(id) = generated {
            self.secret_gen.insert(id, index);
        }
        if let Kind::Add { who } = &kind {
            self.add_of.entry(*who).or_default().push(index);
        }
        self.msgs.push(Published {
            msg,
            sender,
            kind,
            past,
            generated,
            sender_tainted: self.tainted[sender],
        });
        self.delivered[sender].insert(index);
        index
    }

    fn act<F>(&mut self, by: usize, what: &str, kind: Kind, f: F) -> Result<(), Stop>
    where
        F: FnOnce(TestGroupState, &Rng) -> Result<(TestGroupState, Msg), String>,
    {
        let y = self.states[by].take().expect("state present");
        let before = secret_ids(&y);
        let backup = y.clone();
        let rng = &self.rng;
        let result = catch_unwind(AssertUnwindSafe(|| f(y, rng)));
        match result {
            Ok(Ok((y, msg))) => {
                self.states[by] = Some(y);
                let expect_secret = matches!(kind, Kind::Create { .. } | Kind::Remove { .. } | Kind::Update);
                let index = self.publish(by, msg, kind, &before);
                if expect_secret && self.msgs[index].generated.is_none() {
                    return Err(Stop::Violation(format!(
                        "{what} by member {by} did not put a new secret into its own bundle"
                    )));
                }
                Ok(())
            }
            Ok(Err(e)) => {
                self.states[by] = Some(backup);
                Err(Stop::Violation(format!("{what} by active member {by} failed: {e}")))
            }
            Err(_) => {
                self.states[by] = Some(backup);
                Err(Stop::Violation(format!("{what} by active member {by} panicked")))
            }
        }
    }

    // ---- delivery ----------------------------------------------------------------------------

    fn deliverable(&self, p: usize) -> Vec<usize> {
        (0..self.msgs.len())
            .filter(|i| !self.delivered[p].contains(i))
            .filter(|i| {
                let m = &self.msgs[*i];
                m.past.iter().all(|d| d == i || self.delivered[p].contains(d))
            })
            .collect()
    }

    fn deliver(&mut self, p: usize, i: usize) -> Result<(), Stop> {
        let y = self.states[p].take().expect("state present");
        let backup = y.clone();
        let msg = self.msgs[i].msg.clone();
        // K-C35b taint: the welcome replaces p's membership state with the adder's snapshot; any
        // add/remove p has already been handed that the adder did not know is forgotten.
        if matches!(&self.msgs[i].kind, Kind::Add { who } if *who == p) {
            let lost = self.delivered[p].iter().any(|j| {
                matches!(self.msgs[*j].kind, Kind::Add { .. } | Kind::Remove { .. }) && !self.msgs[i].past.contains(j)
            });
            if lost || self.msgs[i].sender_tainted {
                self.tainted[p] = true;
            }
        }
        self.delivered[p].insert(i);
        let result = catch_unwind(AssertUnwindSafe(|| Group::receive(y, &msg)));
        let tolerated = self.knows_removed(p);
        match result {
            Ok(Ok((y, outputs))) => {
                self.states[p] = Some(y);
                for out in outputs {
                    if let GroupOutput::Application { plaintext } = out {
                        *self.outputs[p].entry(plaintext).or_default() += 1;
                    }
                }
                Ok(())
            }
            Ok(Err(err)) => {
                self.states[p] = Some(backup);
                if tolerated {
                    self.labels.insert("removed_peer_receive_error");
                    return Ok(());
                }
                let text = err.to_string();
                if let GroupError::UnknownGroupSecret(_) = err {
                    // Which queued message made it fail is not reported: consider the secret of
                    // every send handed to this peer that it cannot decrypt.
                    let lacking: Vec<GroupSecretId> = self.delivered[p]
                        .iter()
                        .filter_map(|j| match &self.msgs[*j].kind {
                            Kind::Send { secret, .. } if !self.state(p).secrets.contains(secret) => Some(*secret),
                            _ => None,
                        })
                        .collect();
                    if let Some((key, secret)) = lacking.iter().find_map(|k| self.attributable(p, k).map(|key| (key, *k))) {
                        return Err(Stop::Known(
                            key,
                            format!(
                                "peer {p} cannot decrypt when handed message {i}: it lacks secret {} (generated by message {})",
                                short(&secret),
                                self.secret_gen.get(&secret).copied().unwrap_or(usize::MAX)
                            ),
                        ));
                    }
                }
                Err(Stop::Violation(format!(
                    "receive of message {i} ({:?} by {}) failed at peer {p} which was not removed: {text}",
                    self.msgs[i].kind, self.msgs[i].sender
                )))
            }
            Err(_) => {
                self.states[p] = Some(backup);
                if tolerated {
                    self.labels.insert("removed_peer_receive_panic");
                    return Ok(());
                }
                Err(Stop::Violation(format!("receive of message {i} panicked at peer {p}")))
            }
        }
    }

    fn flush(&mut self, keys: &[Vec<u16>]) -> Result<(), Stop> {
        for p in 0..self.n {
            loop {
                let ready = self.deliverable(p);
                let Some(&next) = ready
                    .iter()
                    .min_by_key(|i| (keys.get(p).and_then(|k| k.get(**i)).copied().unwrap_or(0), **i))
                else {
                    break;
                };
                self.deliver(p, next)?;
            }
            if self.delivered[p].len() != self.msgs.len() {
                engine::harness_error("C35: causal flush left undeliverable messages (harness bug)");
            }
        }
        Ok(())
    }

    // ---- steps -------------------------------------------------------------------------------

    fn step(&mut self, step: &Step) -> Result<(), Stop> {
        match step {
            Step::Add { by, who } => {
                let actives = self.actives();
                let fresh: Vec<usize> = (0..self.n).filter(|p| !self.ever_member.contains(p)).collect();
                if actives.is_empty() || fresh.is_empty() {
                    return Ok(());
                }
                let by = actives[idx(*by, actives.len())];
                let who = fresh[idx(*who, fresh.len())];
                self.ever_member.insert(who);
                self.act(by, "add", Kind::Add { who }, |y, rng| {
                    Group::add(y, who, rng).map_err(|e| e.to_string())
                })
            }
            Step::AddAgain { by, who } => {
                let actives = self.actives();
                if actives.is_empty() {
                    return Ok(());
                }
                let by = actives[idx(*by, actives.len())];
                let view = self.view(by);
                let again: Vec<usize> = (0..self.n)
                    .filter(|p| *p != by && self.add_of.contains_key(p) && !self.ever_removed(*p) && !view.contains(p))
                    .collect();
                if again.is_empty() {
                    return Ok(());
                }
                let who = again[idx(*who, again.len())];
                self.labels.insert("peer_added_twice_concurrently");
                self.act(by, "add", Kind::Add { who }, |y, rng| {
                    Group::add(y, who, rng).map_err(|e| e.to_string())
                })
            }
            Step::Remove { by, who } => {
                let actives = self.actives();
                if actives.is_empty() {
                    return Ok(());
                }
                let by = actives[idx(*by, actives.len())];
                let view: Vec<usize> = self.view(by).into_iter().collect();
                if view.len() < 2 {
                    return Ok(());
                }
                let who = view[idx(*who, view.len())];
                if self.add_of.get(&who).map_or(false, |a| a.len() > 1) {
                    // A peer added twice is never removed: with a removal concurrent to one of its
                    // adds the reference membership would depend on the delivery order.
                    self.labels.insert("remove_of_twice_added_peer_skipped");
                    return Ok(());
                }
                if who == by {
                    self.labels.insert("self_remove");
                }
                self.act(by, "remove", Kind::Remove { who }, |y, rng| {
                    Group::remove(y, who, rng).map_err(|e| e.to_string())
                })
            }
            Step::Update { by } => {
                let actives = self.actives();
                if actives.is_empty() {
                    return Ok(());
                }
                let by = actives[idx(*by, actives.len())];
                self.act(by, "update", Kind::Update, |y, rng| Group::update(y, rng).map_err(|e| e.to_string()))
            }
            Step::Send { by } => {
                let actives = self.actives();
                if actives.is_empty() {
                    return Ok(());
                }
                let by = actives[idx(*by, actives.len())];
                self.send(by)
            }
            Step::Deliver { to, pick, count } => {
                let to = idx(*to, self.n);
                for _ in 0..*count {
                    let ready = self.deliverable(to);
                    if ready.is_empty() {
                        break;
                    }
                    let i = ready[idx(*pick, ready.len())];
                    self.deliver(to, i)?;
                }
                Ok(())
            }
            Step::Sync => self.flush(&[]),
        }
    }

    fn send(&mut self, by: usize) -> Result<(), Stop> {
        self.sends += 1;
        let plaintext = format!("c35 plaintext #{} from {by}", self.sends).into_bytes();
        let Some(secret) = self.state(by).secrets.latest().map(|s| s.id()) else {
            return Err(Stop::Violation(format!("active member {by} holds no secret")));
        };
        let view = self.view(by);
        let pt = plaintext.clone();
        self.act(by, "send", Kind::Send { secret, view }, move |y, rng| {
            Group::send(y, &pt, rng).map_err(|e| e.to_string())
        })?;
        // The message must name the secret that was the sender's latest.
        let last = self.msgs.last().expect("just published");
        match last.msg.content() {
            GroupMessageContent::Application { group_secret_id, .. } if group_secret_id == secret => Ok(()),
            other => Err(Stop::Violation(format!(
                "send by {by} did not use the sender's latest secret {}: {other}",
                short(&secret)
            ))),
        }
    }

    fn plaintext_of(&self, i: usize) -> Vec<u8> {
        // Sends are numbered in publication order.
        let nth = self.msgs[..=i].iter().filter(|m| !m.is_control()).count();
        format!("c35 plaintext #{} from {}", nth, self.msgs[i].sender).into_bytes()
    }
}

// ---------------------------------------------------------------------------------------------
// The case function
// ---------------------------------------------------------------------------------------------

struct Summary {
    nontrivial: bool,
    labels: BTreeSet<&'static str>,
    excluded: bool,
}

fn key_label(key: &str) -> &'static str {
    if key == KEY { "known_k_c35" } else { "known_k_c35b" }
}

fn run_case(case: &Case, open: Open) -> Result<Summary, String> {
    let n = case.n.clamp(3, 6) as usize;
    let mut w = World::new(n, case.seed);

    // Create.
    let creator = idx(case.creator, n);
    let mut initial: BTreeSet<usize> = (0..n).filter(|p| case.initial & (1 << p) != 0).collect();
    initial.insert(creator);
    w.ever_member.extend(initial.iter().cloned());
    let members: Vec<usize> = initial.iter().cloned().collect();
    let outcome = (|| -> Result<(), Stop> {
        w.act(
            creator,
            "create",
            Kind::Create {
                members: initial.clone(),
            },
            |y, rng| Group::create(y, members.clone(), rng).map_err(|e| e.to_string()),
        )?;
        match w.msgs[0].msg.content() {
            GroupMessageContent::Control(ControlMessage::Create { .. }) => {}
            other => return Err(Stop::Violation(format!("create produced {other}"))),
        }
        for step in &case.steps {
            w.step(step)?;
        }
        // Quiescence: everything reaches everybody, per peer in its own causal order.
        w.flush(&case.flush)?;
        Ok(())
    })();

    // Failures matching the signature of an open finding: (key, text).
    let mut known: Vec<(&'static str, String)> = Vec::new();
    match outcome {
        Ok(()) => {}
        Err(Stop::Violation(m)) => return Err(m),
        Err(Stop::Known(key, m)) => {
            if !open.allows(key) {
                return Err(format!("{m} [signature {key}]"));
            }
            let mut labels = w.labels.clone();
            labels.insert(key_label(key));
            labels.insert("known_stopped_early");
            return Ok(Summary {
                nontrivial: false,
                labels,
                excluded: true,
            });
        }
    }

    let all_controls: BTreeSet<usize> = (0..w.msgs.len()).filter(|i| w.msgs[*i].is_control()).collect();
    let current: Vec<usize> = w.membership(&all_controls).into_iter().collect();

    // (1) Decryption of the sends of the history.
    let mut violations: Vec<String> = Vec::new();
    let mut checked_decrypts = 0u32;
    for i in 0..w.msgs.len() {
        let Kind::Send { secret, view } = &w.msgs[i].kind else {
            continue;
        };
        let plaintext = w.plaintext_of(i);
        for r in 0..n {
            let count = w.outputs[r].get(&plaintext).copied().unwrap_or(0);
            if count > 1 {
                violations.push(format!("peer {r} emitted the plaintext of message {i} {count} times"));
            }
            if r == w.msgs[i].sender || !view.contains(&r) || w.ever_removed(r) {
                continue;
            }
            checked_decrypts += 1;
            if count == 0 {
                let text = format!(
                    "member {r} (in the sender's membership at send time) never decrypted message {i} from {} encrypted with secret {}",
                    w.msgs[i].sender,
                    short(secret)
                );
                match w.attributable(r, secret) {
                    Some(key) => known.push((key, text)),
                    None => violations.push(text),
                }
            }
        }
    }
    // Nobody emits a plaintext that was never sent.
    let sent: BTreeSet<Vec<u8>> = (0..w.msgs.len())
        .filter(|i| !w.msgs[*i].is_control())
        .map(|i| w.plaintext_of(i))
        .collect();
    for r in 0..n {
        for p in w.outputs[r].keys() {
            if !sent.contains(p) {
                violations.push(format!("peer {r} emitted a plaintext nobody sent"));
            }
        }
    }

    // (2) Cut-off of removed members.
    let mut cutoff_pairs = 0u32;
    for x in 0..n {
        let removals: Vec<usize> = (0..w.msgs.len())
            .filter(|i| matches!(&w.msgs[*i].kind, Kind::Remove { who } if *who == x))
            .collect();
        if removals.is_empty() {
            continue;
        }
        for (secret, g) in &w.secret_gen {
            let after_removal = removals
                .iter()
                .any(|r| (*r != *g && w.msgs[*g].past.contains(r)) || (*r == *g && w.msgs[*g].sender != x));
            if !after_removal {
                continue;
            }
            cutoff_pairs += 1;
            if w.state(x).secrets.contains(secret) {
                let text = format!(
                    "removed peer {x} holds secret {} generated by message {g} ({:?} by {}) after its removal",
                    short(secret),
                    w.msgs[*g].kind,
                    w.msgs[*g].sender
                );
                if w.tainted_generator(secret) {
                    known.push((KEY_B, text));
                } else {
                    violations.push(text);
                }
            }
        }
    }

    // (3) Agreement on the latest secret among current members.
    let mut latest: BTreeMap<usize, GroupSecretId> = BTreeMap::new();
    for r in &current {
        match w.state(*r).secrets.latest() {
            Some(s) => {
                latest.insert(*r, s.id());
            }
            None => violations.push(format!("current member {r} holds no secret at quiescence")),
        }
    }
    let distinct: BTreeSet<GroupSecretId> = latest.values().cloned().collect();
    if distinct.len() > 1 {
        let mut explained: Option<&'static str> = None;
        let mut missing_any = false;
        let mut all_attributable = true;
        for r in &current {
            for l in &distinct {
                if !w.state(*r).secrets.contains(l) {
                    missing_any = true;
                    match w.attributable(*r, l) {
                        Some(key) => explained = Some(explained.map(|e| if e == KEY { e } else { key }).unwrap_or(key)),
                        None => all_attributable = false,
                    }
                }
            }
        }
        let text = format!(
            "current members disagree on the latest secret: {:?}",
            latest.iter().map(|(r, l)| (*r, short(l))).collect::<Vec<_>>()
        );
        match (missing_any && all_attributable, explained) {
            (true, Some(key)) => known.push((key, text)),
            _ => violations.push(text),
        }
    }

    if let Some(v) = violations.first() {
        return Err(format!(
            "{v}{}",
            if violations.len() > 1 {
                format!(" (+{} more)", violations.len() - 1)
            } else {
                String::new()
            }
        ));
    }
    if let Some((key, text)) = known.iter().find(|(key, _)| !open.allows(key)) {
        return Err(format!("{text} [signature {key}]"));
    }

    // (4) Final round: every current member encrypts once more with its latest secret. Skipped when
    // a known failure was seen already (members are known to hold different bundles then).
    if known.is_empty() {
        'round: for s in &current {
            if let Err(stop) = w.send(*s) {
                match stop {
                    Stop::Violation(m) | Stop::Known(_, m) => return Err(format!("final round: {m}")),
                }
            }
            let i = w.msgs.len() - 1;
            let plaintext = w.plaintext_of(i);
            for r in &current {
                if r == s {
                    continue;
                }
                match w.deliver(*r, i) {
                    Ok(()) => {}
                    Err(Stop::Violation(m)) => return Err(format!("final round: {m}")),
                    Err(Stop::Known(key, m)) => {
                        if !open.allows(key) {
                            return Err(format!("final round: {m} [signature {key}]"));
                        }
                        known.push((key, m));
                        break 'round;
                    }
                }
                let count = w.outputs[*r].get(&plaintext).copied().unwrap_or(0);
                if count != 1 {
                    return Err(format!(
                        "final round: current member {r} emitted the message of current member {s} {count} times \
                         (receiver: is_welcomed={}, {} secrets)",
                        w.state(*r).is_welcomed,
                        w.state(*r).secrets.len()
                    ));
                }
            }
        }
    }

    // Classification.
    let mut labels = w.labels.clone();
    let controls: Vec<usize> = all_controls.iter().cloned().collect();
    let concurrent = controls.iter().any(|a| {
        controls
            .iter()
            .any(|b| a < b && !w.msgs[*b].past.contains(a) && !w.msgs[*a].past.contains(b))
    });
    let add_vs_gen = w.add_of.values().flatten().any(|a| {
        w.secret_gen
            .values()
            .any(|g| g != a && !w.msgs[*g].past.contains(a) && !w.msgs[*a].past.contains(g))
    });
    let has = |f: &dyn Fn(&Kind) -> bool| w.msgs.iter().any(|m| f(&m.kind));
    // NT rule: a removal, a later secret-generating operation that saw it, and a send that saw that.
    let nontrivial = (0..w.msgs.len()).any(|r| {
        matches!(w.msgs[r].kind, Kind::Remove { .. })
            && w.secret_gen.values().any(|g| {
                *g != r
                    && w.msgs[*g].past.contains(&r)
                    && w.msgs.iter().any(|s| matches!(s.kind, Kind::Send { .. }) && s.past.contains(g))
            })
    });
    labels.insert(if concurrent { "concurrent_controls" } else { "sequential" });
    if add_vs_gen {
        labels.insert("add_concurrent_with_rotation");
    }
    if w.tainted.iter().any(|t| *t) {
        labels.insert("welcome_overwrote_concurrent_membership_op");
    }
    if has(&|k| matches!(k, Kind::Add { .. })) {
        labels.insert("has_add");
    }
    if has(&|k| matches!(k, Kind::Remove { .. })) {
        labels.insert("has_remove");
    }
    if has(&|k| matches!(k, Kind::Update)) {
        labels.insert("has_update");
    }
    if cutoff_pairs > 0 {
        labels.insert("cutoff_checked");
    }
    if checked_decrypts > 0 {
        labels.insert("decrypt_checked");
    }
    if current.len() >= 3 {
        labels.insert("final_members_ge3");
    }
    if nontrivial {
        labels.insert("remove_then_rotation_then_send");
    }
    for (key, _) in &known {
        labels.insert(key_label(key));
    }
    Ok(Summary {
        nontrivial,
        labels,
        excluded: !known.is_empty(),
    })
}

fn check(case: &Case, open: Open) -> CaseResult {
    let summary = run_case(case, open)?;
    let mut ok = CaseOk::nontrivial(summary.nontrivial);
    for l in summary.labels {
        ok = ok.label(l);
    }
    if summary.excluded {
        ok = ok.excluded();
    }
    Ok(ok)
}

/// K-C35 probe – the lead's scenario: add(0→2) ‖ update(1), then a message from 1.
fn probe_a() -> Case {
    Case {
        n: 3,
        seed: 1,
        creator: 0,
        initial: 0b011,
        steps: vec![
            Step::Sync,
            // Active members are [0, 1]; never-added peers are [2].
            Step::Add { by: 0, who: 0 },
            Step::Update { by: 40000 },
            Step::Sync,
            // Active members are [0, 1, 2]: index 1 of 3.
            Step::Send { by: 30000 },
        ],
        flush: vec![],
    }
}

/// K-C35b probe: remove(2) by 0 ‖ add(3) by 1; peer 3 is handed the removal before its welcome;
/// after everything is delivered peer 3 rotates the key – and addresses peer 2 again.
fn probe_b() -> Case {
    Case {
        n: 4,
        seed: 2,
        creator: 0,
        initial: 0b0111,
        steps: vec![
            Step::Sync,
            // Active [0, 1, 2]; view of 0 is [0, 1, 2]: index 2 of 3.
            Step::Remove { by: 0, who: 50000 },
            // Active [0, 1, 2] (peer 2 does not know yet): index 1 of 3; fresh peers [3].
            Step::Add { by: 30000, who: 0 },
            // Peer 3 (index 3 of 4) gets remove(2) first, then add(3).
            Step::Deliver {
                to: 60000,
                pick: 0,
                count: 2,
            },
            Step::Sync,
            // Active [0, 1, 3]: index 2 of 3.
            Step::Update { by: 60000 },
        ],
        flush: vec![],
    }
}

pub fn run(mut ctx: Ctx) -> ! {
    let open = Open {
        a: ctx.is_open(KEY),
        b: ctx.is_open(KEY_B),
    };
    ctx.assume(
        "peer ids are added to the group at most once (no re-add, no concurrent double add): the \
         repository's TestDgm is a plain set, not a CRDT, and would diverge for reasons unrelated to the property",
    );
    ctx.assume(
        "messages are handed to every peer in a causal order computed by the harness (random linear \
         extension of happens-before); the internal test orderer therefore never has to hold a message back",
    );
    ctx.assume(
        "group secret timestamps come from the wall clock inside the code under test; the oracle only \
         compares secret ids and sets, never timestamps",
    );
    ctx.assume("removed peers keep receiving all broadcast traffic; errors they get when processing it are tolerated");

    let max_steps = ctx.pick(20usize, 30usize);
    let part = Part::new(
        "histories",
        "3-6 seeded members; create + 3..=20(30) steps of add/remove/update/send by active members interleaved with \
         partial per-peer causal deliveries and full syncs, final per-peer causal flush and a final send round. \
         Non-trivial: a remove, a later key rotation that saw it and a send that saw the rotation.",
        3000,
        100_000,
    )
    .min_nontrivial(0.10)
    .shrink_iters(400);
    ctx.run_prop(part, || case_strategy(max_steps), |case| check(case, open));

    // Probes for the open findings: each is run with only "its" finding closed and must fail with
    // that signature.
    for (key, case, strict) in [
        (KEY, probe_a(), Open { a: false, b: true }),
        (KEY_B, probe_b(), Open { a: true, b: false }),
    ] {
        if !ctx.is_open(key) {
            continue;
        }
        match run_case(&case, strict) {
            Err(msg) if msg.contains(&format!("[signature {key}]")) => ctx.known_finding(key, true, &msg),
            Err(msg) => ctx.known_finding(key, false, &format!("probe failed differently: {msg}")),
            Ok(_) => ctx.known_finding(key, false, "probe passed"),
        }
    }
    ctx.finish()
}
