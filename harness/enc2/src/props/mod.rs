pub mod c35;
