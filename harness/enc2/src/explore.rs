use p2panda_encryption::crypto::Rng;
use p2panda_encryption::test_utils::data_scheme::network::Network;

pub fn run() {
    let rng = Rng::from_seed([1; 32]);
    let mut net = Network::new([0, 1, 2], rng);
    net.create(0, vec![0, 1]);
    println!("after create: {:?}", net.process());
    net.add(0, 2);
    println!("after add: {:?}", net.process());
    for m in 0..3 {
        let y = net.members.get(&m).unwrap();
        println!("member {m}: welcomed={} view={:?} secrets={}", y.is_welcomed, net.members(&m), y.secrets.len());
    }
    net.send(0, b"hello");
    println!("send from 0: {:?}", net.process());
    let r = std::panic::catch_unwind(std::panic::AssertUnwindSafe(|| {
        net.send(2, b"from 2");
        net.process()
    }));
    println!("send from 2: {:?}", r.map_err(|_| "panic"));
}
