//! C39 Spaces message processing is idempotent and total.
//!
//! Part `histories`: 2-4 seeded `TestPeer`s exchange their key bundles, then run a generated
//! history of local actions (create space / group, add / remove members and sub-groups, publish,
//! rotate key bundle message, repair) interleaved with partial deliveries. Every forged message is
//! handed to every other peer exactly once in a causal order (declared `dependencies()` + the
//! author's log order) – the *first* processing – and, when that returned `Ok`, processed again at
//! generated later positions and once more in a final sweep – the *second* processing.
//!
//! Oracle for the second processing (from the property statement): it does not panic, it returns
//! either `Ok` with an empty event list or an error, and an order-insensitive digest of the peer's
//! persisted state is unchanged: operations / heads / ignore set of the shared auth graph, sorted
//! members of every group, and per space its group id, sorted members, auth operations, welcomed
//! flag, sorted secret ids, latest secret id, orderer heads, the orderer's bookkeeping (queue of
//! unprocessed messages, stored messages, operation graph) and the 2SM ratchet states. Finally a
//! *canonicalised* dump of the persisted auth and space states (CBOR with every map and array
//! sorted recursively, so hash-map iteration order cannot matter) must be unchanged.
//!
//! Part `rotations`: the same as `histories`, but members publish further key bundle messages that
//! carry *distinct* bundles (new pre-key, as after a pre-key rotation; built from seeded randomness
//! with long lifetimes, nothing depends on the wall clock advancing); steps are mostly key bundle
//! messages, deliveries and re-deliveries, in particular of an older key bundle after a newer one
//! of the same author. The digest includes the persisted key registry (stored bundles per member).
//!
//! Part `messages`: on top of a small fixed world every `SpacesArgs` variant is forged with
//! generated field values (known / unknown space and group ids, every auth action incl. Promote /
//! Demote, dependencies taken from what the receiver already processed, replayed direct messages,
//! key bundles with a foreign identity key, a broken signature or an expired lifetime), signed by a
//! member or by a stranger, and processed by a generated receiver inside `catch_unwind`. Oracle: no
//! panic; a second processing obeys the rule above.

use std::borrow::Borrow;
use std::collections::{BTreeMap, BTreeSet};
use std::panic::{AssertUnwindSafe, catch_unwind};
use std::time::{SystemTime, UNIX_EPOCH};

use engine::proptest::prelude::*;
use engine::{CaseOk, CaseResult, Ctx, Part, idx};
use p2panda_auth::Access;
use p2panda_auth::group::{GroupAction, GroupMember};
use p2panda_auth::traits::Operation as AuthOperation;
use p2panda_core::{Hash, Header, SigningKey, VerifyingKey};
use p2panda_encryption::Rng;
use p2panda_encryption::crypto::x25519::SecretKey;
use p2panda_encryption::key_bundle::{Lifetime, LongTermKeyBundle, PreKey};
use p2panda_spaces::test_utils::{TestForge, TestOperation, TestPeer, TestSpacesStore};
use p2panda_spaces::{AuthMessage, Config, Credentials, Event, Forge, SpacesArgs, SpacesStoreState};
use p2panda_store::Transaction;
use p2panda_store::groups::GroupsStore;
use p2panda_store::key_registry::KeyRegistryStore;
use p2panda_store::spaces::SpacesStore;
use serde::{Deserialize, Serialize};

type Args = SpacesArgs<()>;
type AuthState = p2panda_auth::group::GroupCrdtState<VerifyingKey, Hash, AuthMessage<()>, ()>;

const GLOBAL_GROUPS_CONTEXT_ID: &[u8] = b"global-groups-context";

// ---------------------------------------------------------------------------------------------
// World
// ---------------------------------------------------------------------------------------------

struct Peer {
    tp: TestPeer,
    sstore: TestSpacesStore,
}

struct Rec {
    op: TestOperation,
    /// Index of the authoring peer (`usize::MAX` for a stranger).
    author: usize,
    deps: Vec<Hash>,
    /// Previous message of the same author in its log.
    prev: Option<usize>,
}

#[derive(Clone, Debug, PartialEq, Eq)]
struct Digest {
    asserted: BTreeMap<String, String>,
    full: BTreeMap<String, String>,
}

struct World {
    rt: tokio::runtime::Runtime,
    peers: Vec<Peer>,
    log: Vec<Rec>,
    index: BTreeMap<Hash, usize>,
    /// Per peer: message -> did the first processing return Ok?
    first: Vec<BTreeMap<usize, bool>>,
    /// Per peer: number of `process` calls so far when the message was first processed.
    first_at: Vec<BTreeMap<usize, usize>>,
    calls: Vec<usize>,
    last_of_author: Vec<Option<usize>>,
    spaces: Vec<Hash>,
    space_creator: Vec<usize>,
    groups: Vec<VerifyingKey>,
    group_creator: Vec<usize>,
    labels: BTreeSet<&'static str>,
    redeliveries: u32,
    redeliveries_nontrivial: u32,
    /// Re-deliveries of a key bundle message to a peer that had already processed a *newer*,
    /// distinct key bundle of the same author (pre-key rotation in between).
    older_bundle_after_newer: u32,
    /// Source of the pre-keys of `Step::FreshKeyBundle`.
    fresh_rng: Rng,
    /// Open known findings (tolerated when listed in known_findings.txt).
    open: Open,
    /// A failure matching an open finding was seen in this case.
    excluded: bool,
}

/// K-C39e: processing a KeyBundle message again emits `Event::KeyBundle` again.
const KEY_E: &str = "K-C39e";
/// K-C39f: forged auth content (group unknown at the claimed dependencies / auth dependencies
/// missing from the – global or space-local – auth graph) panics inside p2panda-auth.
const KEY_F: &str = "K-C39f";
const AUTH_PANICS: [&str; 3] = [
    "group already present in states map",
    "all processed operations exist",
    "all operations present in map",
];

#[derive(Clone, Copy, Debug, Default)]
pub struct Open {
    pub e: bool,
    pub f: bool,
}

fn seed32(seed: u64, salt: u64) -> [u8; 32] {
    let mut bytes = [0u8; 32];
    let mut x = seed ^ salt.wrapping_mul(0xD6E8_FEB8_6659_FD93);
    for chunk in bytes.chunks_mut(8) {
        x = x.wrapping_add(0x9E37_79B9_7F4A_7C15);
        let mut z = x;
        z = (z ^ (z >> 30)).wrapping_mul(0xBF58_476D_1CE4_E5B9);
        z = (z ^ (z >> 27)).wrapping_mul(0x94D0_49BB_1331_11EB);
        z ^= z >> 31;
        chunk.copy_from_slice(&z.to_le_bytes());
    }
    bytes
}

fn h8(h: &Hash) -> String {
    h.to_hex()[..10].to_string()
}

fn k8(k: &VerifyingKey) -> String {
    k.to_hex()[..10].to_string()
}

fn access_of(raw: u8) -> Access<()> {
    match raw % 4 {
        0 => Access::pull(),
        1 => Access::read(),
        2 => Access::write(),
        _ => Access::manage(),
    }
}

/// Canonical rendering of a CBOR value: maps and arrays are sorted by the rendering of their
/// entries, so two encodings of the same state taken from differently ordered hash maps agree.
fn canon(v: &ciborium::Value) -> String {
    use ciborium::Value as V;
    match v {
        V::Array(items) => {
            let mut parts: Vec<String> = items.iter().map(canon).collect();
            parts.sort();
            format!("[{}]", parts.join(","))
        }
        V::Map(entries) => {
            let mut parts: Vec<String> = entries.iter().map(|(k, v)| format!("{}:{}", canon(k), canon(v))).collect();
            parts.sort();
            format!("{{{}}}", parts.join(","))
        }
        V::Bytes(b) => format!("h'{}'", hex::encode(b)),
        V::Tag(t, inner) => format!("{t}({})", canon(inner)),
        other => format!("{other:?}"),
    }
}

fn canon_hash<T: Serialize>(value: &T) -> String {
    let mut bytes = Vec::new();
    if ciborium::ser::into_writer(value, &mut bytes).is_err() {
        return "unencodable".into();
    }
    match ciborium::de::from_reader::<ciborium::Value, _>(&bytes[..]) {
        Ok(v) => Hash::digest(canon(&v).as_bytes()).to_hex(),
        Err(_) => "undecodable".into(),
    }
}

/// Top-level fields of a struct's CBOR form: name -> digest of the canonical rendering (plus the
/// number of entries for arrays and maps).
fn cbor_fields<T: Serialize>(value: &T) -> Vec<(String, String)> {
    let mut bytes = Vec::new();
    if ciborium::ser::into_writer(value, &mut bytes).is_err() {
        return vec![];
    }
    let Ok(ciborium::Value::Map(entries)) = ciborium::de::from_reader::<ciborium::Value, _>(&bytes[..]) else {
        return vec![];
    };
    entries
        .iter()
        .filter_map(|(k, v)| {
            let name = k.as_text()?.to_string();
            let size = match v {
                ciborium::Value::Array(a) => format!("{} entries ", a.len()),
                ciborium::Value::Map(m) => format!("{} entries ", m.len()),
                _ => String::new(),
            };
            Some((name, format!("{size}#{}", &Hash::digest(canon(v).as_bytes()).to_hex()[..10])))
        })
        .collect()
}

/// Like `cbor_fields`, one level deeper: for every top-level field that is a map, one entry per
/// map key (`field.key` -> number of entries of the value + digest of its canonical rendering).
fn cbor_entries<T: Serialize>(value: &T) -> Vec<(String, String)> {
    let mut bytes = Vec::new();
    if ciborium::ser::into_writer(value, &mut bytes).is_err() {
        return vec![("unencodable".into(), String::new())];
    }
    let Ok(ciborium::Value::Map(fields)) = ciborium::de::from_reader::<ciborium::Value, _>(&bytes[..]) else {
        return vec![("undecodable".into(), String::new())];
    };
    let render = |v: &ciborium::Value| {
        let size = match v {
            ciborium::Value::Array(a) => format!("{} entries ", a.len()),
            ciborium::Value::Map(m) => format!("{} entries ", m.len()),
            _ => String::new(),
        };
        format!("{size}#{}", &Hash::digest(canon(v).as_bytes()).to_hex()[..10])
    };
    let mut out = Vec::new();
    for (k, v) in &fields {
        let name = k.as_text().map(|s| s.to_string()).unwrap_or_else(|| canon(k));
        out.push((name.clone(), render(v)));
        if let ciborium::Value::Map(entries) = v {
            for (ek, ev) in entries {
                let ek = canon(ek);
                let short: String = ek.chars().filter(|c| c.is_ascii_alphanumeric()).take(12).collect();
                out.push((format!("{name}.{short}"), render(ev)));
            }
        }
    }
    out
}

fn join_sorted(mut items: Vec<String>) -> String {
    items.sort();
    items.join(" ")
}

enum Outcome {
    Ok(Vec<Event<()>>),
    Err(String),
    Panic(String),
}

impl World {
    fn new(n: usize, seed: u64, open: Open) -> World {
        let rt = tokio::runtime::Builder::new_current_thread()
            .enable_all()
            .build()
            .expect("runtime");
        let mut peers = Vec::new();
        for i in 0..n {
            let rng = Rng::from_seed(seed32(seed, i as u64 + 1));
            let credentials = Credentials::from_rng(&rng).expect("credentials");
            let tp = rt.block_on(TestPeer::new_with_config(i as u8, credentials, &Config::default(), rng));
            let sstore = TestSpacesStore::new(tp.store.clone());
            peers.push(Peer { tp, sstore });
        }
        World {
            rt,
            peers,
            log: Vec::new(),
            index: BTreeMap::new(),
            first: vec![BTreeMap::new(); n],
            first_at: vec![BTreeMap::new(); n],
            calls: vec![0; n],
            last_of_author: vec![None; n],
            spaces: Vec::new(),
            space_creator: Vec::new(),
            groups: Vec::new(),
            group_creator: Vec::new(),
            labels: BTreeSet::new(),
            redeliveries: 0,
            redeliveries_nontrivial: 0,
            older_bundle_after_newer: 0,
            fresh_rng: Rng::from_seed(seed32(seed, 0xF4E5)),
            open,
            excluded: false,
        }
    }

    fn n(&self) -> usize {
        self.peers.len()
    }

    fn id_of(&self, p: usize) -> VerifyingKey {
        self.peers[p].tp.manager.id()
    }

    // ---- state digest ------------------------------------------------------------------------

    fn digest(&self, p: usize) -> Result<Digest, String> {
        let peer = &self.peers[p];
        self.rt.block_on(async {
            let mut asserted = BTreeMap::new();
            let mut full = BTreeMap::new();

            let permit = peer.sstore.begin().await.map_err(|e| format!("begin: {e}"))?;
            let groups: Option<AuthState> = <TestSpacesStore as GroupsStore<AuthMessage<()>, ()>>::get_groups_state_tx(
                &peer.sstore,
                Hash::digest(GLOBAL_GROUPS_CONTEXT_ID),
            )
            .await
            .map_err(|e| format!("groups state: {e}"))?;
            peer.sstore.commit(permit).await.map_err(|e| format!("commit: {e}"))?;
            let groups = groups.unwrap_or_default();
            auth_facets("auth", &groups, &mut asserted);
            full.insert("auth".into(), canon_hash(&groups));

            // Key registry (public key material collected from key bundle messages): per field and
            // per member the number of stored entries and a digest of their canonical rendering
            // (private fields, read through the serialised form).
            let registry = <TestSpacesStore as KeyRegistryStore>::get_key_registry(&peer.sstore)
                .await
                .map_err(|e| format!("key registry: {e}"))?;
            match &registry {
                None => {
                    asserted.insert("keyreg".into(), "none".into());
                }
                Some(registry) => {
                    for (name, value) in cbor_entries(registry) {
                        asserted.insert(format!("keyreg.{name}"), value);
                    }
                    full.insert("keyreg".into(), canon_hash(registry));
                }
            }

            let mut ids = <TestSpacesStore as SpacesStore<SpacesStoreState<()>>>::space_ids(&peer.sstore)
                .await
                .map_err(|e| format!("space ids: {e}"))?;
            ids.sort();
            asserted.insert("spaces".into(), ids.iter().map(h8).collect::<Vec<_>>().join(" "));
            for id in ids {
                let permit = peer.sstore.begin().await.map_err(|e| format!("begin: {e}"))?;
                let y: Option<SpacesStoreState<()>> =
                    <TestSpacesStore as SpacesStore<SpacesStoreState<()>>>::get_space_state_tx(&peer.sstore, &id)
                        .await
                        .map_err(|e| format!("space state: {e}"))?;
                peer.sstore.commit(permit).await.map_err(|e| format!("commit: {e}"))?;
                let Some(y) = y else {
                    continue;
                };
                let key = format!("space.{}", h8(&id));
                asserted.insert(format!("{key}.group"), k8(&y.group_id));
                auth_facets(&format!("{key}.auth"), &y.groups_y, &mut asserted);
                asserted.insert(
                    format!("{key}.members"),
                    join_sorted(
                        y.groups_y
                            .members(y.group_id)
                            .into_iter()
                            .map(|(m, a)| format!("{}={a}", k8(&m)))
                            .collect(),
                    ),
                );
                asserted.insert(format!("{key}.welcomed"), y.is_welcomed.to_string());
                asserted.insert(
                    format!("{key}.secrets"),
                    join_sorted(y.secrets.ids().map(|s| hex::encode(&s[..5])).collect()),
                );
                asserted.insert(
                    format!("{key}.latest"),
                    y.secrets.latest().map(|s| hex::encode(&s.id()[..5])).unwrap_or_default(),
                );
                asserted.insert(
                    format!("{key}.orderer_heads"),
                    join_sorted(y.orderer.heads().iter().map(h8).collect()),
                );
                // Bookkeeping of the space's encryption orderer (private fields, read through
                // their serialised form): not-yet-processed queue, stored messages, operation graph.
                for (field, value) in cbor_fields(&y.orderer) {
                    asserted.insert(format!("{key}.orderer.{field}"), value);
                }
                asserted.insert(format!("{key}.two_party"), canon_hash(&y.two_party));
                full.insert(key, canon_hash(&y));
            }
            Ok(Digest { asserted, full })
        })
    }

    // ---- processing --------------------------------------------------------------------------

    fn process(&mut self, p: usize, op: &TestOperation) -> Outcome {
        self.calls[p] += 1;
        let peer = &self.peers[p];
        let rt = &self.rt;
        let result = catch_unwind(AssertUnwindSafe(|| rt.block_on(peer.tp.manager.process_persisted(op))));
        match result {
            Ok(Ok(events)) => Outcome::Ok(events),
            Ok(Err(e)) => Outcome::Err(e.to_string()),
            Err(e) => Outcome::Panic(
                e.downcast_ref::<&str>()
                    .map(|s| s.to_string())
                    .or_else(|| e.downcast_ref::<String>().cloned())
                    .unwrap_or_else(|| "<non-string panic>".into()),
            ),
        }
    }

    fn persist(&self, p: usize, op: &TestOperation) {
        let _ = self.rt.block_on(self.peers[p].tp.persist_operation(op));
    }

    fn describe(op: &TestOperation) -> String {
        let args: &Args = op.borrow();
        match args {
            SpacesArgs::KeyBundle { .. } => "KeyBundle".into(),
            SpacesArgs::Auth { group_action, .. } => format!(
                "Auth/{}",
                match group_action {
                    GroupAction::Create { .. } => "Create",
                    GroupAction::Add { .. } => "Add",
                    GroupAction::Remove { .. } => "Remove",
                    GroupAction::Promote { .. } => "Promote",
                    GroupAction::Demote { .. } => "Demote",
                }
            ),
            SpacesArgs::SpaceMembership { .. } => "SpaceMembership".into(),
            SpacesArgs::SpaceUpdate { .. } => "SpaceUpdate".into(),
            SpacesArgs::Application { .. } => "Application".into(),
        }
    }

    /// First processing of message `i` at peer `p`.
    fn first_delivery(&mut self, p: usize, i: usize) -> Result<(), String> {
        let op = self.log[i].op.clone();
        self.persist(p, &op);
        let outcome = self.process(p, &op);
        self.first_at[p].insert(i, self.calls[p]);
        if std::env::var("VERIF_C39_TRACE").is_ok() {
            eprintln!(
                "[trace] peer {p} first-processes message {i} ({} by {}): {}",
                Self::describe(&op),
                self.log[i].author,
                match &outcome {
                    Outcome::Ok(ev) => format!("ok, {} events", ev.len()),
                    Outcome::Err(e) => format!("ERR {e}"),
                    Outcome::Panic(m) => format!("PANIC {m}"),
                }
            );
        }
        match outcome {
            Outcome::Ok(_) => {
                self.first[p].insert(i, true);
                Ok(())
            }
            Outcome::Err(e) => {
                if std::env::var("VERIF_C39_ERRS").is_ok() {
                    eprintln!("[first-err] {} at peer {p}: {e}", Self::describe(&op));
                }
                self.labels.insert("first_processing_err");
                self.first[p].insert(i, false);
                Ok(())
            }
            Outcome::Panic(m) => Err(format!(
                "first processing of message {i} ({}) panicked at peer {p}: {m}",
                Self::describe(&op)
            )),
        }
    }

    /// Second (or later) processing of message `i` at peer `p`.
    fn redelivery(&mut self, p: usize, i: usize) -> Result<(), String> {
        let op = self.log[i].op.clone();
        let what = Self::describe(&op);
        let before = self.digest(p)?;
        let in_between = self.calls[p] > self.first_at[p].get(&i).copied().unwrap_or(0);
        let outcome = self.process(p, &op);
        let after = self.digest(p)?;
        self.redeliveries += 1;
        if in_between {
            self.redeliveries_nontrivial += 1;
        }
        let own = self.log[i].author == p;
        let mut diff = Vec::new();
        for (k, v) in &after.asserted {
            match before.asserted.get(k) {
                Some(b) if b == v => {}
                Some(b) => diff.push(format!("{k}: [{b}] -> [{v}]")),
                None => diff.push(format!("{k}: <absent> -> [{v}]")),
            }
        }
        for k in before.asserted.keys() {
            if !after.asserted.contains_key(k) {
                diff.push(format!("{k}: removed"));
            }
        }
        let older_after_newer = self.newer_bundle_processed(p, i);
        if older_after_newer {
            self.older_bundle_after_newer += 1;
            self.labels.insert("older_key_bundle_redelivered_after_newer");
        }
        match outcome {
            Outcome::Panic(m) => {
                return Err(format!("second processing of message {i} ({what}) panicked at peer {p}: {m}"));
            }
            Outcome::Ok(events) => {
                let only_key_bundle_events =
                    what == "KeyBundle" && events.iter().all(|e| matches!(e, Event::KeyBundle { .. }));
                if !events.is_empty() && only_key_bundle_events && self.open.e {
                    self.labels.insert("known_k_c39e");
                    self.excluded = true;
                } else if !events.is_empty() {
                    return Err(format!(
                        "second processing of message {i} ({what}{}) at peer {p} emitted {} further event(s): {:?}",
                        if own { ", own" } else { "" },
                        events.len(),
                        events
                    ) + &(if diff.is_empty() { String::new() } else { format!("; state changed: {}", diff.join("; ")) })
                        + if only_key_bundle_events { " [signature K-C39e]" } else { "" });
                }
            }
            Outcome::Err(_) => {
                self.labels.insert("second_processing_err");
            }
        }
        if !diff.is_empty() {
            return Err(format!(
                "second processing of message {i} ({what}) changed the state of peer {p}: {}",
                diff.join("; ")
            ));
        }
        if before.full != after.full {
            // Everything compared above is derived from the same persisted state, so this can
            // only be a field the facets do not single out.
            self.labels.insert("full_state_dump_changed_on_second_processing");
            if std::env::var("VERIF_C39_RELAX_FULL").is_err() {
                return Err(format!(
                    "second processing of message {i} ({what}) changed the canonicalised dump of the persisted state of peer {p}"
                ));
            }
        }
        match &*what {
            "KeyBundle" => self.labels.insert("redelivered_key_bundle"),
            "SpaceMembership" => self.labels.insert("redelivered_space_membership"),
            "Application" => self.labels.insert("redelivered_application"),
            _ => self.labels.insert("redelivered_auth"),
        };
        Ok(())
    }

    /// Is message `i` a key bundle message and has peer `p` successfully processed a later key
    /// bundle message of the same author that carries a *different* bundle?
    fn newer_bundle_processed(&self, p: usize, i: usize) -> bool {
        let SpacesArgs::KeyBundle { key_bundle: mine } = self.log[i].op.borrow() as &Args else {
            return false;
        };
        (i + 1..self.log.len()).any(|j| {
            self.log[j].author == self.log[i].author
                && self.first[p].get(&j).copied().unwrap_or(false)
                && matches!(self.log[j].op.borrow() as &Args, SpacesArgs::KeyBundle { key_bundle } if key_bundle != mine)
        })
    }

    // ---- message log -------------------------------------------------------------------------

    /// Registers messages forged by a local action of peer `by` (already applied there).
    fn publish(&mut self, by: usize, ops: Vec<TestOperation>, processed_locally: bool) {
        for op in ops {
            let args: &Args = op.borrow();
            let deps = args.dependencies();
            let i = self.log.len();
            self.index.insert(op.hash, i);
            self.log.push(Rec {
                op,
                author: by,
                deps,
                prev: self.last_of_author[by],
            });
            self.last_of_author[by] = Some(i);
            if processed_locally {
                self.first[by].insert(i, true);
                self.first_at[by].insert(i, self.calls[by]);
            }
        }
    }

    fn deliverable(&self, p: usize) -> Vec<usize> {
        (0..self.log.len())
            .filter(|i| !self.first[p].contains_key(i))
            .filter(|i| {
                let rec = &self.log[*i];
                let prev_ok = rec.prev.map(|j| self.first[p].contains_key(&j)).unwrap_or(true);
                // A dependency that failed at this peer keeps its dependants away from it: the
                // manager expects dependency-checked input.
                let deps_ok = rec.deps.iter().all(|d| match self.index.get(d) {
                    Some(j) => self.first[p].get(j).copied().unwrap_or(false),
                    None => false,
                });
                prev_ok && deps_ok
            })
            .collect()
    }

    fn redeliverable(&self, p: usize) -> Vec<usize> {
        self.first[p].iter().filter(|(_, ok)| **ok).map(|(i, _)| *i).collect()
    }

    fn flush(&mut self) -> Result<(), String> {
        loop {
            let mut progress = false;
            for p in 0..self.n() {
                while let Some(&i) = self.deliverable(p).first() {
                    self.first_delivery(p, i)?;
                    progress = true;
                }
            }
            if !progress {
                return Ok(());
            }
        }
    }

    // ---- local actions -----------------------------------------------------------------------

    fn exchange_key_bundles(&mut self) -> Result<(), String> {
        for p in 0..self.n() {
            let manager = self.peers[p].tp.manager.clone();
            let op = self
                .rt
                .block_on(manager.key_bundle_message())
                .map_err(|e| format!("key bundle message: {e}"))?;
            // The author has not *processed* its own bundle message yet.
            self.publish(p, vec![op], false);
        }
        self.flush()
    }

    fn members_from(&self, by: usize, mask: u8, access: u16) -> Vec<(VerifyingKey, Access<()>)> {
        (0..self.n())
            .filter(|p| *p != by && mask & (1 << p) != 0)
            .map(|p| (self.id_of(p), access_of((access >> (2 * p)) as u8)))
            .collect()
    }

    /// Acting peer of a membership change: every second raw value picks the creator (who certainly
    /// has manage access), the others pick any peer (who may lack the rights; the action then fails
    /// locally and nothing is published).
    fn actor(&self, raw: u16, creator: usize) -> usize {
        if raw % 2 == 0 { creator } else { idx(raw, self.n()) }
    }

    /// Peers that are (not) among `members`, from the acting peer's point of view.
    fn pick_peer(&self, raw: u16, members: &[VerifyingKey], want_member: bool, not: usize) -> usize {
        let candidates: Vec<usize> = (0..self.n())
            .filter(|p| *p != not && members.contains(&self.id_of(*p)) == want_member)
            .collect();
        if candidates.is_empty() || raw % 8 == 7 {
            idx(raw, self.n())
        } else {
            candidates[idx(raw, candidates.len())]
        }
    }

    fn space_members(&self, by: usize, space_id: Hash) -> Vec<VerifyingKey> {
        let manager = self.peers[by].tp.manager.clone();
        self.rt.block_on(async {
            match manager.space(space_id).await {
                Ok(Some(space)) => space.members().await.map(|m| m.into_iter().map(|(id, _)| id).collect()).unwrap_or_default(),
                _ => vec![],
            }
        })
    }

    fn group_members(&self, by: usize, group_id: VerifyingKey) -> Vec<VerifyingKey> {
        let manager = self.peers[by].tp.manager.clone();
        self.rt.block_on(async {
            match manager.group(group_id).await {
                Ok(Some(group)) => group.members().await.map(|m| m.into_iter().map(|(id, _)| id).collect()).unwrap_or_default(),
                _ => vec![],
            }
        })
    }

    fn step(&mut self, step: &Step) -> Result<(), String> {
        let n = self.n();
        if std::env::var("VERIF_C39_TRACE").is_ok() {
            eprintln!("[trace] step {step:?} (log has {} messages)", self.log.len());
        }
        match step {
            Step::CreateSpace { by, members, access } => {
                let by = idx(*by, n);
                let members = self.members_from(by, *members, *access);
                let space_id = Hash::digest(format!("c39-space-{}", self.spaces.len()).as_bytes());
                let manager = self.peers[by].tp.manager.clone();
                match self.rt.block_on(manager.create_space_persisted(space_id, &members)) {
                    Ok((_space, ops)) => {
                        self.spaces.push(space_id);
                        self.space_creator.push(by);
                        self.labels.insert("create_space");
                        self.publish(by, ops, true);
                    }
                    Err(e) => {
                        if std::env::var("VERIF_C39_ERRS").is_ok() {
                            eprintln!("[local-err] {step:?}: {e}");
                        }
                        self.labels.insert("local_action_err");
                    }
                }
            }
            Step::CreateGroup { by, members, access } => {
                let by = idx(*by, n);
                let mut members = self.members_from(by, *members, *access);
                members.push((self.id_of(by), Access::manage()));
                let manager = self.peers[by].tp.manager.clone();
                match self.rt.block_on(manager.create_group_persisted(&members)) {
                    Ok((group, op)) => {
                        self.groups.push(group.id());
                        self.group_creator.push(by);
                        self.labels.insert("create_group");
                        self.publish(by, vec![op], true);
                    }
                    Err(e) => {
                        if std::env::var("VERIF_C39_ERRS").is_ok() {
                            eprintln!("[local-err] {step:?}: {e}");
                        }
                        self.labels.insert("local_action_err");
                    }
                }
            }
            Step::SpaceAdd { by, space, who, access } | Step::SpaceAddGroup { by, space, who, access } => {
                if self.spaces.is_empty() {
                    return Ok(());
                }
                let si = idx(*space, self.spaces.len());
                let by = self.actor(*by, self.space_creator[si]);
                let space_id = self.spaces[si];
                let member = if matches!(step, Step::SpaceAddGroup { .. }) {
                    if self.groups.is_empty() {
                        return Ok(());
                    }
                    self.groups[idx(*who, self.groups.len())]
                } else {
                    let members = self.space_members(by, space_id);
                    self.id_of(self.pick_peer(*who, &members, false, by))
                };
                let manager = self.peers[by].tp.manager.clone();
                let result = self.rt.block_on(async {
                    let Some(space) = manager.space(space_id).await.map_err(|e| e.to_string())? else {
                        return Err("unknown space".to_string());
                    };
                    space.add_persisted(member, access_of(*access)).await.map_err(|e| e.to_string())
                });
                match result {
                    Ok((a, b)) => {
                        self.labels.insert("space_add");
                        self.publish(by, vec![a, b], true);
                    }
                    Err(e) => {
                        if std::env::var("VERIF_C39_ERRS").is_ok() {
                            eprintln!("[local-err] {step:?}: {e}");
                        }
                        self.labels.insert("local_action_err");
                    }
                }
            }
            Step::SpaceRemove { by, space, who } => {
                if self.spaces.is_empty() {
                    return Ok(());
                }
                let si = idx(*space, self.spaces.len());
                let by = self.actor(*by, self.space_creator[si]);
                let space_id = self.spaces[si];
                let members = self.space_members(by, space_id);
                let member = self.id_of(self.pick_peer(*who, &members, true, by));
                let manager = self.peers[by].tp.manager.clone();
                let result = self.rt.block_on(async {
                    let Some(space) = manager.space(space_id).await.map_err(|e| e.to_string())? else {
                        return Err("unknown space".to_string());
                    };
                    space.remove_persisted(member).await.map_err(|e| e.to_string())
                });
                match result {
                    Ok((a, b)) => {
                        self.labels.insert("space_remove");
                        self.publish(by, vec![a, b], true);
                    }
                    Err(e) => {
                        if std::env::var("VERIF_C39_ERRS").is_ok() {
                            eprintln!("[local-err] {step:?}: {e}");
                        }
                        self.labels.insert("local_action_err");
                    }
                }
            }
            Step::GroupAdd { by, group, who, access } => {
                if self.groups.is_empty() {
                    return Ok(());
                }
                let gi = idx(*group, self.groups.len());
                let by = self.actor(*by, self.group_creator[gi]);
                let group_id = self.groups[gi];
                let members = self.group_members(by, group_id);
                let member = self.id_of(self.pick_peer(*who, &members, false, by));
                let manager = self.peers[by].tp.manager.clone();
                let result = self.rt.block_on(async {
                    let Some(group) = manager.group(group_id).await.map_err(|e| e.to_string())? else {
                        return Err("unknown group".to_string());
                    };
                    group.add_persisted(member, access_of(*access)).await.map_err(|e| e.to_string())
                });
                match result {
                    Ok(op) => {
                        self.labels.insert("group_add");
                        self.publish(by, vec![op], true);
                    }
                    Err(e) => {
                        if std::env::var("VERIF_C39_ERRS").is_ok() {
                            eprintln!("[local-err] {step:?}: {e}");
                        }
                        self.labels.insert("local_action_err");
                    }
                }
            }
            Step::GroupRemove { by, group, who } => {
                if self.groups.is_empty() {
                    return Ok(());
                }
                let gi = idx(*group, self.groups.len());
                let by = self.actor(*by, self.group_creator[gi]);
                let group_id = self.groups[gi];
                let members = self.group_members(by, group_id);
                let member = self.id_of(self.pick_peer(*who, &members, true, by));
                let manager = self.peers[by].tp.manager.clone();
                let result = self.rt.block_on(async {
                    let Some(group) = manager.group(group_id).await.map_err(|e| e.to_string())? else {
                        return Err("unknown group".to_string());
                    };
                    group.remove_persisted(member).await.map_err(|e| e.to_string())
                });
                match result {
                    Ok(op) => {
                        self.labels.insert("group_remove");
                        self.publish(by, vec![op], true);
                    }
                    Err(e) => {
                        if std::env::var("VERIF_C39_ERRS").is_ok() {
                            eprintln!("[local-err] {step:?}: {e}");
                        }
                        self.labels.insert("local_action_err");
                    }
                }
            }
            Step::Publish { by, space, len } => {
                if self.spaces.is_empty() {
                    return Ok(());
                }
                let si = idx(*space, self.spaces.len());
                let by = self.actor(*by, self.space_creator[si]);
                let space_id = self.spaces[si];
                let payload: Vec<u8> = (0..*len).map(|i| i.wrapping_mul(31).wrapping_add(*len)).collect();
                let manager = self.peers[by].tp.manager.clone();
                let result = self.rt.block_on(async {
                    let Some(space) = manager.space(space_id).await.map_err(|e| e.to_string())? else {
                        return Err("unknown space".to_string());
                    };
                    space.publish_persisted(&payload).await.map_err(|e| e.to_string())
                });
                match result {
                    Ok(op) => {
                        self.labels.insert("publish");
                        self.publish(by, vec![op], true);
                    }
                    Err(e) => {
                        if std::env::var("VERIF_C39_ERRS").is_ok() {
                            eprintln!("[local-err] {step:?}: {e}");
                        }
                        self.labels.insert("local_action_err");
                    }
                }
            }
            Step::KeyBundle { by } => {
                let by = idx(*by, n);
                let manager = self.peers[by].tp.manager.clone();
                match self.rt.block_on(manager.key_bundle_message()) {
                    Ok(op) => self.publish(by, vec![op], false),
                    Err(e) => {
                        if std::env::var("VERIF_C39_ERRS").is_ok() {
                            eprintln!("[local-err] {step:?}: {e}");
                        }
                        self.labels.insert("local_action_err");
                    }
                }
            }
            Step::FreshKeyBundle { by } => {
                // A pre-key rotation as other peers see it: a further key bundle message in the
                // member's log carrying a different, valid bundle of the same identity key. The
                // manager itself only rotates when the wall clock says so (and two rotations within
                // the same second may publish the old bundle again), so the bundle is built here:
                // fresh seeded pre-key, signed with the member's identity secret, forged into the
                // member's own log exactly like `Manager::key_bundle_message` does (`TestForge` on
                // the member's store). It is valid for 30 days, i.e. it always expires *before* the
                // member's managed bundle (90 days), so nobody ever picks it for key agreement
                // (`latest_key_bundle` = furthest expiry) and the member is never asked for the
                // pre-key secret.
                let by = idx(*by, n);
                let now = SystemTime::now().duration_since(UNIX_EPOCH).map(|d| d.as_secs()).unwrap_or(0);
                let identity = self.peers[by].tp.credentials.identity_secret();
                let prekey_secret = SecretKey::from_rng(&self.fresh_rng).map_err(|e| e.to_string())?;
                let lifetime = Lifetime::from_range(now.saturating_sub(3600), now + 30 * 24 * 3600);
                let prekey = PreKey::new(prekey_secret.verifying_key().map_err(|e| e.to_string())?, lifetime);
                let signature = prekey.sign(&identity, &self.fresh_rng).map_err(|e| e.to_string())?;
                let key_bundle = LongTermKeyBundle::new(identity.verifying_key().map_err(|e| e.to_string())?, prekey, signature);
                let forge = TestForge::new(self.peers[by].tp.store.clone(), self.peers[by].tp.credentials.signing_key());
                let op = self
                    .rt
                    .block_on(<TestForge as Forge<()>>::forge(&forge, SpacesArgs::KeyBundle { key_bundle }))
                    .map_err(|e| format!("forging a fresh key bundle message: {e}"))?;
                self.labels.insert("fresh_key_bundle");
                // Like for `Step::KeyBundle` the author has not processed its own message yet.
                self.publish(by, vec![op], false);
            }
            Step::Repair { by } => {
                let by = idx(*by, n);
                let manager = self.peers[by].tp.manager.clone();
                let result = self.rt.block_on(async {
                    let ids = manager.spaces_repair_required().await.map_err(|e| e.to_string())?;
                    if ids.is_empty() {
                        return Ok(vec![]);
                    }
                    manager.repair_spaces_persisted(&ids).await.map_err(|e| e.to_string())
                });
                match result {
                    Ok(ops) => {
                        if !ops.is_empty() {
                            self.labels.insert("repair");
                        }
                        self.publish(by, ops, true);
                    }
                    Err(e) => {
                        if std::env::var("VERIF_C39_ERRS").is_ok() {
                            eprintln!("[local-err] {step:?}: {e}");
                        }
                        self.labels.insert("local_action_err");
                    }
                }
            }
            Step::Deliver { to, pick, count } => {
                let to = idx(*to, n);
                for _ in 0..*count {
                    let ready = self.deliverable(to);
                    if ready.is_empty() {
                        break;
                    }
                    let i = ready[idx(*pick, ready.len())];
                    self.first_delivery(to, i)?;
                }
            }
            Step::Redeliver { to, pick } => {
                let to = idx(*to, n);
                let ready = self.redeliverable(to);
                if !ready.is_empty() {
                    let i = ready[idx(*pick, ready.len())];
                    self.redelivery(to, i)?;
                }
            }
            Step::Sync => self.flush()?,
        }
        Ok(())
    }
}

fn auth_facets(prefix: &str, y: &AuthState, out: &mut BTreeMap<String, String>) {
    out.insert(
        format!("{prefix}.ops"),
        join_sorted(y.inner.operations.keys().map(h8).collect()),
    );
    out.insert(format!("{prefix}.heads"), join_sorted(y.inner.heads().iter().map(h8).collect()));
    out.insert(format!("{prefix}.ignore"), join_sorted(y.inner.ignore.iter().map(h8).collect()));
    out.insert(
        format!("{prefix}.mutual_removes"),
        join_sorted(y.inner.mutual_removes.iter().map(h8).collect()),
    );
    let group_ids: BTreeSet<VerifyingKey> = y.inner.operations.values().map(|op| op.group_id()).collect();
    for g in group_ids {
        out.insert(
            format!("{prefix}.group.{}", k8(&g)),
            join_sorted(y.members(g).into_iter().map(|(m, a)| format!("{}={a}", k8(&m))).collect()),
        );
        out.insert(
            format!("{prefix}.roots.{}", k8(&g)),
            join_sorted(
                y.root_members(g)
                    .into_iter()
                    .map(|(m, a)| format!("{}{}={a}", if m.is_group() { "g:" } else { "" }, k8(&m.id())))
                    .collect(),
            ),
        );
    }
}

// ---------------------------------------------------------------------------------------------
// Part `histories`
// ---------------------------------------------------------------------------------------------

#[derive(Clone, Debug, Serialize, Deserialize)]
pub enum Step {
    CreateSpace { by: u16, members: u8, access: u16 },
    CreateGroup { by: u16, members: u8, access: u16 },
    SpaceAdd { by: u16, space: u16, who: u16, access: u8 },
    SpaceAddGroup { by: u16, space: u16, who: u16, access: u8 },
    SpaceRemove { by: u16, space: u16, who: u16 },
    GroupAdd { by: u16, group: u16, who: u16, access: u8 },
    GroupRemove { by: u16, group: u16, who: u16 },
    Publish { by: u16, space: u16, len: u8 },
    KeyBundle { by: u16 },
    /// The peer publishes a key bundle message with a *new* pre-key (a second, third, ... distinct
    /// bundle of the same member, as after a pre-key rotation).
    FreshKeyBundle { by: u16 },
    Repair { by: u16 },
    Deliver { to: u16, pick: u16, count: u8 },
    Redeliver { to: u16, pick: u16 },
    Sync,
}

#[derive(Clone, Debug, Serialize, Deserialize)]
pub struct History {
    pub n: u8,
    pub seed: u64,
    pub steps: Vec<Step>,
    /// Order keys of the final sweep (index = position in the list of (peer, message) pairs).
    pub sweep: Vec<u16>,
}

fn step_strategy() -> impl Strategy<Value = Step> {
    let u = any::<u16>;
    prop_oneof![
        2 => (u(), any::<u8>(), u()).prop_map(|(by, members, access)| Step::CreateSpace { by, members, access }),
        2 => (u(), any::<u8>(), u()).prop_map(|(by, members, access)| Step::CreateGroup { by, members, access }),
        5 => (u(), u(), u(), any::<u8>()).prop_map(|(by, space, who, access)| Step::SpaceAdd { by, space, who, access }),
        2 => (u(), u(), u(), 0u8..3).prop_map(|(by, space, who, access)| Step::SpaceAddGroup { by, space, who, access }),
        3 => (u(), u(), u()).prop_map(|(by, space, who)| Step::SpaceRemove { by, space, who }),
        3 => (u(), u(), u(), any::<u8>()).prop_map(|(by, group, who, access)| Step::GroupAdd { by, group, who, access }),
        2 => (u(), u(), u()).prop_map(|(by, group, who)| Step::GroupRemove { by, group, who }),
        5 => (u(), u(), 0u8..24).prop_map(|(by, space, len)| Step::Publish { by, space, len }),
        1 => u().prop_map(|by| Step::KeyBundle { by }),
        2 => u().prop_map(|by| Step::Repair { by }),
        7 => (u(), u(), 1u8..5).prop_map(|(to, pick, count)| Step::Deliver { to, pick, count }),
        5 => (u(), u()).prop_map(|(to, pick)| Step::Redeliver { to, pick }),
        2 => Just(Step::Sync),
    ]
}

fn history_strategy(max_steps: usize) -> impl Strategy<Value = History> {
    (
        2u8..=4,
        any::<u64>(),
        prop::collection::vec(step_strategy(), 3..=max_steps),
        prop::collection::vec(any::<u16>(), 0..64),
    )
        .prop_map(|(n, seed, steps, sweep)| History { n, seed, steps, sweep })
}

/// Part `rotations`: the same machinery; members publish further, distinct key bundles (as after a
/// pre-key rotation) and the steps are mostly key bundle messages, partial deliveries and
/// re-deliveries.
fn rotation_step_strategy() -> impl Strategy<Value = Step> {
    let u = any::<u16>;
    prop_oneof![
        5 => u().prop_map(|by| Step::FreshKeyBundle { by }),
        1 => u().prop_map(|by| Step::KeyBundle { by }),
        5 => (u(), u(), 1u8..4).prop_map(|(to, pick, count)| Step::Deliver { to, pick, count }),
        7 => (u(), u()).prop_map(|(to, pick)| Step::Redeliver { to, pick }),
        2 => Just(Step::Sync),
        1 => (u(), u(), u(), any::<u8>()).prop_map(|(by, space, who, access)| Step::SpaceAdd { by, space, who, access }),
        1 => (u(), u(), u()).prop_map(|(by, space, who)| Step::SpaceRemove { by, space, who }),
        2 => (u(), u(), 0u8..24).prop_map(|(by, space, len)| Step::Publish { by, space, len }),
    ]
}

fn rotations_strategy(max_steps: usize) -> impl Strategy<Value = History> {
    (
        2u8..=3,
        any::<u64>(),
        any::<u16>(),
        prop::collection::vec(rotation_step_strategy(), 4..=max_steps),
        prop::collection::vec(any::<u16>(), 0..64),
    )
        .prop_map(|(n, seed, first, generated, sweep)| {
            // Every history starts with a member publishing a second, distinct bundle; the
            // generated steps add more. Older ones are re-delivered after newer ones by the
            // `Redeliver` steps and, at the latest, by the final sweep.
            let mut steps = vec![Step::FreshKeyBundle { by: first }];
            steps.extend(generated);
            History { n, seed, steps, sweep }
        })
}

fn check_history(case: &History, open: Open) -> CaseResult {
    let n = case.n.clamp(2, 4) as usize;
    let mut w = World::new(n, case.seed, open);
    w.exchange_key_bundles()?;
    // The first step always creates a space so that histories are not wasted on empty worlds.
    let mut steps = vec![Step::CreateSpace {
        by: 0,
        members: (case.seed & 0xff) as u8,
        access: (case.seed >> 8) as u16,
    }];
    steps.extend(case.steps.iter().cloned());
    for step in &steps {
        // A panic inside a *local* API call is outside this property (which is about processing
        // messages); it is reported as such so that it cannot be mistaken for one.
        match catch_unwind(AssertUnwindSafe(|| w.step(step))) {
            Ok(r) => r?,
            Err(e) => {
                let m = e
                    .downcast_ref::<&str>()
                    .map(|s| s.to_string())
                    .or_else(|| e.downcast_ref::<String>().cloned())
                    .unwrap_or_default();
                if std::env::var("VERIF_C39_LOCAL_PANICS").is_ok() {
                    return Err(format!("LOCAL-ACTION-PANIC in step {step:?}: {m}"));
                }
                // The peer's store may be mid-transaction now: stop here, nothing more is asserted.
                return Ok(CaseOk::trivial().label("local_action_panic_outside_property"));
            }
        }
    }
    w.flush()?;

    // Final sweep: every message whose first processing succeeded is processed once more, at every
    // peer, in a generated order.
    let mut pairs: Vec<(usize, usize)> = Vec::new();
    for p in 0..n {
        for i in w.redeliverable(p) {
            pairs.push((p, i));
        }
    }
    let order = engine::permutation(&case.sweep, pairs.len());
    for k in order {
        let (p, i) = pairs[k];
        w.redelivery(p, i)?;
    }

    // Histories in which a member publishes several distinct bundles (part `rotations`):
    // non-trivial = an older key bundle message was processed again by a peer that had meanwhile
    // processed a newer, distinct bundle of the same author.
    let rotations = case.steps.iter().any(|s| matches!(s, Step::FreshKeyBundle { .. }));
    let mut ok = if rotations {
        CaseOk::nontrivial(w.older_bundle_after_newer > 0)
    } else {
        CaseOk::nontrivial(w.redeliveries_nontrivial > 0)
    };
    for l in &w.labels {
        ok = ok.label(l);
    }
    if w.spaces.len() > 1 {
        ok = ok.label("multiple_spaces");
    }
    if w.excluded {
        ok = ok.excluded();
    }
    Ok(ok)
}

// ---------------------------------------------------------------------------------------------
// Part `messages` (totality)
// ---------------------------------------------------------------------------------------------

#[derive(Clone, Debug, Serialize, Deserialize)]
pub enum IdSel {
    /// The n-th known space / group (index mapped monotonically).
    Known(u16),
    /// An id nobody has ever seen.
    Unknown(u64),
}

#[derive(Clone, Debug, Serialize, Deserialize)]
pub enum MemberSel {
    Peer(u16),
    Stranger,
    Group(u16),
    Unknown(u64),
}

#[derive(Clone, Debug, Serialize, Deserialize)]
pub enum DepSel {
    /// What an honest author would put: the receiver's current heads.
    Heads,
    Empty,
    /// Ids of arbitrary messages the receiver has already processed (any kind).
    Processed(Vec<u16>),
}

#[derive(Clone, Debug, Serialize, Deserialize)]
pub enum DmSel {
    Empty,
    /// Direct messages copied from the n-th existing space membership message.
    Replay(u16),
    /// The same, but re-addressed to the receiver.
    ReplayToReceiver(u16),
}

#[derive(Clone, Debug, Serialize, Deserialize)]
pub enum Adv {
    KeyBundle {
        /// 0 fresh valid bundle of the author, 1 valid bundle of a *different* identity key,
        /// 2 broken signature, 3 expired lifetime.
        kind: u8,
    },
    Auth {
        group: IdSel,
        /// 0 create, 1 add, 2 remove, 3 promote, 4 demote.
        action: u8,
        member: MemberSel,
        /// Declare an individual as a group or a group as an individual.
        mistype: bool,
        access: u8,
        deps: DepSel,
    },
    SpaceMembership {
        space: IdSel,
        group: IdSel,
        deps: DepSel,
        /// Index into the auth messages the receiver knows (incl. earlier adversarial ones), or an
        /// arbitrary processed message of another kind when `auth_wrong_kind`.
        auth: u16,
        auth_wrong_kind: bool,
        dms: DmSel,
    },
    SpaceUpdate { space: IdSel, group: IdSel, deps: DepSel },
    Application {
        space: IdSel,
        deps: DepSel,
        /// Use the id of a secret the receiver holds (otherwise random bytes).
        known_secret: bool,
        len: u8,
        fill: u8,
    },
    /// Two messages: a well-formed Promote / Demote of a space member signed by the space's
    /// manager (peer 0) on top of the receiver's auth heads, followed by a space membership
    /// message pointing at it.
    PointerToPromotion { demote: bool, member: u16, access: u8 },
}

#[derive(Clone, Debug, Serialize, Deserialize)]
pub struct Forged {
    /// Index into peers; values mapping to `n` mean "a stranger".
    pub author: u16,
    pub receiver: u16,
    pub adv: Adv,
}

#[derive(Clone, Debug, Serialize, Deserialize)]
pub struct Messages {
    pub seed: u64,
    /// Shape of the base world: access of bob / carol in the space, group membership.
    pub shape: u16,
    pub forged: Vec<Forged>,
}

fn idsel() -> impl Strategy<Value = IdSel> {
    prop_oneof![4 => any::<u16>().prop_map(IdSel::Known), 1 => any::<u64>().prop_map(IdSel::Unknown)]
}

fn membersel() -> impl Strategy<Value = MemberSel> {
    prop_oneof![
        5 => any::<u16>().prop_map(MemberSel::Peer),
        1 => Just(MemberSel::Stranger),
        2 => any::<u16>().prop_map(MemberSel::Group),
        1 => any::<u64>().prop_map(MemberSel::Unknown),
    ]
}

fn depsel() -> impl Strategy<Value = DepSel> {
    prop_oneof![
        5 => Just(DepSel::Heads),
        1 => Just(DepSel::Empty),
        2 => prop::collection::vec(any::<u16>(), 1..4).prop_map(DepSel::Processed),
    ]
}

fn dmsel() -> impl Strategy<Value = DmSel> {
    prop_oneof![
        3 => Just(DmSel::Empty),
        1 => any::<u16>().prop_map(DmSel::Replay),
        1 => any::<u16>().prop_map(DmSel::ReplayToReceiver),
    ]
}

fn adv_strategy() -> impl Strategy<Value = Adv> {
    prop_oneof![
        2 => (0u8..4).prop_map(|kind| Adv::KeyBundle { kind }),
        6 => (idsel(), 0u8..5, membersel(), prop::bool::weighted(0.15), any::<u8>(), depsel()).prop_map(
            |(group, action, member, mistype, access, deps)| Adv::Auth { group, action, member, mistype, access, deps }
        ),
        4 => (idsel(), idsel(), depsel(), any::<u16>(), prop::bool::weighted(0.15), dmsel()).prop_map(
            |(space, group, deps, auth, auth_wrong_kind, dms)| Adv::SpaceMembership { space, group, deps, auth, auth_wrong_kind, dms }
        ),
        2 => (idsel(), idsel(), depsel()).prop_map(|(space, group, deps)| Adv::SpaceUpdate { space, group, deps }),
        3 => (idsel(), depsel(), any::<bool>(), 0u8..40, any::<u8>()).prop_map(
            |(space, deps, known_secret, len, fill)| Adv::Application { space, deps, known_secret, len, fill }
        ),
        2 => (any::<bool>(), any::<u16>(), any::<u8>()).prop_map(
            |(demote, member, access)| Adv::PointerToPromotion { demote, member, access }
        ),
    ]
}

fn messages_strategy() -> impl Strategy<Value = Messages> {
    (
        any::<u64>(),
        any::<u16>(),
        prop::collection::vec(
            (any::<u16>(), any::<u16>(), adv_strategy()).prop_map(|(author, receiver, adv)| Forged { author, receiver, adv }),
            4..=8,
        ),
    )
        .prop_map(|(seed, shape, forged)| Messages { seed, shape, forged })
}

fn forge(key: &SigningKey, seq_num: u32, args: Args) -> TestOperation {
    let mut header = Header {
        version: 1,
        verifying_key: key.verifying_key(),
        signature: None,
        payload_size: 0,
        payload_hash: None,
        seq_num,
        // A header with seq_num > 0 must carry a backlink to be decodable again.
        backlink: (seq_num > 0).then(|| Hash::digest(seq_num.to_le_bytes())),
        extensions: args,
    };
    header.sign(key);
    let hash = header.hash();
    TestOperation {
        hash,
        header,
        body: None,
    }
}

fn check_messages(case: &Messages, open: Open) -> CaseResult {
    let n = 3usize;
    let mut w = World::new(n, case.seed, open);
    w.exchange_key_bundles()?;

    // Base world: peer 0 creates a group with peer 1, a space with peers 1 (and 2) and that group,
    // publishes once; everything is delivered everywhere.
    let shape = case.shape;
    let base = vec![
        Step::CreateGroup {
            by: 0,
            members: 0b010,
            access: shape,
        },
        Step::CreateSpace {
            by: 0,
            members: if shape & 1 == 0 { 0b110 } else { 0b010 },
            access: shape >> 1,
        },
        Step::Sync,
        Step::Publish { by: 0, space: 0, len: 7 },
        Step::SpaceAddGroup {
            by: 0,
            space: 0,
            who: 0,
            access: ((shape >> 7) % 3) as u8,
        },
        Step::Sync,
    ];
    for step in &base {
        w.step(step)?;
    }

    let stranger = SigningKey::from_bytes(&seed32(case.seed, 0x5757));
    let aux_rng = Rng::from_seed(seed32(case.seed, 0xA0A0));
    let mut classes: BTreeSet<&'static str> = BTreeSet::new();
    let mut adversarial_auth: Vec<Hash> = Vec::new();
    let mut any_ok = false;

    for (k, f) in case.forged.iter().enumerate() {
        let receiver = idx(f.receiver, n);
        let author = idx(f.author, n + 1);
        let (key, author_is_peer) = if author == n {
            (stranger.clone(), false)
        } else {
            (w.peers[author].tp.credentials.signing_key(), true)
        };

        // Receiver-side knowledge used to pick "plausible" field values.
        let processed: Vec<Hash> = w.first[receiver]
            .iter()
            .filter(|(_, ok)| **ok)
            .map(|(i, _)| w.log[*i].op.hash)
            .collect();
        let (auth_heads, space_heads, known_secret): (Vec<Hash>, BTreeMap<Hash, Vec<Hash>>, Option<[u8; 32]>) = {
            let peer = &w.peers[receiver];
            w.rt.block_on(async {
                let permit = peer.sstore.begin().await.map_err(|e| e.to_string())?;
                let groups: Option<AuthState> =
                    <TestSpacesStore as GroupsStore<AuthMessage<()>, ()>>::get_groups_state_tx(
                        &peer.sstore,
                        Hash::digest(GLOBAL_GROUPS_CONTEXT_ID),
                    )
                    .await
                    .map_err(|e| e.to_string())?;
                peer.sstore.commit(permit).await.map_err(|e| e.to_string())?;
                let mut heads: Vec<Hash> = groups.unwrap_or_default().inner.heads().into_iter().collect();
                heads.sort();
                let mut by_space = BTreeMap::new();
                let mut secret = None;
                for id in &w.spaces {
                    let permit = peer.sstore.begin().await.map_err(|e| e.to_string())?;
                    let y: Option<SpacesStoreState<()>> =
                        <TestSpacesStore as SpacesStore<SpacesStoreState<()>>>::get_space_state_tx(&peer.sstore, id)
                            .await
                            .map_err(|e| e.to_string())?;
                    peer.sstore.commit(permit).await.map_err(|e| e.to_string())?;
                    if let Some(y) = y {
                        let mut h = y.orderer.heads().to_vec();
                        h.sort();
                        by_space.insert(*id, h);
                        if secret.is_none() {
                            secret = y.secrets.latest().map(|s| s.id());
                        }
                    }
                }
                Ok::<_, String>((heads, by_space, secret))
            })?
        };

        let space_of = |sel: &IdSel| -> Hash {
            match sel {
                IdSel::Known(i) if !w.spaces.is_empty() => w.spaces[idx(*i, w.spaces.len())],
                IdSel::Known(_) => Hash::digest(b"no space"),
                IdSel::Unknown(x) => Hash::digest(x.to_le_bytes()),
            }
        };
        // Known groups: explicit groups plus the groups of the spaces.
        let mut known_groups: Vec<VerifyingKey> = w.groups.clone();
        for rec in &w.log {
            if let SpacesArgs::SpaceMembership { group_id, .. } = rec.op.borrow() as &Args {
                if !known_groups.contains(group_id) {
                    known_groups.push(*group_id);
                }
            }
        }
        let random_key = |x: u64| SigningKey::from_bytes(&seed32(x, 0x6b65)).verifying_key();
        let group_of = |sel: &IdSel| -> VerifyingKey {
            match sel {
                IdSel::Known(i) if !known_groups.is_empty() => known_groups[idx(*i, known_groups.len())],
                IdSel::Known(_) => random_key(1),
                IdSel::Unknown(x) => random_key(*x),
            }
        };
        let deps_of = |sel: &DepSel, heads: &[Hash]| -> Vec<Hash> {
            match sel {
                DepSel::Heads => heads.to_vec(),
                DepSel::Empty => vec![],
                DepSel::Processed(picks) => {
                    if processed.is_empty() {
                        vec![]
                    } else {
                        let mut out: Vec<Hash> = Vec::new();
                        for p in picks {
                            let h = processed[idx(*p, processed.len())];
                            if !out.contains(&h) {
                                out.push(h);
                            }
                        }
                        out
                    }
                }
            }
        };

        if let Adv::PointerToPromotion { demote, member, access } = &f.adv {
            // 1. The promotion itself, as the space's manager would publish it.
            let manager_key = w.peers[0].tp.credentials.signing_key();
            let space_id = w.spaces[0];
            let space_group = w
                .log
                .iter()
                .find_map(|rec| match &rec.op.header.extensions {
                    SpacesArgs::SpaceMembership { space_id: s, group_id, .. } if *s == space_id => Some(*group_id),
                    _ => None,
                })
                .ok_or_else(|| "base world has no space message".to_string())?;
            let member = GroupMember::Individual(w.id_of(1 + idx(*member, n - 1)));
            let access = access_of(*access);
            let group_action = if *demote {
                GroupAction::Demote { member, access }
            } else {
                GroupAction::Promote { member, access }
            };
            let promotion = forge(
                &manager_key,
                200_000 + k as u32,
                SpacesArgs::Auth {
                    group_id: space_group,
                    group_action,
                    auth_dependencies: auth_heads.clone(),
                },
            );
            classes.insert("pointer_to_promotion");
            for (what, op) in [
                ("Auth/Promote-or-Demote by the manager", promotion.clone()),
                (
                    "SpaceMembership pointing at the promotion",
                    forge(
                        &key,
                        300_000 + k as u32,
                        SpacesArgs::SpaceMembership {
                            space_id,
                            group_id: space_group,
                            space_dependencies: space_heads.get(&space_id).cloned().unwrap_or_default(),
                            auth_message_id: promotion.hash,
                            direct_messages: vec![],
                        },
                    ),
                ),
            ] {
                w.persist(receiver, &op);
                match w.process(receiver, &op) {
                    Outcome::Panic(m) => {
                        if AUTH_PANICS.contains(&m.as_str()) && open.f {
                            return Ok(CaseOk::nontrivial(true).label("known_k_c39f").excluded());
                        }
                        return Err(format!(
                            "processing forged message #{k} ({what}) panicked at peer {receiver}: {m}{}",
                            if AUTH_PANICS.contains(&m.as_str()) { " [signature K-C39f]" } else { "" }
                        ));
                    }
                    Outcome::Err(e) => {
                        if std::env::var("VERIF_C39_ERRS").is_ok() {
                            eprintln!("[pointer] {what}: ERR {e}");
                        }
                        classes.insert("forged_rejected");
                    }
                    Outcome::Ok(_) => {
                        if std::env::var("VERIF_C39_ERRS").is_ok() {
                            eprintln!("[pointer] {what}: ok");
                        }
                        classes.insert("forged_accepted");
                    }
                }
            }
            continue;
        }

        let (class, args): (&'static str, Args) = match &f.adv {
            Adv::KeyBundle { kind } => {
                let now = SystemTime::now().duration_since(UNIX_EPOCH).map(|d| d.as_secs()).unwrap_or(0);
                let identity = match (kind, author_is_peer) {
                    (1, _) | (_, false) => SecretKey::from_bytes(seed32(case.seed, 0x1d00 + k as u64)),
                    _ => w.peers[author].tp.credentials.identity_secret(),
                };
                let prekey_secret = SecretKey::from_rng(&aux_rng).map_err(|e| e.to_string())?;
                let lifetime = if *kind == 3 {
                    Lifetime::from_range(now.saturating_sub(7200), now.saturating_sub(3600))
                } else {
                    Lifetime::from_range(now.saturating_sub(3600), now + 30 * 24 * 3600)
                };
                let prekey = PreKey::new(prekey_secret.verifying_key().map_err(|e| e.to_string())?, lifetime);
                let signer = if *kind == 2 {
                    SecretKey::from_bytes(seed32(case.seed, 0xbad0 + k as u64))
                } else {
                    identity.clone()
                };
                let signature = prekey.sign(&signer, &aux_rng).map_err(|e| e.to_string())?;
                let bundle = LongTermKeyBundle::new(identity.verifying_key().map_err(|e| e.to_string())?, prekey, signature);
                let class = match kind {
                    0 => "keybundle_fresh",
                    1 => "keybundle_foreign_identity",
                    2 => "keybundle_bad_signature",
                    _ => "keybundle_expired",
                };
                (class, SpacesArgs::KeyBundle { key_bundle: bundle })
            }
            Adv::Auth {
                group,
                action,
                member,
                mistype,
                access,
                deps,
            } => {
                let member_id = match member {
                    MemberSel::Peer(p) => w.id_of(idx(*p, n)),
                    MemberSel::Stranger => stranger.verifying_key(),
                    MemberSel::Group(g) if !known_groups.is_empty() => known_groups[idx(*g, known_groups.len())],
                    MemberSel::Group(_) => random_key(2),
                    MemberSel::Unknown(x) => random_key(*x),
                };
                let is_group = matches!(member, MemberSel::Group(_)) != *mistype;
                let member = if is_group {
                    GroupMember::Group(member_id)
                } else {
                    GroupMember::Individual(member_id)
                };
                let access = access_of(*access);
                let (class, group_action) = match action {
                    0 => (
                        "auth_create",
                        GroupAction::Create {
                            initial_members: vec![(member, access), (GroupMember::Individual(key.verifying_key()), Access::manage())],
                        },
                    ),
                    1 => ("auth_add", GroupAction::Add { member, access }),
                    2 => ("auth_remove", GroupAction::Remove { member }),
                    3 => ("auth_promote", GroupAction::Promote { member, access }),
                    _ => ("auth_demote", GroupAction::Demote { member, access }),
                };
                (
                    class,
                    SpacesArgs::Auth {
                        group_id: group_of(group),
                        group_action,
                        auth_dependencies: deps_of(deps, &auth_heads),
                    },
                )
            }
            Adv::SpaceMembership {
                space,
                group,
                deps,
                auth,
                auth_wrong_kind,
                dms,
            } => {
                let space_id = space_of(space);
                let heads = space_heads.get(&space_id).cloned().unwrap_or_default();
                // Auth messages the receiver has seen (processed or at least persisted).
                let mut auth_ids: Vec<Hash> = w
                    .log
                    .iter()
                    .enumerate()
                    .filter(|(i, rec)| {
                        w.first[receiver].contains_key(i) && matches!(rec.op.borrow() as &Args, SpacesArgs::Auth { .. })
                    })
                    .map(|(_, rec)| rec.op.hash)
                    .collect();
                // Prefer earlier adversarial auth messages (e.g. a Promote) when there are any.
                auth_ids.extend(adversarial_auth.iter().cloned());
                auth_ids.reverse();
                let auth_message_id = if *auth_wrong_kind && !processed.is_empty() {
                    processed[idx(*auth, processed.len())]
                } else if auth_ids.is_empty() {
                    Hash::digest(b"no auth message")
                } else {
                    auth_ids[idx(*auth, auth_ids.len())]
                };
                let existing: Vec<&TestOperation> = w
                    .log
                    .iter()
                    .map(|r| &r.op)
                    .filter(|op| matches!(&op.header.extensions, SpacesArgs::SpaceMembership { direct_messages, .. } if !direct_messages.is_empty()))
                    .collect();
                let direct_messages = match dms {
                    DmSel::Empty => vec![],
                    DmSel::Replay(i) | DmSel::ReplayToReceiver(i) if !existing.is_empty() => {
                        let SpacesArgs::SpaceMembership { direct_messages, .. } =
                            existing[idx(*i, existing.len())].borrow() as &Args
                        else {
                            unreachable!()
                        };
                        let mut list = direct_messages.clone();
                        if matches!(dms, DmSel::ReplayToReceiver(_)) {
                            for dm in &mut list {
                                dm.recipient = w.id_of(receiver);
                            }
                        }
                        list
                    }
                    _ => vec![],
                };
                (
                    if *auth_wrong_kind { "membership_wrong_auth_kind" } else { "membership" },
                    SpacesArgs::SpaceMembership {
                        space_id,
                        group_id: group_of(group),
                        space_dependencies: deps_of(deps, &heads),
                        auth_message_id,
                        direct_messages,
                    },
                )
            }
            Adv::SpaceUpdate { space, group, deps } => {
                let space_id = space_of(space);
                let heads = space_heads.get(&space_id).cloned().unwrap_or_default();
                (
                    "space_update",
                    SpacesArgs::SpaceUpdate {
                        space_id,
                        group_id: group_of(group),
                        space_dependencies: deps_of(deps, &heads),
                    },
                )
            }
            Adv::PointerToPromotion { .. } => unreachable!("handled above"),
            Adv::Application {
                space,
                deps,
                known_secret: use_known,
                len,
                fill,
            } => {
                let space_id = space_of(space);
                let heads = space_heads.get(&space_id).cloned().unwrap_or_default();
                let group_secret_id = match (use_known, known_secret) {
                    (true, Some(id)) => id,
                    _ => seed32(case.seed, 0x5ec0 + k as u64),
                };
                let mut nonce = [0u8; 24];
                nonce.copy_from_slice(&seed32(case.seed, 0x0ce0 + k as u64)[..24]);
                (
                    "application",
                    SpacesArgs::Application {
                        space_id,
                        space_dependencies: deps_of(deps, &heads),
                        group_secret_id,
                        nonce,
                        ciphertext: vec![*fill; *len as usize],
                    },
                )
            }
        };
        classes.insert(class);
        if !author_is_peer {
            classes.insert("signed_by_stranger");
        }

        let op = forge(&key, 100_000 + k as u32, args);
        let what = World::describe(&op);
        if matches!(op.borrow() as &Args, SpacesArgs::Auth { .. }) {
            adversarial_auth.push(op.hash);
        }
        w.persist(receiver, &op);
        match w.process(receiver, &op) {
            Outcome::Panic(m) => {
                if AUTH_PANICS.contains(&m.as_str()) && open.f {
                    // The receiver may be left mid-transaction: nothing more is asserted.
                    return Ok(CaseOk::nontrivial(true).label("known_k_c39f").excluded());
                }
                return Err(format!(
                    "processing forged message #{k} ({what}, class {class}, signed by {}) panicked at peer {receiver}: {m}{}",
                    if author_is_peer { format!("peer {author}") } else { "a stranger".into() },
                    if AUTH_PANICS.contains(&m.as_str()) { " [signature K-C39f]" } else { "" }
                ));
            }
            Outcome::Err(_) => {
                classes.insert("forged_rejected");
            }
            Outcome::Ok(_) => {
                any_ok = true;
                classes.insert("forged_accepted");
                // Register it so that the second processing is checked like for any other message.
                let i = w.log.len();
                let deps = (op.borrow() as &Args).dependencies();
                w.index.insert(op.hash, i);
                w.log.push(Rec {
                    op: op.clone(),
                    author: if author_is_peer { author } else { usize::MAX },
                    deps,
                    prev: None,
                });
                w.first[receiver].insert(i, true);
                w.first_at[receiver].insert(i, w.calls[receiver]);
                w.redelivery(receiver, i)?;
            }
        }
    }

    let mut ok = CaseOk::nontrivial(true);
    for c in classes {
        ok = ok.label(c);
    }
    for l in &w.labels {
        if l.starts_with("known_") {
            ok = ok.label(l);
        }
    }
    if w.excluded {
        ok = ok.excluded();
    }
    Ok(ok.label_if(any_ok, "some_forged_message_accepted"))
}

pub fn run(mut ctx: Ctx) -> ! {
    ctx.assume(
        "first deliveries follow the declared dependencies() of each message plus the author's log order; a \
         message whose dependency failed at a peer is not handed to that peer (the manager expects \
         dependency-checked, partially ordered input)",
    );
    ctx.assume(
        "forged messages only name dependencies the receiver has already processed (no dangling dependency ids); \
         every other field is attacker-chosen",
    );
    ctx.assume(
        "state is observed through the persisted store (process_persisted, like the repository's tests); the \
         persisted key registry (identities and stored key bundles per member) is part of the compared state, \
         pre-key secrets are not",
    );
    ctx.assume("key bundle lifetimes and group secret timestamps use the wall clock inside the code under test; no oracle depends on them");

    let open = Open {
        e: ctx.is_open(KEY_E),
        f: ctx.is_open(KEY_F),
    };
    let max_steps = ctx.pick(15usize, 22usize);
    let histories = Part::new(
        "histories",
        "2-4 seeded TestPeers, key bundle exchange, create space + 3..=15(22) steps (create space/group, add/remove \
         members and sub-groups, publish, key bundle, repair, partial causal deliveries, re-deliveries, syncs), final \
         flush and a final sweep re-processing every successfully processed message at every peer. Non-trivial: a \
         re-delivery with at least one other message processed by that peer in between.",
        150,
        6000,
    )
    .min_nontrivial(0.5)
    .shrink_iters(60);
    ctx.run_prop(histories, || history_strategy(max_steps), |case| check_history(case, open));

    let max_rot_steps = ctx.pick(10usize, 16usize);
    let rotations = Part::new(
        "rotations",
        "2-3 seeded TestPeers, key bundle exchange, create space, one member publishes a second key bundle message \
         with a new pre-key (distinct valid bundle of the same identity, 30 days) + 4..=10(16) steps (mostly further \
         fresh key bundle messages, partial deliveries in log order, re-deliveries; a few space \
         add/remove/publish/unchanged key bundle), final flush and the final sweep re-processing every message at every peer. \
         Non-trivial: a key bundle message is processed again by a peer that has meanwhile processed a newer, \
         distinct key bundle of the same author.",
        60,
        3000,
    )
    .min_nontrivial(0.9)
    .shrink_iters(60);
    ctx.run_prop(rotations, || rotations_strategy(max_rot_steps), |case| check_history(case, open));

    let messages = Part::new(
        "messages",
        "fixed 3-peer world (group, space with sub-group, one application message) + 4..=8 forged messages per case \
         covering every SpacesArgs variant with generated field values, signed by a member or a stranger, processed \
         by a generated receiver inside catch_unwind; accepted ones are processed a second time.",
        300,
        15000,
    )
    .min_nontrivial(0.5)
    .shrink_iters(60);
    ctx.run_prop(messages, messages_strategy, |case| check_messages(case, open));

    // Probes of the open findings (only when listed): the fixed scenario must still fail with the
    // finding's signature when it is *not* tolerated.
    if open.e {
        let probe = History {
            n: 2,
            seed: 3,
            steps: vec![Step::Redeliver { to: 0, pick: 0 }],
            sweep: vec![],
        };
        match check_history(&probe, Open { e: false, f: true }) {
            Err(m) if m.contains("[signature K-C39e]") => ctx.known_finding(KEY_E, true, &m),
            Err(m) => ctx.known_finding(KEY_E, false, &format!("probe failed differently: {m}")),
            Ok(_) => ctx.known_finding(KEY_E, false, "probe passed"),
        }
    }
    if open.f {
        let probe = Messages {
            seed: 4,
            shape: 0,
            forged: vec![Forged {
                author: 0,
                receiver: 30000,
                adv: Adv::Auth {
                    group: IdSel::Unknown(99),
                    action: 1,
                    member: MemberSel::Peer(40000),
                    mistype: false,
                    access: 1,
                    deps: DepSel::Heads,
                },
            }],
        };
        match check_messages(&probe, Open { e: true, f: false }) {
            Err(m) if m.contains("[signature K-C39f]") => ctx.known_finding(KEY_F, true, &m),
            Err(m) => ctx.known_finding(KEY_F, false, &format!("probe failed differently: {m}")),
            Ok(_) => ctx.known_finding(KEY_F, false, "probe passed"),
        }
    }
    ctx.finish()
}
