pub mod c39;
