//! Checks of the spaces group: C39.
mod props;

fn main() {
    let ctx = engine::Ctx::from_args();
    match ctx.id.as_str() {
        "C39" => props::c39::run(ctx),
        other => engine::harness_error(&format!("property {other} is not served by verif-spaces")),
    }
}
