//! Schedule-driven execution of hand-polled actors (building block B6).
//!
//! Actors are [`Stepper`]s. The code under test contains `gate(name).await` schedule points
//! (compiled in under the verification cfg) which return `Pending` once *without* waking and
//! record their name in a thread-local the harness reads through `take_gate`. An actor is
//! *runnable* when it was never polled, is parked at a gate, or its waker fired; otherwise it is
//! *blocked* on something another actor must do. The generated schedule picks among runnable
//! actors, so interleavings are data (seedable, shrinkable, replayable), not timing.

use crate::stepper::Stepper;

#[derive(Clone, Copy, Debug, PartialEq, Eq)]
pub enum ActorState {
    NotStarted,
    AtGate(&'static str),
    /// Pending, waker fired since: would be polled again by any executor.
    Woken,
    /// Pending, no wake: blocked on another actor.
    Blocked,
    Done,
}

pub struct Actor<'a, T> {
    pub stepper: Stepper<'a, T>,
    pub state: ActorState,
    pub name: String,
}

impl<'a, T> Actor<'a, T> {
    pub fn new(name: impl Into<String>, fut: impl std::future::Future<Output = T> + 'a) -> Self {
        Self {
            stepper: Stepper::new(fut),
            state: ActorState::NotStarted,
            name: name.into(),
        }
    }

    pub fn runnable(&mut self) -> bool {
        self.refresh();
        matches!(self.state, ActorState::NotStarted | ActorState::AtGate(_) | ActorState::Woken)
    }

    /// Re-evaluates `Blocked` -> `Woken` when the waker fired in the meantime.
    pub fn refresh(&mut self) {
        if self.state == ActorState::Blocked && self.stepper.woken() {
            self.state = ActorState::Woken;
        }
    }

    /// Polls the actor once and classifies the outcome. `take_gate` reads (and clears) the
    /// thread-local "last gate" cell of the hooked crate.
    pub fn step(&mut self, take_gate: &dyn Fn() -> Option<&'static str>) -> ActorState {
        let _ = take_gate(); // clear stale value
        let done = self.stepper.step();
        self.state = if done {
            ActorState::Done
        } else if let Some(g) = take_gate() {
            ActorState::AtGate(g)
        } else if self.stepper.woken() {
            ActorState::Woken
        } else {
            ActorState::Blocked
        };
        self.state
    }

    pub fn is_done(&self) -> bool {
        self.state == ActorState::Done
    }
}
