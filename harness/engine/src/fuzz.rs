//! Coverage-guided fuzzing parts (cargo-fuzz / libFuzzer, crate `/verif/fuzz`).
//!
//! The semantic oracle lives in a plain function shared (via `#[path]`) between the libFuzzer
//! target and the harness binary. Every tier re-checks the committed corpus and all saved crash
//! inputs through that function in-process (regression tier); the thorough tier additionally
//! rebuilds the target and runs a time-boxed libFuzzer campaign. A crash input is copied to
//! `/verif/replays/<id>/` and becomes the replay file; a budget hit means "explored, nothing
//! found", never a violation.

use std::collections::HashSet;
use std::path::{Path, PathBuf};
use std::process::Command;

use serde_json::json;

use crate::{Ctx, no_panic};

pub struct FuzzSpec {
    pub target: &'static str,
    pub rule: &'static str,
    pub thorough_secs: u64,
}

fn hash_bytes(b: &[u8]) -> u64 {
    use std::hash::{Hash, Hasher};
    let mut h = std::collections::hash_map::DefaultHasher::new();
    b.hash(&mut h);
    h.finish()
}

fn files_in(dir: &Path) -> Vec<PathBuf> {
    let mut v: Vec<PathBuf> = std::fs::read_dir(dir)
        .map(|rd| rd.filter_map(|e| e.ok()).map(|e| e.path()).filter(|p| p.is_file()).collect())
        .unwrap_or_default();
    v.sort();
    v
}

impl Ctx {
    /// Is the `--replay` argument a raw fuzz input (anything but `.json`)?
    pub fn replay_is_raw(&self) -> bool {
        self.replay
            .as_ref()
            .map(|p| p.extension().and_then(|e| e.to_str()) != Some("json"))
            .unwrap_or(false)
    }

    pub fn run_fuzz(&mut self, spec: FuzzSpec, oracle: impl Fn(&[u8]) -> Result<bool, String>) {
        let part = format!("fuzz_{}", spec.target);
        if !self.part_selected(&part) {
            return;
        }
        let run = |bytes: &[u8]| -> Result<bool, String> {
            match no_panic("oracle", || oracle(bytes)) {
                Ok(r) => r,
                Err(p) => Err(p),
            }
        };

        // --replay <raw file>
        if let Some(path) = self.replay.clone() {
            if !self.replay_is_raw() {
                return;
            }
            let Ok(bytes) = std::fs::read(&path) else {
                crate::harness_error(&format!("cannot read replay file {}", path.display()));
            };
            match run(&bytes) {
                Ok(_) => println!("replay ok: {}", path.display()),
                Err(msg) => self.external_violation(&part, &msg, &path),
            }
            self.record_external(&part, spec.rule, 1, 0, vec![], json!({"mode": "replay"}));
            return;
        }

        // Regression tier: committed corpus + saved crash inputs.
        let corpus_dir = self.verif_dir.join("fuzz").join("corpus").join(spec.target);
        let mut inputs = files_in(&corpus_dir);
        let replay_dir = self.verif_dir.join("replays").join(&self.id);
        inputs.extend(
            files_in(&replay_dir)
                .into_iter()
                .filter(|p| p.extension().and_then(|e| e.to_str()) == Some("bin")),
        );
        let mut evaluations = 0u64;
        let mut distinct: HashSet<u64> = HashSet::new();
        let mut samples = Vec::new();
        for path in &inputs {
            let Ok(bytes) = std::fs::read(path) else { continue };
            evaluations += 1;
            match run(&bytes) {
                Ok(nontrivial) => {
                    if nontrivial && distinct.insert(hash_bytes(&bytes)) && samples.len() < 3 {
                        samples.push(json!({"file": path.file_name().map(|f| f.to_string_lossy().to_string()), "hex": hex_prefix(&bytes)}));
                    }
                }
                Err(msg) => self.external_violation(&part, &msg, path),
            }
        }
        let mut extra = json!({"corpus_files": inputs.len(), "campaign": "not run in this tier"});

        if self.is_thorough() && spec.thorough_secs > 0 {
            let fuzz_dir = self.verif_dir.join("fuzz");
            let status = Command::new(fuzz_dir.join("build.sh")).arg(spec.target).status();
            if !matches!(status, Ok(s) if s.success()) {
                crate::harness_error(&format!("fuzz target {} does not build", spec.target));
            }
            let target_dir = std::env::var("VERIF_FUZZ_TARGET_DIR")
                .map(PathBuf::from)
                .unwrap_or_else(|_| fuzz_dir.join("target"));
            let bin = target_dir.join("x86_64-unknown-linux-gnu").join("release").join(spec.target);
            let work = self.tmp_dir().join(format!("fuzz-{}", spec.target));
            let artifacts = work.join("artifacts");
            let corpus_work = work.join("corpus");
            std::fs::remove_dir_all(&work).ok();
            std::fs::create_dir_all(&artifacts).ok();
            std::fs::create_dir_all(&corpus_work).ok();
            std::fs::create_dir_all(&corpus_dir).ok();
            let seed = (self.seed % 0x7fff_fffe) + 1;
            let out = Command::new(&bin)
                .arg(&corpus_work)
                .arg(&corpus_dir)
                .arg(format!("-max_total_time={}", spec.thorough_secs))
                .arg(format!("-seed={seed}"))
                .arg("-len_control=0")
                .arg("-max_len=4096")
                .arg("-timeout=60")
                .arg("-print_final_stats=1")
                .arg(format!("-artifact_prefix={}/", artifacts.display()))
                .output();
            let Ok(out) = out else {
                crate::harness_error(&format!("cannot run fuzz binary {}", bin.display()));
            };
            let log = String::from_utf8_lossy(&out.stderr).to_string();
            let stat = |key: &str| -> u64 {
                log.lines()
                    .rev()
                    .find_map(|l| l.strip_prefix(&format!("stat::{key}:")).and_then(|v| v.trim().parse().ok()))
                    .unwrap_or(0)
            };
            let execs = stat("number_of_executed_units");
            let new_units = stat("new_units_added");
            evaluations += execs;
            // New corpus entries found by the campaign count as distinct inputs; classify them.
            for path in files_in(&corpus_work) {
                if let Ok(bytes) = std::fs::read(&path) {
                    if let Ok(true) = run(&bytes) {
                        if distinct.insert(hash_bytes(&bytes)) && samples.len() < 5 {
                            samples.push(json!({"file": "campaign", "hex": hex_prefix(&bytes)}));
                        }
                    }
                }
            }
            let crashes: Vec<PathBuf> = files_in(&artifacts);
            for c in &crashes {
                let name = c.file_name().unwrap().to_string_lossy().to_string();
                let Ok(bytes) = std::fs::read(c) else { continue };
                if name.starts_with("crash-") {
                    std::fs::create_dir_all(&replay_dir).ok();
                    let dest = replay_dir.join(format!("fuzz-{}-{:016x}.bin", spec.target, hash_bytes(&bytes)));
                    std::fs::write(&dest, &bytes).ok();
                    let msg = match run(&bytes) {
                        Err(m) => m,
                        Ok(_) => format!(
                            "libFuzzer target {} crashed on this input (oracle passes in-process; see campaign log): {}",
                            spec.target,
                            log.lines().rev().find(|l| l.contains("ORACLE") || l.contains("panicked")).unwrap_or("")
                        ),
                    };
                    self.external_violation(&part, &msg, &dest);
                } else {
                    println!("note: fuzz campaign of {} left {} (timeout/oom are inconclusive, not violations)", spec.target, name);
                }
            }
            extra = json!({
                "corpus_files": inputs.len(),
                "campaign": {
                    "seconds": spec.thorough_secs,
                    "libfuzzer_seed": seed,
                    "executions": execs,
                    "new_units": new_units,
                    "crash_artifacts": crashes.len(),
                    "exit_code": out.status.code(),
                }
            });
            std::fs::remove_dir_all(&work).ok();
        }
        self.record_external(&part, spec.rule, evaluations, distinct.len() as u64, samples, extra);
    }
}

fn hex_prefix(b: &[u8]) -> String {
    let n = b.len().min(96);
    let mut s: String = b[..n].iter().map(|x| format!("{x:02x}")).collect();
    if b.len() > n {
        s.push_str("..");
    }
    s
}
