//! Hand-driven futures (building block B5): a pinned future plus a counting waker.
//!
//! `step()` polls exactly once. `woken()` tells whether the waker fired since the last poll, i.e.
//! whether a specification-compliant executor would poll again. Dropping the stepper cancels the
//! future at the await point it is suspended at.

use std::future::Future;
use std::pin::Pin;
use std::sync::Arc;
use std::sync::atomic::{AtomicU64, Ordering};
use std::task::{Context, Poll, Wake, Waker};

#[derive(Default)]
pub struct CountingWaker {
    wakes: AtomicU64,
}

impl CountingWaker {
    pub fn count(&self) -> u64 {
        self.wakes.load(Ordering::SeqCst)
    }
}

impl Wake for CountingWaker {
    fn wake(self: Arc<Self>) {
        self.wakes.fetch_add(1, Ordering::SeqCst);
    }

    fn wake_by_ref(self: &Arc<Self>) {
        self.wakes.fetch_add(1, Ordering::SeqCst);
    }
}

pub struct Stepper<'a, T> {
    fut: Option<Pin<Box<dyn Future<Output = T> + 'a>>>,
    counter: Arc<CountingWaker>,
    waker: Waker,
    seen_wakes: u64,
    polls: u64,
    output: Option<T>,
}

impl<'a, T> Stepper<'a, T> {
    pub fn new(fut: impl Future<Output = T> + 'a) -> Self {
        let counter = Arc::new(CountingWaker::default());
        let waker = Waker::from(counter.clone());
        Self {
            fut: Some(Box::pin(fut)),
            counter,
            waker,
            seen_wakes: 0,
            polls: 0,
            output: None,
        }
    }

    /// Polls once. Returns `true` when the future has completed (now or earlier).
    pub fn step(&mut self) -> bool {
        let Some(fut) = self.fut.as_mut() else {
            return true;
        };
        self.seen_wakes = self.counter.count();
        self.polls += 1;
        let mut cx = Context::from_waker(&self.waker);
        match fut.as_mut().poll(&mut cx) {
            Poll::Ready(v) => {
                self.output = Some(v);
                self.fut = None;
                true
            }
            Poll::Pending => false,
        }
    }

    /// Did the waker fire since the last `step()`?
    pub fn woken(&self) -> bool {
        self.counter.count() > self.seen_wakes
    }

    pub fn is_done(&self) -> bool {
        self.fut.is_none()
    }

    pub fn polls(&self) -> u64 {
        self.polls
    }

    pub fn wake_count(&self) -> u64 {
        self.counter.count()
    }

    pub fn output(&self) -> Option<&T> {
        self.output.as_ref()
    }

    pub fn take_output(&mut self) -> Option<T> {
        self.output.take()
    }

    /// Cancels the future (drops it at its current await point).
    pub fn cancel(&mut self) {
        self.fut = None;
    }
}
