//! Shared engine of the p2panda verification harness.
//!
//! A check is a binary that builds a [`Ctx`] from its command line, calls [`Ctx::run_prop`] /
//! [`Ctx::run_exhaustive`] for each of its parts and ends with [`Ctx::finish`]. The engine owns
//! generation (proptest value trees driven by a fixed seed), shrinking, replay files, evidence,
//! the known-findings file and the exit-code contract:
//!
//! * exit 0 – property held on everything explored (KNOWN-FINDING lines may have been printed)
//! * exit 1 – `VIOLATION property=<id> replay=<path>` was printed
//! * exit 2 – harness problem / inconclusive (watchdog, vacuous generator, bad arguments)

use std::collections::{BTreeMap, HashSet};
use std::fmt::Debug;
use std::hash::{Hash, Hasher};
use std::panic::{AssertUnwindSafe, catch_unwind};
use std::path::{Path, PathBuf};
use std::sync::Mutex;
use std::sync::atomic::{AtomicBool, AtomicU64, Ordering};
use std::time::{Duration, Instant};

use proptest::strategy::{Strategy, ValueTree};
use proptest::test_runner::{Config, RngAlgorithm, TestRng, TestRunner};
use serde::Serialize;
use serde::de::DeserializeOwned;
use serde_json::{Value, json};

pub mod fuzz;
pub mod sched;
pub mod stepper;
pub use proptest;
pub use serde;
pub use serde_json;

#[derive(Clone, Copy, Debug, PartialEq, Eq)]
pub enum Tier {
    Quick,
    Thorough,
}

impl Tier {
    pub fn as_str(&self) -> &'static str {
        match self {
            Tier::Quick => "quick",
            Tier::Thorough => "thorough",
        }
    }
}

/// Outcome of one passing case.
#[derive(Clone, Debug, Default)]
pub struct CaseOk {
    /// Case is non-trivial by the part's stated rule.
    pub nontrivial: bool,
    /// Classification labels (distribution is written to the evidence).
    pub labels: Vec<&'static str>,
    /// Case matched the signature of an open known finding and was therefore not asserted.
    pub excluded_known: bool,
}

impl CaseOk {
    pub fn trivial() -> Self {
        Self::default()
    }

    pub fn nontrivial(nontrivial: bool) -> Self {
        Self {
            nontrivial,
            ..Self::default()
        }
    }

    pub fn label(mut self, label: &'static str) -> Self {
        self.labels.push(label);
        self
    }

    pub fn label_if(mut self, cond: bool, label: &'static str) -> Self {
        if cond {
            self.labels.push(label);
        }
        self
    }

    pub fn excluded(mut self) -> Self {
        self.excluded_known = true;
        self
    }
}

pub type CaseResult = Result<CaseOk, String>;

/// Shorthand used by oracles: `ensure!(cond, "message {}", x)` returns `Err(String)`.
#[macro_export]
macro_rules! ensure {
    ($cond:expr, $($arg:tt)+) => {
        if !($cond) {
            return Err(format!($($arg)+));
        }
    };
}

#[macro_export]
macro_rules! ensure_eq {
    ($a:expr, $b:expr, $($arg:tt)+) => {{
        let (a, b) = (&$a, &$b);
        if a != b {
            return Err(format!("{}: left={:?} right={:?}", format!($($arg)+), a, b));
        }
    }};
}

#[derive(Clone, Debug)]
pub struct OpenFinding {
    pub property: String,
    pub key: String,
    pub what: String,
}

/// Options of one generated part.
#[derive(Clone, Debug)]
pub struct Part {
    pub name: &'static str,
    /// What is generated and what makes a case non-trivial (goes into the evidence `rule`).
    pub rule: &'static str,
    pub quick_cases: u32,
    pub thorough_cases: u32,
    /// Minimum fraction of non-trivial cases; falling below is a harness error (exit 2).
    pub min_nontrivial: f64,
    /// Upper bound for shrink iterations.
    pub max_shrink_iters: u32,
    /// Worker threads (each with its own derived seed).
    pub quick_workers: u32,
    pub thorough_workers: u32,
}

impl Part {
    pub fn new(name: &'static str, rule: &'static str, quick_cases: u32, thorough_cases: u32) -> Self {
        Self {
            name,
            rule,
            quick_cases,
            thorough_cases,
            min_nontrivial: 0.02,
            max_shrink_iters: 600,
            quick_workers: 4,
            thorough_workers: 16,
        }
    }

    pub fn min_nontrivial(mut self, ratio: f64) -> Self {
        self.min_nontrivial = ratio;
        self
    }

    pub fn workers(mut self, quick: u32, thorough: u32) -> Self {
        self.quick_workers = quick.max(1);
        self.thorough_workers = thorough.max(1);
        self
    }

    pub fn shrink_iters(mut self, n: u32) -> Self {
        self.max_shrink_iters = n;
        self
    }
}

#[derive(Default)]
struct PartStats {
    evaluations: u64,
    nontrivial: u64,
    distinct: HashSet<u64>,
    labels: BTreeMap<&'static str, u64>,
    excluded_known: u64,
    samples: Vec<Value>,
}

struct PartReport {
    name: String,
    rule: String,
    evaluations: u64,
    nontrivial: u64,
    distinct_nontrivial: u64,
    labels: BTreeMap<String, u64>,
    excluded_known: u64,
    samples: Vec<Value>,
    exhaustive: bool,
    workers: u32,
    seeds: Vec<u64>,
    replays_run: u64,
    extra: Value,
}

pub struct Ctx {
    pub id: String,
    pub tier: Tier,
    pub seed: u64,
    pub replay: Option<PathBuf>,
    pub verif_dir: PathBuf,
    open: Vec<OpenFinding>,
    parts: Vec<PartReport>,
    assumptions: Vec<String>,
    violations: u32,
    start: Instant,
    known_printed: HashSet<String>,
    only_part: Option<String>,
}

fn fnv64(s: &str) -> u64 {
    let mut h = std::collections::hash_map::DefaultHasher::new();
    s.hash(&mut h);
    h.finish()
}

fn truncate_value(v: Value) -> Value {
    let s = v.to_string();
    if s.len() > 3000 {
        let mut end = 3000;
        while !s.is_char_boundary(end) {
            end -= 1;
        }
        Value::String(format!("{}…(truncated, {} bytes)", &s[..end], s.len()))
    } else {
        v
    }
}

fn rng_for(seed: u64) -> TestRng {
    let mut bytes = [0u8; 32];
    // Spread the 64-bit seed over the ChaCha key with a splitmix sequence.
    let mut x = seed;
    for chunk in bytes.chunks_mut(8) {
        x = x.wrapping_add(0x9E37_79B9_7F4A_7C15);
        let mut z = x;
        z = (z ^ (z >> 30)).wrapping_mul(0xBF58_476D_1CE4_E5B9);
        z = (z ^ (z >> 27)).wrapping_mul(0x94D0_49BB_1331_11EB);
        z ^= z >> 31;
        chunk.copy_from_slice(&z.to_le_bytes());
    }
    TestRng::from_seed(RngAlgorithm::ChaCha, &bytes)
}

pub fn runner_for(seed: u64) -> TestRunner {
    let config = Config {
        failure_persistence: None,
        ..Config::default()
    };
    TestRunner::new_with_rng(config, rng_for(seed))
}

fn panic_message(e: Box<dyn std::any::Any + Send>) -> String {
    if let Some(s) = e.downcast_ref::<&str>() {
        format!("panic: {s}")
    } else if let Some(s) = e.downcast_ref::<String>() {
        format!("panic: {s}")
    } else {
        "panic: <non-string payload>".to_string()
    }
}

static QUIET_PANICS: AtomicBool = AtomicBool::new(false);

/// Panics inside checked code are turned into failures by `catch_unwind`; silence the default
/// hook's backtrace spam (the message is part of the failure report anyway).
pub fn quiet_panics() {
    if !QUIET_PANICS.swap(true, Ordering::SeqCst) {
        let verbose = std::env::var("VERIF_VERBOSE_PANICS").is_ok();
        std::panic::set_hook(Box::new(move |info| {
            if verbose {
                eprintln!("[panic] {info}");
            }
        }));
    }
}

/// Runs `f`, converting a panic into `Err("panic: …")`.
pub fn no_panic<T>(what: &str, f: impl FnOnce() -> T) -> Result<T, String> {
    catch_unwind(AssertUnwindSafe(f)).map_err(|e| format!("{what}: {}", panic_message(e)))
}

/// Failures caused by the environment (resource exhaustion) are never violations.
const ENVIRONMENT_ERRORS: [&str; 5] = [
    "Too many open files",
    "os error 24",
    "Cannot allocate memory",
    "No space left on device",
    "Resource temporarily unavailable",
];

fn run_case<T>(check: &(impl Fn(&T) -> CaseResult + ?Sized), value: &T) -> CaseResult {
    let result = match catch_unwind(AssertUnwindSafe(|| check(value))) {
        Ok(r) => r,
        Err(e) => Err(panic_message(e)),
    };
    if let Err(msg) = &result {
        if ENVIRONMENT_ERRORS.iter().any(|p| msg.contains(p)) {
            println!("INCONCLUSIVE: environment error inside a case: {msg}");
            std::process::exit(if VIOLATION_PRINTED.load(Ordering::SeqCst) { 1 } else { 2 });
        }
    }
    result
}

impl Ctx {
    /// Parses `<ID> [--tier quick|thorough] [--replay PATH] [--seed N] [--part NAME]`.
    pub fn from_args() -> Ctx {
        quiet_panics();
        let args: Vec<String> = std::env::args().skip(1).collect();
        let mut id = None;
        let mut tier = match std::env::var("VERIF_TIER").ok().as_deref() {
            Some("thorough") => Tier::Thorough,
            _ => Tier::Quick,
        };
        let mut seed: u64 = std::env::var("VERIF_SEED")
            .ok()
            .and_then(|s| s.trim().parse::<i128>().ok())
            .map(|v| v as u64)
            .unwrap_or(20260921);
        let mut replay = None;
        let mut only_part = None;
        let mut i = 0;
        while i < args.len() {
            match args[i].as_str() {
                "--tier" => {
                    i += 1;
                    tier = match args.get(i).map(|s| s.as_str()) {
                        Some("quick") => Tier::Quick,
                        Some("thorough") => Tier::Thorough,
                        other => harness_error(&format!("bad --tier {other:?}")),
                    };
                }
                "--seed" => {
                    i += 1;
                    seed = args
                        .get(i)
                        .and_then(|s| s.parse::<i128>().ok())
                        .map(|v| v as u64)
                        .unwrap_or_else(|| harness_error("bad --seed"));
                }
                "--replay" => {
                    i += 1;
                    replay = Some(PathBuf::from(
                        args.get(i).unwrap_or_else(|| harness_error("missing --replay path")),
                    ));
                }
                "--part" => {
                    i += 1;
                    only_part = args.get(i).cloned();
                }
                other if id.is_none() && !other.starts_with("--") => id = Some(other.to_string()),
                other => harness_error(&format!("unknown argument {other}")),
            }
            i += 1;
        }
        let id = id.unwrap_or_else(|| harness_error("missing property id"));
        let verif_dir = PathBuf::from(std::env::var("VERIF_DIR").unwrap_or_else(|_| "/verif".into()));
        let open = load_open_findings(&verif_dir.join("known_findings.txt"), &id);
        Ctx {
            id,
            tier,
            seed,
            replay,
            verif_dir,
            open,
            parts: Vec::new(),
            assumptions: Vec::new(),
            violations: 0,
            start: Instant::now(),
            known_printed: HashSet::new(),
            only_part,
        }
    }

    pub fn is_thorough(&self) -> bool {
        self.tier == Tier::Thorough
    }

    /// Picks a size parameter by tier.
    pub fn pick<T>(&self, quick: T, thorough: T) -> T {
        match self.tier {
            Tier::Quick => quick,
            Tier::Thorough => thorough,
        }
    }

    pub fn assume(&mut self, text: &str) {
        self.assumptions.push(text.to_string());
    }

    /// Is the known finding `key` listed as open for this property?
    pub fn is_open(&self, key: &str) -> bool {
        self.open.iter().any(|f| f.key == key)
    }

    /// Scratch directory for file-backed fixtures (removed by the caller per case).
    pub fn tmp_dir(&self) -> PathBuf {
        let base = std::env::var("VERIF_TMP")
            .map(PathBuf::from)
            .unwrap_or_else(|_| self.verif_dir.join("target").join("tmp"));
        let dir = base.join(format!("{}-{}", self.id, std::process::id()));
        std::fs::create_dir_all(&dir).ok();
        dir
    }

    /// Prints the `KNOWN-FINDING` line for an open entry. `demonstrated` says whether the probe
    /// of this run reproduced it (a finding that no longer reproduces is only noted).
    pub fn known_finding(&mut self, key: &str, demonstrated: bool, detail: &str) {
        if let Some(f) = self.open.iter().find(|f| f.key == key) {
            if self.known_printed.insert(key.to_string()) {
                println!(
                    "KNOWN-FINDING: property={} {} {}{}",
                    self.id,
                    f.key,
                    f.what,
                    if demonstrated {
                        format!(" [reproduced by probe: {detail}]")
                    } else {
                        format!(" [probe did not reproduce it on this tree: {detail}]")
                    }
                );
            }
        }
    }

    fn replay_dir(&self) -> PathBuf {
        self.verif_dir.join("replays").join(&self.id)
    }

    fn part_selected(&self, name: &str) -> bool {
        self.only_part.as_deref().map(|p| p == name).unwrap_or(true)
    }

    /// Loads replay cases for `part`: the explicit `--replay` file (if it belongs to this part) or,
    /// without `--replay`, every committed replay of this property and part.
    fn replay_cases(&self, part: &str) -> Vec<(PathBuf, Value)> {
        let mut out = Vec::new();
        let mut consider = |path: &Path| {
            if path.extension().and_then(|e| e.to_str()) != Some("json") {
                return;
            }
            let Ok(text) = std::fs::read_to_string(path) else {
                return;
            };
            let Ok(v) = serde_json::from_str::<Value>(&text) else {
                return;
            };
            if v.get("part").and_then(|p| p.as_str()) == Some(part)
                && v.get("property").and_then(|p| p.as_str()) == Some(self.id.as_str())
            {
                if let Some(case) = v.get("case") {
                    out.push((path.to_path_buf(), case.clone()));
                }
            }
        };
        if let Some(p) = &self.replay {
            consider(p);
        } else if let Ok(rd) = std::fs::read_dir(self.replay_dir()) {
            let mut paths: Vec<_> = rd.filter_map(|e| e.ok()).map(|e| e.path()).collect();
            paths.sort();
            for p in paths {
                consider(&p);
            }
        }
        out
    }

    fn report_violation(&mut self, part: &str, case: Value, message: &str, seed: u64, existing: Option<&Path>) {
        self.violations += 1;
        let path = match existing {
            Some(p) => p.to_path_buf(),
            None => {
                let body = json!({
                    "property": self.id,
                    "part": part,
                    "seed": seed,
                    "tier": self.tier.as_str(),
                    "message": message,
                    "case": case,
                });
                let text = serde_json::to_string_pretty(&body).unwrap();
                let dir = self.replay_dir();
                std::fs::create_dir_all(&dir).ok();
                let name = format!("{}-{:016x}.json", part, fnv64(&case.to_string()));
                let path = dir.join(name);
                std::fs::write(&path, text).ok();
                path
            }
        };
        println!("--- violation in {} part {}: {}", self.id, part, message);
        println!("VIOLATION property={} replay={}", self.id, path.display());
        VIOLATION_PRINTED.store(true, Ordering::SeqCst);
    }

    /// Generated part. `strategy` is a factory so that every worker thread builds its own.
    pub fn run_prop<S, F>(&mut self, part: Part, strategy: impl Fn() -> S + Sync, check: F)
    where
        S: Strategy,
        S::Value: Debug + Serialize + DeserializeOwned,
        F: Fn(&S::Value) -> CaseResult + Sync,
    {
        if !self.part_selected(part.name) {
            return;
        }
        // 1. Replays (regression tier): run without the generator.
        let mut replays_run = 0u64;
        for (path, case) in self.replay_cases(part.name) {
            match serde_json::from_value::<S::Value>(case.clone()) {
                Ok(value) => {
                    replays_run += 1;
                    match run_case(&check, &value) {
                        Ok(_) => println!("replay ok: {}", path.display()),
                        Err(msg) => {
                            self.report_violation(part.name, case, &msg, self.seed, Some(&path));
                        }
                    }
                }
                Err(e) => {
                    if self.replay.is_some() {
                        harness_error(&format!("replay file {} does not decode: {e}", path.display()));
                    } else {
                        eprintln!("note: stale replay {} ignored ({e})", path.display());
                    }
                }
            }
        }
        if self.replay.is_some() {
            self.parts.push(PartReport {
                name: part.name.to_string(),
                rule: part.rule.to_string(),
                evaluations: replays_run,
                nontrivial: 0,
                distinct_nontrivial: 0,
                labels: BTreeMap::new(),
                excluded_known: 0,
                samples: vec![],
                exhaustive: false,
                workers: 1,
                seeds: vec![],
                replays_run,
                extra: Value::Null,
            });
            return;
        }

        // 2. Generation.
        let cases = self.pick(part.quick_cases, part.thorough_cases) as u64;
        let workers = self.pick(part.quick_workers, part.thorough_workers).min(cases.max(1) as u32).max(1);
        let stats = Mutex::new(PartStats::default());
        let failure: Mutex<Option<(Value, String, u64)>> = Mutex::new(None);
        let stop = AtomicBool::new(false);
        let part_seed = self.seed ^ fnv64(&format!("{}/{}", self.id, part.name));
        let seeds: Vec<u64> = (0..workers as u64)
            .map(|w| part_seed ^ w.wrapping_mul(0x9E37_79B9_7F4A_7C15))
            .collect();
        let next = AtomicU64::new(0);
        std::thread::scope(|scope| {
            for w in 0..workers as usize {
                let seeds = &seeds;
                let stats = &stats;
                let failure = &failure;
                let stop = &stop;
                let check = &check;
                let strategy = &strategy;
                let part = &part;
                let next = &next;
                // Cases are dealt to workers in fixed blocks so that a run is a function of
                // (seed, tier) and not of thread timing.
                let quota = cases / workers as u64 + if (w as u64) < cases % workers as u64 { 1 } else { 0 };
                std::thread::Builder::new()
                    .name(format!("verif-w{w}"))
                    .stack_size(64 << 20)
                    .spawn_scoped(scope, move || {
                        let mut runner = runner_for(seeds[w]);
                        let strat = strategy();
                        let mut local = PartStats::default();
                        for _ in 0..quota {
                            if stop.load(Ordering::SeqCst) {
                                break;
                            }
                            next.fetch_add(1, Ordering::Relaxed);
                            let mut tree = match strat.new_tree(&mut runner) {
                                Ok(t) => t,
                                Err(e) => harness_error(&format!("generator rejected: {e}")),
                            };
                            let value = tree.current();
                            local.evaluations += 1;
                            match run_case(check, &value) {
                                Ok(ok) => {
                                    for l in &ok.labels {
                                        *local.labels.entry(l).or_default() += 1;
                                    }
                                    if ok.excluded_known {
                                        local.excluded_known += 1;
                                    }
                                    if ok.nontrivial {
                                        local.nontrivial += 1;
                                        let js = serde_json::to_value(&value).unwrap_or(Value::Null);
                                        let fp = fnv64(&js.to_string());
                                        if local.distinct.insert(fp) && local.samples.len() < 2 {
                                            local.samples.push(truncate_value(js));
                                        }
                                    }
                                }
                                Err(first_msg) => {
                                    if stop.swap(true, Ordering::SeqCst) {
                                        break;
                                    }
                                    // Shrink.
                                    let mut best = (value, first_msg);
                                    let mut iters = 0;
                                    if tree.simplify() {
                                        loop {
                                            iters += 1;
                                            if iters > part.max_shrink_iters {
                                                break;
                                            }
                                            let cand = tree.current();
                                            match run_case(check, &cand) {
                                                Err(m) => {
                                                    best = (cand, m);
                                                    if !tree.simplify() {
                                                        break;
                                                    }
                                                }
                                                Ok(_) => {
                                                    if !tree.complicate() {
                                                        break;
                                                    }
                                                }
                                            }
                                        }
                                    }
                                    let js = serde_json::to_value(&best.0).unwrap_or(Value::Null);
                                    *failure.lock().unwrap() = Some((js, best.1, seeds[w]));
                                    break;
                                }
                            }
                        }
                        let mut g = stats.lock().unwrap();
                        g.evaluations += local.evaluations;
                        g.nontrivial += local.nontrivial;
                        g.excluded_known += local.excluded_known;
                        for (k, v) in local.labels {
                            *g.labels.entry(k).or_default() += v;
                        }
                        g.distinct.extend(local.distinct);
                        for s in local.samples {
                            if g.samples.len() < 4 {
                                g.samples.push(s);
                            }
                        }
                    })
                    .expect("spawn worker");
            }
        });
        let stats = stats.into_inner().unwrap();
        let failed = failure.into_inner().unwrap();
        if let Some((case, msg, seed)) = &failed {
            self.report_violation(part.name, case.clone(), msg, *seed, None);
        }
        let report = PartReport {
            name: part.name.to_string(),
            rule: part.rule.to_string(),
            evaluations: stats.evaluations,
            nontrivial: stats.nontrivial,
            distinct_nontrivial: stats.distinct.len() as u64,
            labels: stats.labels.iter().map(|(k, v)| (k.to_string(), *v)).collect(),
            excluded_known: stats.excluded_known,
            samples: stats.samples,
            exhaustive: false,
            workers,
            seeds,
            replays_run,
            extra: Value::Null,
        };
        if failed.is_none() && report.evaluations >= 50 {
            let ratio = report.nontrivial as f64 / report.evaluations as f64;
            if ratio < part.min_nontrivial {
                self.parts.push(report);
                self.write_evidence();
                harness_error(&format!(
                    "part {} is vacuous: non-trivial ratio {:.4} below floor {:.4}",
                    part.name, ratio, part.min_nontrivial
                ));
            }
        }
        self.parts.push(report);
    }

    /// Exhaustive part over a finite domain given as an iterator (single-threaded, deterministic).
    /// `nontrivial` classification comes from the check like in `run_prop`.
    pub fn run_exhaustive<T, I, F>(&mut self, name: &'static str, rule: &'static str, domain: I, check: F)
    where
        T: Debug + Serialize + DeserializeOwned,
        I: IntoIterator<Item = T>,
        F: Fn(&T) -> CaseResult,
    {
        if !self.part_selected(name) {
            return;
        }
        let mut replays_run = 0;
        for (path, case) in self.replay_cases(name) {
            if let Ok(value) = serde_json::from_value::<T>(case.clone()) {
                replays_run += 1;
                match run_case(&check, &value) {
                    Ok(_) => println!("replay ok: {}", path.display()),
                    Err(msg) => self.report_violation(name, case, &msg, self.seed, Some(&path)),
                }
            }
        }
        let mut stats = PartStats::default();
        let mut failed = false;
        if self.replay.is_none() {
            for value in domain {
                stats.evaluations += 1;
                match run_case(&check, &value) {
                    Ok(ok) => {
                        for l in &ok.labels {
                            *stats.labels.entry(l).or_default() += 1;
                        }
                        if ok.excluded_known {
                            stats.excluded_known += 1;
                        }
                        if ok.nontrivial {
                            stats.nontrivial += 1;
                            // Enumerated values are distinct by construction; fingerprint anyway
                            // (cheap) so that the number is measured, not assumed.
                            let js = serde_json::to_value(&value).unwrap_or(Value::Null);
                            if stats.distinct.insert(fnv64(&js.to_string())) && stats.samples.len() < 3 {
                                stats.samples.push(truncate_value(js));
                            }
                        }
                    }
                    Err(msg) => {
                        let js = serde_json::to_value(&value).unwrap_or(Value::Null);
                        self.report_violation(name, js, &msg, self.seed, None);
                        failed = true;
                        break;
                    }
                }
            }
        }
        self.parts.push(PartReport {
            name: name.to_string(),
            rule: rule.to_string(),
            evaluations: stats.evaluations,
            nontrivial: stats.nontrivial,
            distinct_nontrivial: stats.distinct.len() as u64,
            labels: stats.labels.iter().map(|(k, v)| (k.to_string(), *v)).collect(),
            excluded_known: stats.excluded_known,
            samples: stats.samples,
            exhaustive: !failed && self.replay.is_none(),
            workers: 1,
            seeds: vec![],
            replays_run,
            extra: Value::Null,
        });
    }

    /// Records a part whose exploration was done by an external engine (libFuzzer campaign).
    pub fn record_external(&mut self, name: &str, rule: &str, evaluations: u64, distinct_nontrivial: u64, samples: Vec<Value>, extra: Value) {
        self.parts.push(PartReport {
            name: name.to_string(),
            rule: rule.to_string(),
            evaluations,
            nontrivial: distinct_nontrivial,
            distinct_nontrivial,
            labels: BTreeMap::new(),
            excluded_known: 0,
            samples,
            exhaustive: false,
            workers: 1,
            seeds: vec![],
            replays_run: 0,
            extra,
        });
    }

    /// Reports a violation found outside `run_prop` (e.g. a fuzz crash input re-checked here).
    pub fn external_violation(&mut self, part: &str, message: &str, replay: &Path) {
        self.violations += 1;
        println!("--- violation in {} part {}: {}", self.id, part, message);
        println!("VIOLATION property={} replay={}", self.id, replay.display());
        VIOLATION_PRINTED.store(true, Ordering::SeqCst);
    }

    pub fn violations(&self) -> u32 {
        self.violations
    }

    fn write_evidence(&self) {
        let evaluations: u64 = self.parts.iter().map(|p| p.evaluations).sum();
        let distinct: u64 = self.parts.iter().map(|p| p.distinct_nontrivial).sum();
        let excluded: u64 = self.parts.iter().map(|p| p.excluded_known).sum();
        let mut labels: BTreeMap<String, u64> = BTreeMap::new();
        let mut samples = Vec::new();
        let mut rules = Vec::new();
        for p in &self.parts {
            for (k, v) in &p.labels {
                *labels.entry(format!("{}:{}", p.name, k)).or_default() += v;
            }
            for s in p.samples.iter().take(2) {
                samples.push(json!({"part": p.name, "case": s}));
            }
            rules.push(format!("[{}] {}", p.name, p.rule));
        }
        let all_exhaustive = !self.parts.is_empty() && self.parts.iter().all(|p| p.exhaustive);
        let parts: Vec<Value> = self
            .parts
            .iter()
            .map(|p| {
                json!({
                    "name": p.name,
                    "evaluations": p.evaluations,
                    "nontrivial": p.nontrivial,
                    "distinct_nontrivial": p.distinct_nontrivial,
                    "labels": p.labels,
                    "excluded_known": p.excluded_known,
                    "exhaustive": p.exhaustive,
                    "workers": p.workers,
                    "worker_seeds": p.seeds,
                    "replays_run": p.replays_run,
                    "extra": p.extra,
                })
            })
            .collect();
        let ev = json!({
            "property_id": self.id,
            "tier": self.tier.as_str(),
            "seed": self.seed as i64,
            "level": "exploration",
            "coverage": {
                "evaluations": evaluations,
                "distinct_nontrivial": distinct,
                "rule": rules.join(" | "),
                "samples": samples,
                "labels": labels,
                "excluded_known": excluded,
                "exhaustive": all_exhaustive,
                "parts": parts,
                "open_known_findings": self.open.iter().map(|f| f.key.clone()).collect::<Vec<_>>(),
                "mode": if self.replay.is_some() { "replay" } else { "generate" },
            },
            "assumptions": self.assumptions,
            "wall_s": self.start.elapsed().as_secs_f64(),
            "violations": self.violations,
        });
        // Replay runs do not overwrite the evidence of the last generating run.
        if self.replay.is_some() || self.only_part.is_some() {
            return;
        }
        let dir = self.verif_dir.join("evidence");
        std::fs::create_dir_all(&dir).ok();
        let path = dir.join(format!("{}.json", self.id));
        if let Err(e) = std::fs::write(&path, serde_json::to_string_pretty(&ev).unwrap()) {
            eprintln!("cannot write evidence {}: {e}", path.display());
        }
    }

    /// Writes the evidence file and exits with the contract's code.
    pub fn finish(mut self) -> ! {
        // Any open finding the check did not explicitly probe is still announced.
        let keys: Vec<String> = self.open.iter().map(|f| f.key.clone()).collect();
        for k in keys {
            if !self.known_printed.contains(&k) {
                self.known_finding(&k, false, "no probe ran");
            }
        }
        self.write_evidence();
        let evaluations: u64 = self.parts.iter().map(|p| p.evaluations).sum();
        let distinct: u64 = self.parts.iter().map(|p| p.distinct_nontrivial).sum();
        println!(
            "{} {}: {} evaluations, {} distinct non-trivial, {} violations, {:.1}s",
            self.id,
            self.tier.as_str(),
            evaluations,
            distinct,
            self.violations,
            self.start.elapsed().as_secs_f64()
        );
        std::process::exit(if self.violations > 0 { 1 } else { 0 });
    }
}

/// Prints a harness problem and exits 2 (never a violation).
pub fn harness_error(msg: &str) -> ! {
    println!("HARNESS-ERROR: {msg}");
    eprintln!("HARNESS-ERROR: {msg}");
    std::process::exit(2);
}

/// Backstop for checks that use real worker threads: if `limit` passes the process exits 2 with
/// `INCONCLUSIVE` (never a violation). Returns a guard; dropping it disarms the watchdog.
/// Set once a `VIOLATION` line was printed: a later watchdog/environment abort must not turn the
/// exit status of a run that already reported a violation into "inconclusive".
pub static VIOLATION_PRINTED: AtomicBool = AtomicBool::new(false);

pub struct Watchdog {
    armed: std::sync::Arc<AtomicBool>,
}

impl Watchdog {
    pub fn arm(what: &str, limit: Duration) -> Watchdog {
        let armed = std::sync::Arc::new(AtomicBool::new(true));
        let flag = armed.clone();
        let what = what.to_string();
        std::thread::spawn(move || {
            let start = Instant::now();
            while start.elapsed() < limit {
                std::thread::sleep(Duration::from_millis(200));
                if !flag.load(Ordering::SeqCst) {
                    return;
                }
            }
            if flag.load(Ordering::SeqCst) {
                println!("INCONCLUSIVE: watchdog fired after {limit:?} in {what}");
                std::process::exit(if VIOLATION_PRINTED.load(Ordering::SeqCst) { 1 } else { 2 });
            }
        });
        Watchdog { armed }
    }
}

impl Drop for Watchdog {
    fn drop(&mut self) {
        self.armed.store(false, Ordering::SeqCst);
    }
}

/// Parses `/verif/known_findings.txt`. Lines:
///
/// ```text
/// open: property=C12 key=K-C12 <what fails>
/// fixed: property=C02 <commit> <what failed>
/// ```
///
/// Only `open:` lines influence a run; `fixed:` lines suppress nothing.
fn load_open_findings(path: &Path, property: &str) -> Vec<OpenFinding> {
    let Ok(text) = std::fs::read_to_string(path) else {
        return vec![];
    };
    let mut out = Vec::new();
    for line in text.lines() {
        let line = line.trim();
        let Some(rest) = line.strip_prefix("open:") else {
            continue;
        };
        let mut prop = None;
        let mut key = None;
        let mut what = Vec::new();
        for tok in rest.split_whitespace() {
            if let (None, Some(p)) = (&prop, tok.strip_prefix("property=")) {
                prop = Some(p.to_string());
            } else if let (None, Some(k)) = (&key, tok.strip_prefix("key=")) {
                key = Some(k.to_string());
            } else {
                what.push(tok);
            }
        }
        if let (Some(p), Some(k)) = (prop, key) {
            if p == property {
                out.push(OpenFinding {
                    property: p,
                    key: k,
                    what: what.join(" "),
                });
            }
        }
    }
    out
}

/// Monotone index mapping recommended for shrinking: maps a generated `u16` onto `0..len`.
pub fn idx(raw: u16, len: usize) -> usize {
    if len == 0 {
        0
    } else {
        ((raw as usize) * len) >> 16
    }
}

/// Deterministic permutation of `0..n` from generated sort keys (stable, shrink-friendly: all-zero
/// keys give the identity).
pub fn permutation(keys: &[u16], n: usize) -> Vec<usize> {
    let mut v: Vec<usize> = (0..n).collect();
    v.sort_by_key(|&i| keys.get(i).copied().unwrap_or(0));
    v
}
