//! C30 Confidential discovery yields exactly the common topics.
//!
//! Alice and Bob run `PsiHashDiscoveryProtocol` against each other over in-process channels that
//! the harness relays message by message; every relayed message is serialised (postcard – the
//! wire format used by p2panda-net –, CBOR and JSON) and scanned. Oracles, all computed from the
//! generated case and never from the implementation:
//!
//! * both `DiscoveryResult::topics` equal the set intersection of the two topic sets,
//! * no serialised message contains a raw topic (32 raw bytes or their hex text) known to either
//!   side (own topics and topics recorded in the address books),
//! * a peer configured with `share_nodes_with_common_topics` only sends node infos of nodes that,
//!   according to its own address book, have at least one common topic – plus itself.
//!
//! The salts are drawn from the OS RNG inside the code under test; no oracle depends on them.
//! A third part replays hashes (in-session echo by a scripted Alice, cross-session replay by a
//! scripted Bob): a peer that knows no topic must not be credited with one.

use std::collections::{BTreeMap, BTreeSet, HashSet};
use std::convert::Infallible;
use std::sync::{Arc, Mutex};
use std::time::Duration;

use engine::proptest::prelude::*;
use engine::{CaseOk, CaseResult, Ctx, Part, ensure};
use futures_channel::mpsc;
use futures_util::{SinkExt, StreamExt};
use p2panda_core::{SigningKey, Topic, VerifyingKey};
use p2panda_discovery::psi_hash::{Config, PsiHashDiscoveryProtocol, PsiHashMessage};
use p2panda_discovery::test_utils::TestSubscription;
use p2panda_discovery::traits::DiscoveryProtocol;
use p2panda_discovery::DiscoveryResult;
use p2panda_store::address_book::test_utils::{TestNodeInfo, TestTransportInfo};
use p2panda_store::address_book::{AddressBookStore, NodeInfo};
use p2panda_store::{SqliteStore, Transaction};
use serde::{Deserialize, Serialize};

type Id = VerifyingKey;
type Msg = PsiHashMessage<Id, TestNodeInfo>;
type TopicBytes = [u8; 32];

// ------------------------------------------------------------------------------------------------
// Case
// ------------------------------------------------------------------------------------------------

#[derive(Clone, Debug, Serialize, Deserialize)]
pub struct NodeSpec {
    /// Index into the pool of node identities: 0 = Alice, 1 = Bob, 2.. = third parties. A later
    /// entry with the same index overwrites an earlier one (like `insert_node_info`).
    who: u8,
    /// Topics the owner of the address book recorded for this node: bit i = topic i of the
    /// universe.
    topics: u16,
    has_transports: bool,
    stale: bool,
    bootstrap: bool,
}

#[derive(Clone, Debug, Serialize, Deserialize)]
pub struct Side {
    /// Own topic subscriptions: bit i = topic i of the universe.
    topics: u16,
    restricted: bool,
    book: Vec<NodeSpec>,
}

#[derive(Clone, Debug, Serialize, Deserialize)]
pub struct Case {
    /// Number of topics in the universe (0..=12); masks are cut to it.
    universe: u8,
    /// 0 = pseudo-random topic bytes from `topic_seed`, 1 = low-entropy `[0x41 + i; 32]`.
    topic_style: u8,
    topic_seed: u64,
    alice: Side,
    bob: Side,
}

const POOL: usize = 10;

fn splitmix(x: &mut u64) -> u64 {
    *x = x.wrapping_add(0x9E37_79B9_7F4A_7C15);
    let mut z = *x;
    z = (z ^ (z >> 30)).wrapping_mul(0xBF58_476D_1CE4_E5B9);
    z = (z ^ (z >> 27)).wrapping_mul(0x94D0_49BB_1331_11EB);
    z ^ (z >> 31)
}

fn bytes32(seed: u64) -> [u8; 32] {
    let mut x = seed;
    let mut out = [0u8; 32];
    for chunk in out.chunks_mut(8) {
        chunk.copy_from_slice(&splitmix(&mut x).to_le_bytes());
    }
    out
}

fn node_id(who: u8) -> Id {
    SigningKey::from_bytes(&bytes32(0xC30_0000 + who as u64)).verifying_key()
}

impl Case {
    fn universe(&self) -> usize {
        (self.universe as usize).min(12)
    }

    fn topic(&self, i: usize) -> TopicBytes {
        if self.topic_style == 1 {
            [0x41 + i as u8; 32]
        } else {
            bytes32(self.topic_seed ^ ((i as u64 + 1) << 40))
        }
    }

    fn set(&self, mask: u16) -> BTreeSet<TopicBytes> {
        (0..self.universe()).filter(|i| mask & (1 << i) != 0).map(|i| self.topic(i)).collect()
    }
}

/// Final content of an address book after applying the inserts in order.
fn book_of(case: &Case, side: &Side) -> BTreeMap<u8, NodeSpec> {
    let mut m = BTreeMap::new();
    for n in &side.book {
        let mut n = n.clone();
        n.who %= POOL as u8;
        n.topics &= ((1u32 << case.universe()) - 1) as u16;
        m.insert(n.who, n);
    }
    m
}

fn transport_for(who: u8, owner: u8) -> TestTransportInfo {
    // `TestTransportInfo`'s fields are private and its constructor reads the wall clock; going
    // through serde keeps the case a pure function of the generated data.
    serde_json::from_value(serde_json::json!({
        "address": format!("10.{owner}.0.{who}"),
        "timestamp": 1_700_000_000u64 + who as u64,
    }))
    .expect("TestTransportInfo from json")
}

fn node_info(spec: &NodeSpec, owner: u8) -> TestNodeInfo {
    TestNodeInfo {
        id: node_id(spec.who),
        bootstrap: spec.bootstrap,
        stale: spec.stale,
        transports: spec.has_transports.then(|| transport_for(spec.who, owner)),
    }
}

// ------------------------------------------------------------------------------------------------
// In-memory address book (documented trait semantics; stale nodes are not handed out for sharing,
// like the SQLite implementation)
// ------------------------------------------------------------------------------------------------

#[derive(Clone, Default)]
pub struct MemBook {
    nodes: Arc<Mutex<BTreeMap<Id, (TestNodeInfo, HashSet<Topic>)>>>,
}

impl AddressBookStore<Id, TestNodeInfo> for MemBook {
    type Error = Infallible;

    async fn insert_node_info(&self, info: TestNodeInfo) -> Result<bool, Infallible> {
        let mut g = self.nodes.lock().unwrap();
        match g.get_mut(&info.id) {
            Some(e) => {
                e.0 = info;
                Ok(false)
            }
            None => {
                g.insert(info.id, (info, HashSet::new()));
                Ok(true)
            }
        }
    }

    async fn remove_node_info(&self, id: &Id) -> Result<bool, Infallible> {
        Ok(self.nodes.lock().unwrap().remove(id).is_some())
    }

    async fn remove_older_than(&self, _duration: Duration) -> Result<usize, Infallible> {
        Ok(0)
    }

    async fn node_info(&self, id: &Id) -> Result<Option<TestNodeInfo>, Infallible> {
        Ok(self.nodes.lock().unwrap().get(id).map(|e| e.0.clone()))
    }

    async fn node_topics(&self, id: &Id) -> Result<HashSet<Topic>, Infallible> {
        Ok(self.nodes.lock().unwrap().get(id).map(|e| e.1.clone()).unwrap_or_default())
    }

    async fn all_node_infos(&self) -> Result<Vec<TestNodeInfo>, Infallible> {
        Ok(self.nodes.lock().unwrap().values().filter(|e| !e.0.stale).map(|e| e.0.clone()).collect())
    }

    async fn all_nodes_len(&self) -> Result<usize, Infallible> {
        Ok(self.nodes.lock().unwrap().len())
    }

    async fn all_bootstrap_nodes_len(&self) -> Result<usize, Infallible> {
        Ok(self.nodes.lock().unwrap().values().filter(|e| e.0.bootstrap).count())
    }

    async fn selected_node_infos(&self, ids: &[Id]) -> Result<Vec<TestNodeInfo>, Infallible> {
        let g = self.nodes.lock().unwrap();
        Ok(ids.iter().filter_map(|id| g.get(id).map(|e| e.0.clone())).collect())
    }

    async fn set_topics(&self, id: Id, topics: HashSet<Topic>) -> Result<(), Infallible> {
        if let Some(e) = self.nodes.lock().unwrap().get_mut(&id) {
            e.1 = topics;
        }
        Ok(())
    }

    async fn node_infos_by_topics(&self, topics: &[Topic]) -> Result<Vec<TestNodeInfo>, Infallible> {
        Ok(self
            .nodes
            .lock()
            .unwrap()
            .values()
            .filter(|e| !e.0.stale && topics.iter().any(|t| e.1.contains(t)))
            .map(|e| e.0.clone())
            .collect())
    }

    async fn random_node(&self) -> Result<Option<TestNodeInfo>, Infallible> {
        Ok(self.nodes.lock().unwrap().values().next().map(|e| e.0.clone()))
    }

    async fn random_bootstrap_node(&self) -> Result<Option<TestNodeInfo>, Infallible> {
        Ok(self.nodes.lock().unwrap().values().find(|e| e.0.bootstrap).map(|e| e.0.clone()))
    }
}

async fn fill<S>(store: &S, case: &Case, side: &Side, owner: u8) -> Result<(), String>
where
    S: AddressBookStore<Id, TestNodeInfo>,
{
    for spec in book_of(case, side).values() {
        store
            .insert_node_info(node_info(spec, owner))
            .await
            .map_err(|e| format!("harness: insert_node_info: {e}"))?;
        let topics: HashSet<Topic> = case.set(spec.topics).into_iter().map(Topic::from).collect();
        store
            .set_topics(node_id(spec.who), topics)
            .await
            .map_err(|e| format!("harness: set_topics: {e}"))?;
    }
    Ok(())
}

// ------------------------------------------------------------------------------------------------
// Relay and message inspection
// ------------------------------------------------------------------------------------------------

#[derive(Clone, Copy, Debug, PartialEq, Eq)]
enum Kind {
    AliceSaltHalf,
    BobSaltHalfAndHashedData,
    AliceHashedData,
    Nodes,
}

struct Seen {
    from_alice: bool,
    kind: Kind,
    node_ids: Vec<Id>,
    hashes: Vec<TopicBytes>,
    encodings: Vec<(&'static str, Vec<u8>)>,
}

fn inspect(msg: &Msg, from_alice: bool) -> Result<Seen, String> {
    let (kind, node_ids, hashes) = match msg {
        PsiHashMessage::AliceSaltHalf { .. } => (Kind::AliceSaltHalf, vec![], vec![]),
        PsiHashMessage::BobSaltHalfAndHashedData { topics_for_alice, .. } => (
            Kind::BobSaltHalfAndHashedData,
            vec![],
            topics_for_alice.iter().map(|t| t.to_bytes()).collect(),
        ),
        PsiHashMessage::AliceHashedData { topics_for_bob } => {
            (Kind::AliceHashedData, vec![], topics_for_bob.iter().map(|t| t.to_bytes()).collect())
        }
        PsiHashMessage::Nodes { transport_infos } => (Kind::Nodes, transport_infos.keys().copied().collect(), vec![]),
    };
    let mut cbor = Vec::new();
    ciborium::ser::into_writer(msg, &mut cbor).map_err(|e| format!("harness: CBOR encoding failed: {e}"))?;
    let post = postcard::to_allocvec(msg).map_err(|e| format!("harness: postcard encoding failed: {e}"))?;
    let json = serde_json::to_vec(msg).map_err(|e| format!("harness: JSON encoding failed: {e}"))?;
    Ok(Seen {
        from_alice,
        kind,
        node_ids,
        hashes,
        encodings: vec![("postcard", post), ("cbor", cbor), ("json", json)],
    })
}

fn contains(hay: &[u8], needle: &[u8]) -> bool {
    !needle.is_empty() && hay.len() >= needle.len() && hay.windows(needle.len()).any(|w| w == needle)
}

/// No serialised message may contain a raw topic, as bytes or as hex text.
fn scan_for_raw_topics(seen: &[Seen], topics: &BTreeSet<TopicBytes>) -> Result<(), String> {
    for (n, s) in seen.iter().enumerate() {
        for (format, bytes) in &s.encodings {
            for t in topics {
                let lower = hex::encode(t);
                let upper = lower.to_uppercase();
                let hit = if contains(bytes, t) {
                    Some("raw bytes")
                } else if contains(bytes, lower.as_bytes()) || contains(bytes, upper.as_bytes()) {
                    Some("hex text")
                } else {
                    None
                };
                if let Some(how) = hit {
                    return Err(format!(
                        "message #{n} ({:?} from {}) contains raw topic {lower} as {how} in its {format} serialisation",
                        s.kind,
                        if s.from_alice { "Alice" } else { "Bob" },
                    ));
                }
            }
        }
    }
    Ok(())
}

type Outcome = Result<DiscoveryResult<Id, TestNodeInfo>, String>;

struct Session {
    alice: Outcome,
    bob: Outcome,
    seen: Vec<Seen>,
}

/// Runs both roles over relayed channels. `Err` = harness problem.
async fn run_session<SA, SB>(alice_store: SA, bob_store: SB, case: &Case) -> Result<Session, String>
where
    SA: AddressBookStore<Id, TestNodeInfo>,
    SB: AddressBookStore<Id, TestNodeInfo>,
{
    let sub = |mask: u16| TestSubscription {
        topics: case.set(mask).into_iter().map(Topic::from).collect(),
    };
    let alice_protocol = PsiHashDiscoveryProtocol::<_, _, Id, TestNodeInfo>::with_config(
        alice_store,
        sub(case.alice.topics),
        node_id(0),
        node_id(1),
        Config {
            share_nodes_with_common_topics: case.alice.restricted,
        },
    );
    let bob_protocol = PsiHashDiscoveryProtocol::<_, _, Id, TestNodeInfo>::with_config(
        bob_store,
        sub(case.bob.topics),
        node_id(1),
        node_id(0),
        Config {
            share_nodes_with_common_topics: case.bob.restricted,
        },
    );

    let (mut a_out_tx, mut a_out_rx) = mpsc::channel::<Msg>(16);
    let (mut b_in_tx, b_in_rx) = mpsc::channel::<Msg>(16);
    let (mut b_out_tx, mut b_out_rx) = mpsc::channel::<Msg>(16);
    let (mut a_in_tx, a_in_rx) = mpsc::channel::<Msg>(16);

    let seen = std::cell::RefCell::new(Vec::<Seen>::new());
    let problem = std::cell::RefCell::new(None::<String>);

    let relay_a = async {
        while let Some(msg) = a_out_rx.next().await {
            match inspect(&msg, true) {
                Ok(s) => seen.borrow_mut().push(s),
                Err(e) => *problem.borrow_mut() = Some(e),
            }
            if b_in_tx.send(msg).await.is_err() {
                break;
            }
        }
        b_in_tx.close_channel();
    };
    let relay_b = async {
        while let Some(msg) = b_out_rx.next().await {
            match inspect(&msg, false) {
                Ok(s) => seen.borrow_mut().push(s),
                Err(e) => *problem.borrow_mut() = Some(e),
            }
            if a_in_tx.send(msg).await.is_err() {
                break;
            }
        }
        a_in_tx.close_channel();
    };
    let alice = async {
        let mut rx = a_in_rx.map(Ok::<_, ()>);
        let r = alice_protocol.alice(&mut a_out_tx, &mut rx).await;
        a_out_tx.close_channel();
        r.map_err(|e| e.to_string())
    };
    let bob = async {
        let mut rx = b_in_rx.map(Ok::<_, ()>);
        let r = bob_protocol.bob(&mut b_out_tx, &mut rx).await;
        b_out_tx.close_channel();
        r.map_err(|e| e.to_string())
    };
    let (alice, bob, _, _) = futures_util::join!(alice, bob, relay_a, relay_b);
    if let Some(p) = problem.into_inner() {
        return Err(p);
    }
    Ok(Session {
        alice,
        bob,
        seen: seen.into_inner(),
    })
}

// ------------------------------------------------------------------------------------------------
// Oracle
// ------------------------------------------------------------------------------------------------

fn result_topics(r: &DiscoveryResult<Id, TestNodeInfo>) -> BTreeSet<TopicBytes> {
    r.topics.iter().map(|t| t.to_bytes()).collect()
}

fn short(set: &BTreeSet<TopicBytes>) -> Vec<String> {
    set.iter().map(|t| hex::encode(&t[..4])).collect()
}

/// Ids a restricted sender may put into its `Nodes` message, from its own (generated) address
/// book: nodes with at least one common topic, plus itself.
fn allowed_ids(case: &Case, side: &Side, me: u8, common_mask: u16) -> BTreeSet<Id> {
    let mut out: BTreeSet<Id> = book_of(case, side)
        .values()
        .filter(|n| n.topics & common_mask != 0)
        .map(|n| node_id(n.who))
        .collect();
    out.insert(node_id(me));
    out
}

fn all_known_topics(case: &Case) -> BTreeSet<TopicBytes> {
    let mut mask = case.alice.topics | case.bob.topics;
    for n in case.alice.book.iter().chain(case.bob.book.iter()) {
        mask |= n.topics;
    }
    case.set(mask)
}

fn judge(case: &Case, session: &Session) -> CaseResult {
    let a = case.set(case.alice.topics);
    let b = case.set(case.bob.topics);
    let common: BTreeSet<TopicBytes> = a.intersection(&b).copied().collect();
    let universe_mask = ((1u32 << case.universe()) - 1) as u16;
    let common_mask = case.alice.topics & case.bob.topics & universe_mask;

    let alice = session
        .alice
        .as_ref()
        .map_err(|e| format!("Alice did not obtain a result over a reliable transport: {e}"))?;
    let bob = session
        .bob
        .as_ref()
        .map_err(|e| format!("Bob did not obtain a result over a reliable transport: {e}"))?;
    ensure!(
        result_topics(alice) == common,
        "Alice's topics {:?} differ from the intersection {:?} (Alice has {:?}, Bob has {:?})",
        short(&result_topics(alice)),
        short(&common),
        short(&a),
        short(&b)
    );
    ensure!(
        result_topics(bob) == common,
        "Bob's topics {:?} differ from the intersection {:?} (Alice has {:?}, Bob has {:?})",
        short(&result_topics(bob)),
        short(&common),
        short(&a),
        short(&b)
    );

    scan_for_raw_topics(&session.seen, &all_known_topics(case))?;

    let mut filter_mattered = false;
    let mut sharable_common = false;
    for s in session.seen.iter().filter(|s| s.kind == Kind::Nodes) {
        let (side, me, name) = if s.from_alice { (&case.alice, 0u8, "Alice") } else { (&case.bob, 1u8, "Bob") };
        if !side.restricted {
            continue;
        }
        let allowed = allowed_ids(case, side, me, common_mask);
        for id in &s.node_ids {
            ensure!(
                allowed.contains(id),
                "{name} runs with share_nodes_with_common_topics and sent the node info of {} which has no common topic in {name}'s address book and is not {name} (common topics {:?})",
                id.to_hex(),
                short(&common)
            );
        }
        for n in book_of(case, side).values() {
            let sharable = n.has_transports && !n.stale && n.who != me;
            if sharable && n.topics != 0 && n.topics & common_mask == 0 {
                filter_mattered = true;
            }
            if sharable && n.topics & common_mask != 0 {
                sharable_common = true;
            }
        }
    }

    let partial = !common.is_empty() && common != a && common != b;
    let nodes_sent: usize = session.seen.iter().filter(|s| s.kind == Kind::Nodes).map(|s| s.node_ids.len()).sum();
    Ok(CaseOk::nontrivial(partial && filter_mattered)
        .label_if(common.is_empty(), "intersection_empty")
        .label_if(a.is_empty() || b.is_empty(), "one_side_without_topics")
        .label_if(!common.is_empty() && a == b, "equal_sets")
        .label_if(!common.is_empty() && a != b && (common == a || common == b), "nested_sets")
        .label_if(partial, "partial_overlap")
        .label_if(case.alice.restricted || case.bob.restricted, "some_side_restricted")
        .label_if(filter_mattered, "restricted_sender_knows_node_with_only_foreign_topics")
        .label_if(sharable_common, "restricted_sender_knows_node_with_common_topic")
        .label_if(nodes_sent > 2, "third_party_infos_sent")
        .label_if(case.topic_style == 1, "low_entropy_topics"))
}

// ------------------------------------------------------------------------------------------------
// Case functions
// ------------------------------------------------------------------------------------------------

fn check_model_store(case: &Case) -> CaseResult {
    let rt = harness(
        tokio::runtime::Builder::new_current_thread()
            .enable_all()
            .start_paused(true)
            .build()
            .map_err(|e| format!("harness: runtime: {e}")),
    );
    let session = harness(rt.block_on(async {
        let alice_store = MemBook::default();
        let bob_store = MemBook::default();
        fill(&alice_store, case, &case.alice, 0).await?;
        fill(&bob_store, case, &case.bob, 1).await?;
        // Nothing here depends on time; under the paused clock a virtual hour can only elapse when
        // every future is stuck, which turns a protocol deadlock into a deterministic failure.
        match tokio::time::timeout(Duration::from_secs(3600), run_session(alice_store, bob_store, case)).await {
            Ok(s) => s.map(Some),
            Err(_) => Ok(None),
        }
    }));
    match session {
        Some(s) => judge(case, &s),
        None => Err("the two protocol sides deadlocked: neither obtained a result".into()),
    }
}

/// Harness-internal failures (fixtures, encoders) are never violations.
fn harness<T>(r: Result<T, String>) -> T {
    match r {
        Ok(v) => v,
        Err(e) => engine::harness_error(&e),
    }
}

async fn fill_sqlite(store: &SqliteStore, case: &Case, side: &Side, owner: u8) -> Result<(), String> {
    let permit = store.begin().await.map_err(|e| format!("harness: begin: {e}"))?;
    fill(store, case, side, owner).await?;
    store.commit(permit).await.map_err(|e| format!("harness: commit: {e}"))
}

fn check_sqlite_store(case: &Case) -> CaseResult {
    let rt = harness(
        tokio::runtime::Builder::new_current_thread()
            .enable_all()
            .build()
            .map_err(|e| format!("harness: runtime: {e}")),
    );
    let session = harness(rt.block_on(async {
        let alice_store = SqliteStore::temporary().await;
        let bob_store = SqliteStore::temporary().await;
        fill_sqlite(&alice_store, case, &case.alice, 0).await?;
        fill_sqlite(&bob_store, case, &case.bob, 1).await?;
        run_session(alice_store, bob_store, case).await
    }));
    judge(case, &session)
}

// ------------------------------------------------------------------------------------------------
// Replay part
// ------------------------------------------------------------------------------------------------

#[derive(Clone, Debug, Serialize, Deserialize)]
pub struct ReplayCase {
    base: Case,
    /// Salt half chosen by the scripted (dishonest) peer.
    salt_seed: u64,
    /// 0 = scripted Alice echoes Bob's hashes within the session,
    /// 1 = scripted Bob replays the hashes honest Bob sent in an earlier session.
    attack: u8,
}

/// Outcome of the scripted peer: `Err` only means that the victim hung up early.
type Script = Result<(), String>;

async fn script_recv(rx: &mut mpsc::Receiver<Msg>, what: &str) -> Result<Msg, String> {
    rx.next().await.ok_or_else(|| format!("victim closed the channel before {what}"))
}

async fn script_send(tx: &mut mpsc::Sender<Msg>, msg: Msg) -> Script {
    tx.send(msg).await.map_err(|_| "victim closed the channel".to_string())
}

fn check_replay(rc: &ReplayCase) -> CaseResult {
    let case = &rc.base;
    let rt = harness(
        tokio::runtime::Builder::new_current_thread()
            .enable_all()
            .start_paused(true)
            .build()
            .map_err(|e| format!("harness: runtime: {e}")),
    );
    let sub = |mask: u16| TestSubscription {
        topics: case.set(mask).into_iter().map(Topic::from).collect(),
    };
    let fake_salt = bytes32(rc.salt_seed);
    let victim_is_bob = rc.attack == 0;
    let (victim_side, victim_me) = if victim_is_bob { (&case.bob, 1u8) } else { (&case.alice, 0u8) };
    let victim_topics = case.set(victim_side.topics);

    let outcome = harness(rt.block_on(async {
        let run = async {
            let store = MemBook::default();
            fill(&store, case, victim_side, victim_me).await?;
            let victim = PsiHashDiscoveryProtocol::<_, _, Id, TestNodeInfo>::with_config(
                store,
                sub(victim_side.topics),
                node_id(victim_me),
                node_id(1 - victim_me),
                Config {
                    share_nodes_with_common_topics: victim_side.restricted,
                },
            );
            let (mut to_victim, victim_rx) = mpsc::channel::<Msg>(16);
            let (mut victim_tx, mut from_victim) = mpsc::channel::<Msg>(16);
            let mut victim_rx = victim_rx.map(Ok::<_, ()>);
            let nodes_from_victim = std::cell::RefCell::new(Vec::<Id>::new());
            let hashes_seen = std::cell::Cell::new(0usize);

            // Hashes honest Bob sent in an earlier honest session (cross-session replay only).
            let old_hashes: HashSet<Topic> = if victim_is_bob {
                HashSet::new()
            } else {
                let a_store = MemBook::default();
                let b_store = MemBook::default();
                fill(&a_store, case, &case.alice, 0).await?;
                fill(&b_store, case, &case.bob, 1).await?;
                let earlier = run_session(a_store, b_store, case).await?;
                earlier
                    .seen
                    .iter()
                    .filter(|s| s.kind == Kind::BobSaltHalfAndHashedData)
                    .flat_map(|s| s.hashes.iter().map(|h| Topic::from(*h)))
                    .collect()
            };

            let attacker = async {
                let r: Script = async {
                if victim_is_bob {
                    // Scripted Alice: salt, then echo whatever Bob claims, then an empty node list.
                    script_send(&mut to_victim, PsiHashMessage::AliceSaltHalf { alice_salt_half: fake_salt }).await?;
                    let PsiHashMessage::BobSaltHalfAndHashedData { topics_for_alice, .. } =
                        script_recv(&mut from_victim, "its hashed topics").await?
                    else {
                        return Err("victim Bob answered the salt with an unexpected message".to_string());
                    };
                    hashes_seen.set(topics_for_alice.len());
                    script_send(&mut to_victim, PsiHashMessage::AliceHashedData { topics_for_bob: topics_for_alice }).await?;
                    if let PsiHashMessage::Nodes { transport_infos } = script_recv(&mut from_victim, "its node list").await? {
                        *nodes_from_victim.borrow_mut() = transport_infos.keys().copied().collect();
                    }
                    script_send(&mut to_victim, PsiHashMessage::Nodes { transport_infos: BTreeMap::new() }).await?;
                } else {
                    // Scripted Bob: fresh salt half, stale hashes, empty node list.
                    script_recv(&mut from_victim, "its salt").await?;
                    hashes_seen.set(old_hashes.len());
                    script_send(
                        &mut to_victim,
                        PsiHashMessage::BobSaltHalfAndHashedData {
                            bob_salt_half: fake_salt,
                            topics_for_alice: old_hashes,
                        },
                    )
                    .await?;
                    script_recv(&mut from_victim, "its hashed topics").await?;
                    script_send(&mut to_victim, PsiHashMessage::Nodes { transport_infos: BTreeMap::new() }).await?;
                    if let PsiHashMessage::Nodes { transport_infos } = script_recv(&mut from_victim, "its node list").await? {
                        *nodes_from_victim.borrow_mut() = transport_infos.keys().copied().collect();
                    }
                }
                Ok::<(), String>(())
                }
                .await;
                // Hang up as well: a victim still waiting for the script must not wait forever.
                to_victim.close_channel();
                r
            };
            let victim_run = async {
                let r = if victim_is_bob {
                    victim.bob(&mut victim_tx, &mut victim_rx).await.map_err(|e| e.to_string())
                } else {
                    victim.alice(&mut victim_tx, &mut victim_rx).await.map_err(|e| e.to_string())
                };
                // Hang up so that the script cannot wait for a victim that has already returned.
                victim_tx.close_channel();
                r
            };
            let (result, _script) = futures_util::join!(victim_run, attacker);
            Ok::<_, String>((result, nodes_from_victim.into_inner(), hashes_seen.get()))
        };
        match tokio::time::timeout(Duration::from_secs(3600), run).await {
            Ok(r) => r.map(Some),
            Err(_) => Ok(None),
        }
    }));
    let Some((result, nodes_from_victim, hashes_seen)) = outcome else {
        return Err("victim and scripted peer deadlocked".into());
    };
    let name = if victim_is_bob { "Bob" } else { "Alice" };
    let how = if victim_is_bob {
        "a peer that only echoed Bob's own hashes"
    } else {
        "a peer that only replayed hashes of an earlier session under a fresh salt"
    };
    // The scripted peer knows no topic at all, so the intersection of the topic sets is empty.
    // (A victim that aborts with an error has not credited anything either.)
    if let Ok(result) = &result {
        ensure!(
            result.topics.is_empty(),
            "{name} credited {how} with {} common topics ({name} has {} topics)",
            result.topics.len(),
            victim_topics.len()
        );
    }
    if victim_side.restricted {
        for id in &nodes_from_victim {
            ensure!(
                *id == node_id(victim_me),
                "{name} runs with share_nodes_with_common_topics and sent the node info of {} to {how}",
                id.to_hex()
            );
        }
    }
    Ok(CaseOk::nontrivial(hashes_seen > 0)
        .label(if victim_is_bob { "echo_against_bob" } else { "stale_hashes_against_alice" })
        .label_if(result.is_err(), "victim_aborted")
        .label_if(victim_side.restricted, "victim_restricted"))
}

// ------------------------------------------------------------------------------------------------
// Generator
// ------------------------------------------------------------------------------------------------

fn node_spec() -> impl Strategy<Value = NodeSpec> {
    (
        prop_oneof![1 => 0u8..2, 6 => 2u8..POOL as u8],
        any::<u16>(),
        any::<u16>(),
        prop::bool::weighted(0.85),
        prop::bool::weighted(0.1),
        prop::bool::weighted(0.2),
    )
        .prop_map(|(who, t1, t2, has_transports, stale, bootstrap)| NodeSpec {
            who,
            // Sparse topic sets so that "only foreign topics" is common.
            topics: t1 & t2,
            has_transports,
            stale,
            bootstrap,
        })
}

fn own_entry(who: u8) -> impl Strategy<Value = Option<NodeSpec>> {
    prop_oneof![
        1 => Just(None),
        4 => (any::<u16>(), prop::bool::weighted(0.9)).prop_map(move |(topics, has_transports)| Some(NodeSpec {
            who,
            topics,
            has_transports,
            stale: false,
            bootstrap: false,
        })),
    ]
}

fn case_strategy(max_universe: u8, max_book: usize) -> impl Strategy<Value = Case> {
    (
        prop_oneof![1 => 0u8..3, 6 => 3u8..=max_universe],
        prop_oneof![4 => Just(0u8), 1 => Just(1u8)],
        any::<u64>(),
        // Overlap mode and raw masks.
        (prop_oneof![4 => Just(0u8), 1 => Just(1u8), 1 => Just(2u8), 1 => Just(3u8), 1 => Just(4u8), 2 => Just(5u8)], any::<u16>(), any::<u16>(), any::<u16>()),
        (prop::bool::weighted(0.7), prop::bool::weighted(0.7)),
        (prop::collection::vec(node_spec(), 0..=max_book), own_entry(0)),
        (prop::collection::vec(node_spec(), 0..=max_book), own_entry(1)),
    )
        .prop_map(|(universe, topic_style, topic_seed, (mode, m1, m2, m3), (ra, rb), (mut book_a, own_a), (mut book_b, own_b))| {
            let full = ((1u32 << universe.min(12)) - 1) as u16;
            let (ta, tb) = match mode {
                0 => (m1 & full, m2 & full),                  // independent
                1 => (m1 & full, m1 & full),                  // equal
                2 => (m1 & m3 & full, m2 & !m3 & full),       // disjoint
                3 => (m1 & full, m1 & m2 & full),             // Bob nested in Alice
                4 => (m1 & m2 & full, m1 & full),             // Alice nested in Bob
                _ => ((m1 | m3) & full, (m2 | m3) & full),    // guaranteed overlap m3
            };
            book_a.extend(own_a);
            book_b.extend(own_b);
            Case {
                universe,
                topic_style,
                topic_seed,
                alice: Side {
                    topics: ta,
                    restricted: ra,
                    book: book_a,
                },
                bob: Side {
                    topics: tb,
                    restricted: rb,
                    book: book_b,
                },
            }
        })
}

fn replay_strategy() -> impl Strategy<Value = ReplayCase> {
    (case_strategy(12, 6), any::<u64>(), 0u8..2).prop_map(|(base, salt_seed, attack)| ReplayCase {
        base,
        salt_seed,
        attack,
    })
}

/// The scanner must find a planted topic in every encoding.
fn self_test() {
    let topic = bytes32(7);
    let msg: Msg = PsiHashMessage::AliceHashedData {
        topics_for_bob: HashSet::from_iter([Topic::from(topic)]),
    };
    let seen = vec![inspect(&msg, true).expect("inspect")];
    let planted = BTreeSet::from([topic]);
    let other = BTreeSet::from([bytes32(8)]);
    if scan_for_raw_topics(&seen, &planted).is_ok() || scan_for_raw_topics(&seen, &other).is_err() {
        engine::harness_error("C30 self-test: raw-topic scanner does not work");
    }
    for (format, bytes) in &seen[0].encodings {
        let found = contains(bytes, &topic) || contains(bytes, hex::encode(topic).as_bytes());
        if !found {
            engine::harness_error(&format!("C30 self-test: planted topic not visible in {format}"));
        }
    }
}

pub fn run(mut ctx: Ctx) -> ! {
    let _watchdog = engine::Watchdog::arm("C30 (whole run; SQLite worker threads)", Duration::from_secs(ctx.pick(900, 7200)));
    self_test();
    ctx.assume("salt halves come from the OS RNG inside psi_hash.rs; no oracle depends on their value");
    ctx.assume("messages are relayed unchanged over reliable in-order channels; each relayed message is serialised with postcard (wire format of p2panda-net), CBOR and JSON and scanned for the 32 raw bytes and the hex text of every topic known to either side");
    ctx.assume("sharing rule is asserted as an upper bound only (ids sent by a restricted peer are a subset of {nodes with a common topic in its own address book} + {itself}); nothing is asserted about the node list of an unrestricted peer");
    let max_universe = 12u8;
    let max_book = ctx.pick(8usize, 10usize);
    ctx.run_prop(
        Part::new(
            "psi_model_store",
            "topic universes of 0..=12 topics (pseudo-random or low-entropy bytes), two subsets in modes independent/equal/disjoint/nested/forced overlap, per-side restricted-sharing flag, per-side address book of 0..=8 entries over 10 identities (incl. Alice and Bob themselves) with sparse topic sets, optional transports, stale and bootstrap flags, on an in-memory address book with the documented trait semantics, paused clock; non-trivial = intersection non-empty and a proper subset of both sides and a restricted sender knows a sharable third node that has only non-common topics",
            40_000,
            1_000_000,
        )
        .min_nontrivial(0.1),
        || case_strategy(max_universe, max_book),
        check_model_store,
    );
    ctx.run_prop(
        Part::new(
            "psi_sqlite_store",
            "same generator, both address books in SqliteStore::temporary() (the store p2panda-net runs the protocol on); same non-trivial rule",
            600,
            8_000,
        )
        .min_nontrivial(0.1),
        || case_strategy(max_universe, max_book),
        check_sqlite_store,
    );
    ctx.run_prop(
        Part::new(
            "replay",
            "same generator for the victim; a scripted peer that knows no topic either echoes Bob's hashed topics back to him within the session, or answers Alice with the hashed topics honest Bob sent in an earlier session under a fresh salt half; the victim must not credit it with any topic nor (restricted) send it third-party node infos; non-trivial = at least one hash was replayed",
            10_000,
            300_000,
        )
        .min_nontrivial(0.3),
        replay_strategy,
        check_replay,
    );
    ctx.finish()
}
