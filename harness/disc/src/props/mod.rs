pub mod c30;
