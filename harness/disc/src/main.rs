//! Checks of the disc group: C30.
mod props;

fn main() {
    let ctx = engine::Ctx::from_args();
    match ctx.id.as_str() {
        "C30" => props::c30::run(ctx),
        other => engine::harness_error(&format!("property {other} is not served by verif-disc")),
    }
}
