//! Seed corpora and fuzz parts of the header targets (`c01_header`, `c02_roundtrip`).

use engine::Ctx;
use engine::fuzz::FuzzSpec;
use p2panda::operation::Extensions;

use crate::factory::{Built, ExtSpec, tag_hash};

fn seeds() -> Vec<(u8, Option<Vec<u8>>, Vec<u8>)> {
    // (selector bit0 = Node extensions, body, canonical header bytes)
    let mut out = Vec::new();
    let unit0 = Built::<()>::new(1, 0, None, ExtSpec::Unit, None);
    let unit1 = Built::<()>::new(1, 1, Some(unit0.id()), ExtSpec::Unit, Some(b"hello".to_vec()));
    for b in [&unit0, &unit1] {
        out.push((0u8, b.body.clone(), b.op.header.to_bytes()));
    }
    let basic = Built::<Extensions>::new(2, 0, None, ExtSpec::NodeBasic { log: 1, ts: 17, prune: false }, Some(b"x".to_vec()));
    let prune = Built::<Extensions>::new(2, 3, Some(tag_hash(7)), ExtSpec::NodeBasic { log: 1, ts: u64::MAX, prune: true }, None);
    let causal = Built::<Extensions>::new(3, 0, None, ExtSpec::NodeCausal { log: 2, ts: 5, previous: vec![1, 2, 3] }, None);
    for b in [&basic, &prune, &causal] {
        out.push((1u8, b.body.clone(), b.op.header.to_bytes()));
    }
    out
}

fn write_corpus(ctx: &Ctx) {
    let c01 = ctx.verif_dir.join("fuzz").join("corpus").join("c01_header");
    let c02 = ctx.verif_dir.join("fuzz").join("corpus").join("c02_roundtrip");
    if c01.exists() && c02.exists() {
        return;
    }
    std::fs::create_dir_all(&c01).ok();
    std::fs::create_dir_all(&c02).ok();
    for (i, (sel, body, header)) in seeds().into_iter().enumerate() {
        // c01 layout: [selector][body len][body][header]
        let mut a = vec![sel | if body.is_some() { 2 } else { 0 }, body.as_ref().map(|b| b.len() as u8).unwrap_or(0)];
        if let Some(b) = &body {
            a.extend(b);
        }
        a.extend(&header);
        std::fs::write(c01.join(format!("seed-{i}")), a).ok();
        // c02 layout: [selector][header]
        let mut r = vec![sel];
        r.extend(&header);
        std::fs::write(c02.join(format!("seed-{i}")), r).ok();
    }
}

pub fn c01_fuzz(ctx: &mut Ctx) {
    write_corpus(ctx);
    ctx.run_fuzz(
        FuzzSpec {
            target: "c01_header",
            rule: "libFuzzer over (extension kind, optional body, header bytes): whenever the bytes decode as Header<E>, validate_operation must agree with the reference predicate (independent signature check over the harness' re-encoding of the unsigned header) on the canonical bytes; corpus and saved crash inputs re-checked in every tier, campaign in thorough; non-trivial = the input decodes as a header",
            thorough_secs: 90,
        },
        crate::fuzz_c01::c01_oracle,
    );
}

pub fn c02_fuzz(ctx: &mut Ctx) {
    write_corpus(ctx);
    ctx.run_fuzz(
        FuzzSpec {
            target: "c02_roundtrip",
            rule: "libFuzzer over header bytes for extension types () and Node: four decodes of the same bytes must give equal values with identical encoding, id and signature validity, and a header that validates must survive encode -> decode unchanged; non-trivial = the input is a valid header",
            thorough_secs: 90,
        },
        crate::fuzz_c01::c02_oracle,
    );
}
