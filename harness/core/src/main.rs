//! Checks of the core group: C01, C02, C03, C05, C06, C18.
mod props;

fn main() {
    let ctx = engine::Ctx::from_args();
    match ctx.id.as_str() {
        "C06" => props::c06::run(ctx),
        other => engine::harness_error(&format!("property {other} is not served by verif-core")),
    }
}
