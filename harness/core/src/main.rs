//! Checks of the core group: C01, C02, C03, C05, C06, C18.
mod factory;
mod fixture;
mod model;
mod mutators;
mod oracles;
mod props;
mod script;
#[path = "../../../fuzz/oracles/c01.rs"]
mod fuzz_c01;
mod fuzz_seed;

fn main() {
    let ctx = engine::Ctx::from_args();
    match ctx.id.as_str() {
        "C01" => props::c01::run(ctx),
        "C02" => props::c02::run(ctx),
        "C03" => props::c03::run(ctx),
        "C05" => props::c05::run(ctx),
        "C06" => props::c06::run(ctx),
        "C18" => props::c18::run(ctx),
        other => engine::harness_error(&format!("property {other} is not served by verif-core")),
    }
}
